#!/venv/bin/python
"""debug aid: print a function as the rules see it (after macro-expansion of new helpers).  usage: showfn.py <repo> <qualname> [--facts]"""
import ast, os, sys
sys.path.insert(0, os.path.dirname(os.path.dirname(os.path.abspath(__file__))))
os.environ["PGF_REPO"] = sys.argv[1]
from pgfstatic import model
os.environ["PGF_REPO"] = sys.argv[1]
model.REPO = sys.argv[1]
prog = model.program()
f = prog.func(sys.argv[2])
print(ast.unparse(f.node))
if "--facts" in sys.argv:
    from pgfstatic.symex import facts_for
    ff = facts_for(f)
    for s in ff.order:
        print(s.index, ast.unparse(s.stmt).splitlines()[0][:90], "|", s.facts)
