#!/venv/bin/python
"""Run the checks against seeded changes without touching /repo: each patch is applied to
a scratch copy of the package under /dev/shm (removed afterwards).

usage: seedtest.py [--all-props] [seed_dir ...]     (default: every /verif/seeded/*/ )
A seed dir holds patch.diff and meta.json {"property": "Cxx", ...}.
"""
import json, os, shutil, subprocess, sys, tempfile
from concurrent.futures import ThreadPoolExecutor

VERIF = os.path.dirname(os.path.dirname(os.path.abspath(__file__)))
ALL = [f"C{i:02d}" for i in range(1, 21) if i != 3]


def run_one(seed, all_props):
    meta = json.load(open(os.path.join(seed, "meta.json")))
    prop = meta["property"]
    tmp = tempfile.mkdtemp(prefix="pgfseed-", dir="/dev/shm")
    try:
        shutil.copytree("/repo/pygradflow", os.path.join(tmp, "pygradflow"), ignore=shutil.ignore_patterns("__pycache__"))
        r = subprocess.run(["git", "apply", "--unsafe-paths", "--directory=" + tmp, os.path.join(seed, "patch.diff")], capture_output=True, text=True, cwd="/")
        if r.returncode != 0:
            r = subprocess.run(["patch", "-p1", "-s", "-d", tmp, "-i", os.path.join(seed, "patch.diff")], capture_output=True, text=True)
            if r.returncode != 0:
                return seed, prop, {"apply": "FAILED " + r.stderr[:200]}
        res = {}
        props = ALL if all_props else [prop]
        env = dict(os.environ, PGF_EVIDENCE_DIR=os.path.join(tmp, "evidence"))
        for p in props:
            if not os.path.exists(os.path.join(VERIF, "pgfstatic", "rules", p.lower() + ".py")):
                res[p] = "no-check"
                continue
            r = subprocess.run(["/venv/bin/python", os.path.join(VERIF, "check.py"), p, "--repo", tmp], capture_output=True, text=True, env=env)
            lines = [l for l in r.stdout.splitlines() if "VIOLATED" in l or "ANALYSIS-ERROR" in l]
            res[p] = (r.returncode, lines[:3])
        return seed, prop, res
    finally:
        shutil.rmtree(tmp, ignore_errors=True)


def main():
    args = sys.argv[1:]
    all_props = "--all-props" in args
    seeds = [os.path.abspath(a) for a in args if not a.startswith("--")]
    if not seeds:
        root = os.path.join(VERIF, "seeded")
        seeds = sorted(os.path.join(root, d) for d in os.listdir(root) if os.path.exists(os.path.join(root, d, "patch.diff")))
    with ThreadPoolExecutor(8) as ex:
        results = list(ex.map(lambda s: run_one(s, all_props), seeds))
    caught = 0
    for seed, prop, res in results:
        own = res.get(prop)
        hit = isinstance(own, tuple) and own[0] == 1
        others = [p for p, v in res.items() if p != prop and isinstance(v, tuple) and v[0] == 1]
        caught += bool(hit or others)
        status = "CAUGHT" if hit else ("caught-by-" + ",".join(others) if others else ("EXIT2" if isinstance(own, tuple) and own[0] == 2 else "missed"))
        print(f"{os.path.basename(seed.rstrip('/')):14s} {prop} {status}")
        if isinstance(own, tuple):
            for l in own[1][:2]:
                print("      ", l.strip()[:220])
        elif own:
            print("      ", own)
        if "apply" in res:
            print("      ", res["apply"])
    print(f"{caught}/{len(results)} seeded changes reported")


if __name__ == "__main__":
    main()
