#!/bin/bash
# run all 19 quick checks against /repo; exit non-zero (and say which) if any does not exit 0
bad=""
for p in C01 C02 C04 C05 C06 C07 C08 C09 C10 C11 C12 C13 C14 C15 C16 C17 C18 C19 C20; do
  /venv/bin/python /verif/check.py $p >/dev/null 2>&1 || bad="$bad $p"
done
if [ -n "$bad" ]; then echo "FAILING ON /repo:$bad"; exit 1; fi
echo "all 19 checks exit 0 on /repo"
