#!/venv/bin/python
"""Copy the sub-agents' outputs <out>/<Cxx>/<k>/{patch.diff,demo.py,meta.json} to /verif/seeded/<Cxx>_<tag>_<k>/ (or, with
--silence, the refactorings to /verif/silence/<Cxx>_<tag>_<k>/).  usage: import_seeds.py <out-dir> <tag> [--silence]"""
import json, os, shutil, sys
VERIF = os.path.dirname(os.path.dirname(os.path.abspath(__file__)))
out, tag = sys.argv[1], sys.argv[2]
sil = "--silence" in sys.argv
root = os.path.join(VERIF, "silence" if sil else "seeded")
n = 0
for p in sorted(os.listdir(out)):
    for k in sorted(os.listdir(os.path.join(out, p))):
        src = os.path.join(out, p, k)
        need = ["patch.diff", "meta.json"] + ([] if sil else ["demo.py"])
        if not os.path.isdir(src) or not all(os.path.exists(os.path.join(src, f)) for f in need):
            continue
        dst = os.path.join(root, f"{p}_{tag}_{k}")
        if os.path.exists(dst):
            continue
        os.makedirs(dst)
        for f in need:
            shutil.copy(os.path.join(src, f), dst)
        try:
            m = json.load(open(os.path.join(dst, "meta.json")))
        except Exception:
            m = {}
        m.setdefault("property", p)
        m["round"] = tag
        json.dump(m, open(os.path.join(dst, "meta.json"), "w"), indent=1)
        n += 1
        print("imported", dst)
print(n, "imported")
