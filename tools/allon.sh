#!/bin/bash
# usage: allon.sh <case> : apply the case to a scratch copy and run all 19 checks, printing the non-zero ones
/verif/tools/mk.sh "$@" >/dev/null
for p in C01 C02 C04 C05 C06 C07 C08 C09 C10 C11 C12 C13 C14 C15 C16 C17 C18 C19 C20; do
  out=$(/venv/bin/python /verif/check.py $p --repo /dev/shm/t1 2>&1); rc=$?
  if [ $rc -ne 0 ]; then echo "$p exit $rc"; echo "$out" | grep "VIOLATED\|ANALYSIS-ERROR" | head -${N:-3} | cut -c1-${W:-330}; fi
done
