#!/venv/bin/python
"""Print, per property, the rules the checker evaluated on /repo's current tree and how many (rule, construct) obligations
each produced.  Used to keep the "as built" table of DESIGN.md honest."""
import collections, importlib, os, sys
VERIF = os.path.dirname(os.path.dirname(os.path.abspath(__file__)))
sys.path.insert(0, VERIF)
os.environ.setdefault("PGF_EVIDENCE_DIR", "/dev/shm/pgfstatic-scratch-evidence")
from pgfstatic.model import program
from pgfstatic.report import Report

prog = program()
for i in range(1, 21):
    if i == 3:
        continue
    p = f"C{i:02d}"
    mod = importlib.import_module(f"pgfstatic.rules.{p.lower()}")
    rep = Report(p, "quick")
    mod.run(prog, rep, "quick")
    c = collections.Counter(o.rule for o in rep.obligations)
    print(f"| {p} | {len(rep.obligations)} | " + ", ".join(f"{k} ({v})" for k, v in sorted(c.items())) + " |")
