#!/bin/bash
# usage: noisy.sh <pattern> [file]  -> corpus cases whose report contains the pattern
f=${2:-/dev/shm/sil_rf4.txt}
awk -v pat="$1" '/^C[0-9]+_/ {cur=$1} index($0, pat) {print cur}' "$f" | sort -u | tr '\n' ' '; echo
