#!/venv/bin/python
"""Run ALL checks on every behaviour-preserving refactoring in /verif/silence (scratch copies under /dev/shm): each must stay silent (exit 0).
usage: silencetest.py [dir ...]"""
import json, os, shutil, subprocess, sys, tempfile
from concurrent.futures import ThreadPoolExecutor
VERIF = os.path.dirname(os.path.dirname(os.path.abspath(__file__)))
ALL = [f"C{i:02d}" for i in range(1, 21) if i != 3]

def run_one(d):
    tmp = tempfile.mkdtemp(prefix="pgfsil-", dir="/dev/shm")
    try:
        shutil.copytree("/repo/pygradflow", os.path.join(tmp, "pygradflow"), ignore=shutil.ignore_patterns("__pycache__"))
        r = subprocess.run(["git", "apply", "--unsafe-paths", "--directory=" + tmp, os.path.join(d, "patch.diff")], capture_output=True, text=True, cwd="/")
        if r.returncode:
            return d, {"apply": r.stderr[:200]}
        env = dict(os.environ, PGF_EVIDENCE_DIR=os.path.join(tmp, "ev"))
        res = {}
        for p in ALL:
            r = subprocess.run(["/venv/bin/python", os.path.join(VERIF, "check.py"), p, "--repo", tmp], capture_output=True, text=True, env=env)
            if r.returncode != 0:
                lines = [l.strip() for l in r.stdout.splitlines() if ("VIOLATED" in l and not l.startswith("KNOWN")) or "ANALYSIS-ERROR" in l]
                res[p] = (r.returncode, lines[:2])
        return d, res
    finally:
        shutil.rmtree(tmp, ignore_errors=True)

def main():
    dirs = [os.path.abspath(a) for a in sys.argv[1:]] or sorted(os.path.join(VERIF, "silence", x) for x in os.listdir(os.path.join(VERIF, "silence")))
    with ThreadPoolExecutor(int(os.environ.get("PGF_JOBS", "5"))) as ex:
        out = list(ex.map(run_one, dirs))
    noisy = 0
    for d, res in out:
        name = os.path.basename(d)
        if not res:
            print(f"{name:12s} silent")
            continue
        noisy += 1
        print(f"{name:12s} NOISY")
        for p, v in res.items():
            print("     ", p, v if isinstance(v, str) else f"exit {v[0]}: " + " | ".join(x[:230] for x in v[1]))
    print(f"{len(out) - noisy}/{len(out)} refactorings leave every check silent")

if __name__ == "__main__":
    main()
