#!/venv/bin/python
"""Confirm that every refactoring in /verif/silence keeps the pinned baseline (209 tests) passing: applied in a scratch git
worktree of /repo (outside /repo and /verif), removed afterwards.  Records the outcome in silence/<id>/meta.json ("confirmed").
usage: verify_silence.py [-j N] [dir ...]"""
import json, os, shutil, subprocess, sys, tempfile
from concurrent.futures import ThreadPoolExecutor

VERIF = os.path.dirname(os.path.dirname(os.path.abspath(__file__)))


def sh(cmd, cwd=None, timeout=1500):
    r = subprocess.run(cmd, cwd=cwd, capture_output=True, text=True, timeout=timeout)
    return r.returncode, r.stdout + r.stderr


def verify(d):
    name = os.path.basename(d.rstrip("/"))
    wt = tempfile.mkdtemp(prefix=f"pgfsilv-{name}-", dir="/tmp")
    os.rmdir(wt)
    try:
        rc, o = sh(["git", "-C", "/repo", "worktree", "add", "-q", "--detach", wt, "HEAD"])
        if rc:
            return name, {"error": "worktree: " + o[-300:]}
        rc, o = sh(["git", "apply", os.path.join(d, "patch.diff")], cwd=wt)
        if rc:
            return name, {"error": "apply: " + o[-300:]}
        rc, o = sh(["/venv/bin/python", "-c", "import pygradflow.solver, pygradflow.integration.integration_solver"], cwd=wt)
        rcb, ob = sh(["/venv/bin/python", os.path.join(VERIF, "tools", "baseline.py"), wt, "-n", "4"])
        return name, {"imports": rc == 0, "baseline_rc": rcb, "baseline": ob.strip().splitlines()[0] if ob.strip() else "", "ok": rc == 0 and rcb == 0}
    except subprocess.TimeoutExpired as e:
        return name, {"error": f"timeout: {e.cmd}"}
    finally:
        sh(["git", "-C", "/repo", "worktree", "remove", "--force", wt])
        shutil.rmtree(wt, ignore_errors=True)


def main():
    args = sys.argv[1:]
    jobs = 4
    if "-j" in args:
        i = args.index("-j"); jobs = int(args[i + 1]); del args[i:i + 2]
    root = os.path.join(VERIF, "silence")
    dirs = [os.path.abspath(a) for a in args] or sorted(os.path.join(root, x) for x in os.listdir(root) if os.path.exists(os.path.join(root, x, "patch.diff")))
    bad = 0
    with ThreadPoolExecutor(jobs) as ex:
        for name, res in ex.map(verify, dirs):
            print(name, json.dumps(res)[:300], flush=True)
            bad += not res.get("ok")
            mp = os.path.join(root, name, "meta.json")
            meta = json.load(open(mp)) if os.path.exists(mp) else {}
            meta["confirmed"] = res
            json.dump(meta, open(mp, "w"), indent=1)
    print(f"{len(dirs) - bad}/{len(dirs)} refactorings keep the baseline")
    return 1 if bad else 0


if __name__ == "__main__":
    sys.exit(main())
