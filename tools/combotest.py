#!/venv/bin/python
"""Refactoring + seeded change together: does a behaviour-preserving refactoring hide a breaking change from the checker?

For every seeded change S (property P) and every refactoring R that touches a file S touches, apply R and then S (GNU patch,
fuzz 2) to a scratch copy of /repo under /dev/shm.  If both apply, P's check must not stay silent on the combined tree
(exit 1 = reported, exit 2 = cannot decide).  For the pairs where the check exits 0 the seeded change's own demo is run on
the combined tree: only if the demo still fails is the pair a genuine miss (the combination may also have undone the slip).

usage: combotest.py [-j N] [--prop Cxx ...]      writes /verif/results/combotest.md"""
import json, os, re, shutil, subprocess, sys, tempfile
from concurrent.futures import ThreadPoolExecutor

VERIF = os.path.dirname(os.path.dirname(os.path.abspath(__file__)))


def files_of(patch):
    return set(re.findall(r"^\+\+\+ b/(\S+)", open(patch).read(), flags=re.M))


def try_pair(job):
    seed, ref, prop = job
    tmp = tempfile.mkdtemp(prefix="pgfcombo-", dir="/dev/shm")
    try:
        shutil.copytree("/repo/pygradflow", os.path.join(tmp, "pygradflow"), ignore=shutil.ignore_patterns("__pycache__"))
        shutil.copytree("/repo/tests", os.path.join(tmp, "tests"), ignore=shutil.ignore_patterns("__pycache__"))
        for p in (os.path.join(ref, "patch.diff"), os.path.join(seed, "patch.diff")):
            r = subprocess.run(["patch", "-p1", "-s", "-f", "--fuzz=2", "--no-backup-if-mismatch", "-i", p], cwd=tmp, capture_output=True, text=True)
            if r.returncode != 0 or any(f.endswith(".rej") for _, _, fs in os.walk(tmp) for f in fs):
                return seed, ref, "no-apply", ""
        r = subprocess.run(["/venv/bin/python", "-c", "import pygradflow.solver, pygradflow.integration.integration_solver"], cwd=tmp, capture_output=True, text=True)
        if r.returncode != 0:
            return seed, ref, "no-import", ""
        env = dict(os.environ, PGF_EVIDENCE_DIR=os.path.join(tmp, "ev"))
        r = subprocess.run(["/venv/bin/python", os.path.join(VERIF, "check.py"), prop, "--repo", tmp], capture_output=True, text=True, env=env)
        if r.returncode == 1:
            return seed, ref, "reported", ""
        if r.returncode == 2:
            line = next((l for l in r.stdout.splitlines() if "ANALYSIS-ERROR" in l), "")
            return seed, ref, "undecided", line[:200]
        # silent: is the combined tree still broken?
        try:
            d = subprocess.run(["/venv/bin/python", os.path.join(seed, "demo.py")], cwd=tmp, env=dict(os.environ, PYTHONPATH=tmp), capture_output=True, text=True, timeout=300)
            return seed, ref, ("MISS" if d.returncode != 0 else "silent-and-demo-passes"), (d.stdout + d.stderr).strip().splitlines()[-1][:200] if d.returncode != 0 and (d.stdout + d.stderr).strip() else ""
        except subprocess.TimeoutExpired:
            return seed, ref, "silent-demo-timeout", ""
    finally:
        shutil.rmtree(tmp, ignore_errors=True)


def main():
    args = sys.argv[1:]
    jobs_n = 8
    props = None
    if "-j" in args:
        i = args.index("-j"); jobs_n = int(args[i + 1]); del args[i:i + 2]
    if "--prop" in args:
        i = args.index("--prop"); props = set(args[i + 1:]); del args[i:]
    seeds = sorted(os.path.join(VERIF, "seeded", d) for d in os.listdir(os.path.join(VERIF, "seeded")) if os.path.exists(os.path.join(VERIF, "seeded", d, "patch.diff")))
    refs = sorted(os.path.join(VERIF, "silence", d) for d in os.listdir(os.path.join(VERIF, "silence")) if os.path.exists(os.path.join(VERIF, "silence", d, "patch.diff")))
    rfiles = {r: files_of(os.path.join(r, "patch.diff")) for r in refs}
    jobs = []
    for s in seeds:
        meta = json.load(open(os.path.join(s, "meta.json")))
        prop = meta.get("property")
        if props and prop not in props:
            continue
        if meta.get("expect") in ("undecided", "gap"):
            continue
        sf = files_of(os.path.join(s, "patch.diff"))
        for r in refs:
            if sf & rfiles[r]:
                jobs.append((s, r, prop))
    print(f"{len(jobs)} (seed, refactoring) pairs share a file", flush=True)
    with ThreadPoolExecutor(jobs_n) as ex:
        res = list(ex.map(try_pair, jobs))
    from collections import Counter
    c = Counter(k for _, _, k, _ in res)
    lines = ["# Refactoring + seeded change combined", "",
             f"{len(jobs)} pairs (seeded change, refactoring touching a file of the change); outcome of the changed property's check on the tree with both applied:", ""]
    for k, v in sorted(c.items(), key=lambda kv: -kv[1]):
        lines.append(f"* {k}: {v}")
    lines += ["", "Pairs that need attention (`MISS`: check silent although the demo of the seeded change still fails; `undecided`: ANALYSIS-ERROR):", ""]
    for s, r, k, extra in res:
        if k in ("MISS", "undecided", "silent-demo-timeout"):
            lines.append(f"* {k}: {os.path.basename(s)} + {os.path.basename(r)} {extra}")
    os.makedirs(os.path.join(VERIF, "results"), exist_ok=True)
    open(os.path.join(VERIF, "results", "combotest.md"), "w").write("\n".join(lines) + "\n")
    print("\n".join(lines[:12]))
    print(sum(1 for x in res if x[2] == "MISS"), "MISS;", sum(1 for x in res if x[2] == "undecided"), "undecided")


if __name__ == "__main__":
    main()
