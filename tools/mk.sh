#!/bin/bash
# usage: mk.sh <silence-or-seed dir name> [more patches...] : scratch copy of /repo with the patch(es) applied at /dev/shm/t1
rm -rf /dev/shm/t1; mkdir /dev/shm/t1; cp -r /repo/pygradflow /repo/tests /dev/shm/t1/
for r in "$@"; do
  d=/verif/silence/$r; [ -d "$d" ] || d=/verif/seeded/$r
  (cd /dev/shm/t1 && patch -p1 -s --no-backup-if-mismatch < $d/patch.diff) || echo "patch $r failed"
done
