#!/venv/bin/python
"""Write /verif/seeded/RESULTS.md: which checks report which seeded change (all properties' checks are run on each)."""
import json, os, re, subprocess, sys, tempfile, shutil
from concurrent.futures import ThreadPoolExecutor
VERIF = os.path.dirname(os.path.dirname(os.path.abspath(__file__)))
ALL = [f"C{i:02d}" for i in range(1, 21) if i != 3]

def run(seed):
    meta = json.load(open(os.path.join(seed, "meta.json")))
    tmp = tempfile.mkdtemp(prefix="pgfrep-", dir="/dev/shm")
    try:
        shutil.copytree("/repo/pygradflow", os.path.join(tmp, "pygradflow"), ignore=shutil.ignore_patterns("__pycache__"))
        r = subprocess.run(["git", "apply", "--unsafe-paths", "--directory=" + tmp, os.path.join(seed, "patch.diff")], capture_output=True, text=True, cwd="/")
        if r.returncode:
            return seed, meta, None
        env = dict(os.environ, PGF_EVIDENCE_DIR=os.path.join(tmp, "ev"))
        hits = {}
        for p in ALL:
            r = subprocess.run(["/venv/bin/python", os.path.join(VERIF, "check.py"), p, "--repo", tmp], capture_output=True, text=True, env=env)
            rules = sorted(set(re.findall(r"\[([a-z0-9A-Z_\-]+)\] ", "\n".join(l for l in r.stdout.splitlines() if "VIOLATED" in l and not l.startswith("KNOWN")))))
            if r.returncode == 1:
                hits[p] = rules
            elif r.returncode == 2:
                hits[p] = ["(analysis-error)"]
        return seed, meta, hits
    finally:
        shutil.rmtree(tmp, ignore_errors=True)

def main():
    root = os.path.join(VERIF, "seeded")
    seeds = sorted(os.path.join(root, d) for d in os.listdir(root) if os.path.exists(os.path.join(root, d, "patch.diff")))
    with ThreadPoolExecutor(6) as ex:
        res = list(ex.map(run, seeds))
    out = ["# Seeded changes and the checks that report them", "",
           "Each row is one change written by an independent sub-agent that was given only the property text. It breaks the named property while the package still imports and the 209 baseline tests still pass (confirmed in a scratch worktree, see `meta.json` -> `confirmed`). `own check` = the check of the property the change was written against; `also reported by` = other properties' checks that fire as well.", "",
           "| seed | property | what the change does | needs, to manifest | own check: rules that fire | also reported by |", "|---|---|---|---|---|---|"]
    own_hit = 0
    for seed, meta, hits in res:
        name = os.path.basename(seed)
        prop = meta["property"]
        if hits is None:
            out.append(f"| {name} | {prop} | (patch no longer applies to the current tree) | | | |")
            continue
        own = hits.get(prop)
        ok = own is not None and own != ["(analysis-error)"]
        own_hit += ok
        others = ", ".join(f"{p}" for p, r in sorted(hits.items()) if p != prop and r != ["(analysis-error)"])
        summ = re.sub(r"\s+", " ", meta.get("summary", ""))[:260].replace("|", "/")
        need = re.sub(r"\s+", " ", meta.get("needs_to_manifest", ""))[:200].replace("|", "/")
        out.append(f"| {name} | {prop} | {summ} | {need} | {', '.join(own) if own else '**not reported**'} | {others} |")
    out += ["", f"{own_hit} of {len(res)} seeded changes are reported by the check of their own property."]
    open(os.path.join(root, "RESULTS.md"), "w").write("\n".join(out) + "\n")
    print(out[-1])

if __name__ == "__main__":
    main()
