#!/venv/bin/python
"""Record how the reference tree (/repo) spells the arguments of calls to repository functions: for every callee whose call sites all
pass the same number of arguments positionally, that number.  pgfstatic/model.py re-spells the calls of an analysed tree the same
way (keyword <-> positional churn is not a behaviour change, and the rules were written against the reference spelling).
usage: gen_call_styles.py   (writes pgfstatic/call_styles.json; run on the unmodified /repo only)"""
import ast, json, os, sys
sys.path.insert(0, os.path.dirname(os.path.dirname(os.path.abspath(__file__))))
os.environ["PGF_NO_CALL_STYLES"] = "1"
from pgfstatic import model
model.REPO = "/repo"
prog = model.program()
from pgfstatic.model import FuncInfo, ClassInfo, own_nodes
seen = {}
for fi in prog.functions.values():
    for c in own_nodes(fi.node):
        if not isinstance(c, ast.Call) or any(isinstance(a, ast.Starred) for a in c.args) or any(k.arg is None for k in c.keywords):
            continue
        tg = []
        for t in prog.resolve_call_target(fi, c):
            if isinstance(t, ClassInfo):
                m = prog.lookup_method(t, "__init__")
                if m is not None and m.module.name.startswith("pygradflow"):
                    tg.append(m)
            elif isinstance(t, FuncInfo):
                tg.append(t)
        if not tg:
            continue
        sigs = {tuple(p for p in t.params if p not in ("self", "cls")) for t in tg}
        if len(sigs) != 1:
            continue
        for t in tg:
            seen.setdefault(t.qualname, set()).add(len(c.args))
out = {q: list(v)[0] for q, v in sorted(seen.items()) if len(v) == 1}
json.dump(out, open(os.path.join(os.path.dirname(os.path.dirname(os.path.abspath(__file__))), "pgfstatic", "call_styles.json"), "w"), indent=0, sort_keys=True)
print(len(out), "callees with a uniform positional count;", sum(1 for v in seen.values() if len(v) > 1), "mixed")
