#!/venv/bin/python
"""Regenerate /verif/MANIFEST.json from the table below (a check is listed when its rule
module exists).  Validates against the schema when jsonschema is importable."""
import json
import os
import sys

VERIF = os.path.dirname(os.path.dirname(os.path.abspath(__file__)))

T = {
    "C01": ("partial: Optimal-gate dominance (homotopy and integration solver, incl. the Converged event chain), residual completeness "
            "(total_res / stat_res / restricted-flow residuum as normal forms), unscale exponents from the change of variables, restore "
            "wiring, multiplier sign table",
            "guard dominance + polynomial normal forms + exponent forms over the AST",
            "numeric KKT satisfaction of a returned point is not decided; scipy's event root finding and numpy kernels are trusted"),
    "C02": ("partial: every non-optimal status return is dominated by the test the statement demands (callees unfolded), and the iteration "
            "accounting of the main loop is decided by path enumeration (exactly one step and one increment per iteration, termination test "
            "first, exits only by the status break or the lamb_max abort)",
            "guard dominance on path facts + loop-body path enumeration",
            "numeric truth of the stationarity claim is not decided; time.time() monotone"),
    "C04": ("partial: dimension typing of every ldexp in Scaling/ScaledProblem against the change of variables, exactness of the data path "
            "(only ldexp / conversion / indexing), inverse pairs, slack-embedding agreement between cons / cons_jac / bounds / transform_sol, "
            "pipeline order",
            "exponent-form extraction + sibling agreement over the AST",
            "bit-for-bit equality itself is not evaluated; scipy format conversions trusted"),
    "C05": ("claimed (site rule): user callbacks are reached only through Evaluator methods fed from Iterate.x, and every Iterate built on the "
            "homotopy path gets a box-safe x (clamped step result, np.clip against the same problem's bounds, an existing iterate's x, or the "
            "transformed start)",
            "who-may-call over the resolved call graph + box-safety tags on Iterate constructions",
            "premise x0 in bounds; numpy comparison/assignment semantics trusted"),
    "C06": ("partial: no certain crash (call arity / keywords of resolved callees, attributes of certain receiver types) in code reachable "
            "from the entry points, a complete inventory of reachable raise sites classified deliberate / internal-signal (contained) / "
            "abstract / configuration, no local read on a path on which it is unbound (definite assignment), guarded reductions and "
            "log-controller domain, shape agreement of the recorded path with the result, restore pipeline order",
            "arity check over resolved call sites + exception-flow inventory + definite-assignment dataflow",
            "reachability of data-dependent asserts, overflow and finiteness of results are not decided"),
    "C07": ("claimed: exception-flow fixed point shows LinearSolverError cannot leave any step solver, none of the three internal failure "
            "classes can leave compute_step / solve; failure results keep the iterate, are not accepted and shrink the step; accepted "
            "candidates are validated first; typestate of validated iterates in the main loop; initial-point conversion; evaluator completeness",
            "interprocedural exception-flow analysis + typestate + guard dominance",
            "validate_input=True; linear solvers that return garbage without raising are outside (C17)"),
    "C08": ("partial: limits gate control flow only (who-may-read + value-use classification of every Timer call), termination test before any "
            "state change, only the accepted iterate reaches the result, mid-step deadline is a contained failed step",
            "who-may-read / value-use analysis + loop-body flow + exception flow",
            "bit equality of prefixes itself follows with C10 and is not evaluated"),
    "C09": ("claimed (effect analysis): observer regions (display / DEBUG / collect_path / report_rcond / callbacks, in both solver classes) "
            "write no algorithm state, feed nothing back into decisions, cannot raise into the solve (math-domain errors included), use "
            "private randomness and clocks; property getters store nothing on their object",
            "observer-region effect analysis + exception containment",
            "user callbacks are the user's code; data-dependent asserts in the condition estimator are listed as undecided"),
    "C10": ("claimed (state-carrier inventory): no mutable module state, shared default Params never written, penalty / controller / display / "
            "timer constructed inside solve(), long-lived objects immutable after construction, no nondeterministic source",
            "state-carrier inventory over module bindings, attribute stores and constructor sites",
            "numpy/scipy kernels deterministic; the caller's Problem is stateless"),
    "C11": ("claimed (ownership analysis): no in-place write, out= argument or in-place method can reach a value that may still be the "
            "caller's object (x0, y0, bound arrays, scaling weights, anything returned by a problem callback)",
            "alias / ownership dataflow with a numpy-scipy transfer table",
            "mutation inside scipy itself is trusted not to happen; flag writes (writeable=False) are noted, not values"),
    "C12": ("partial: exactly one step, one announcement and one count per loop iteration; control-equivalent acceptance block; model time "
            "advances by the dt that was used; result fields come from the loop counters and the last accepted iterate; dist_factor shape",
            "loop-body path enumeration + def-use on resolved expressions",
            "dist_factor >= 1 in floating point is not decided"),
    "C13": ("partial: 20 closed-form quantities are equal to their definitions as polynomial normal forms; sign tables, projection shape, "
            "row filter and active-set masks are decided structurally",
            "polynomial normal forms (non-commutative atoms) compared with oracle formulas",
            "floating-point agreement with a dense reference is not decided"),
    "C14": ("partial (sibling agreement): same Hessian multiplier in every update_derivs, same elimination constants and back substitution, "
            "refresh schedule and constructor pass-through of the Newton variants, dispatch exhaustiveness of the factories, ascending index "
            "sets shared by matrix rows and right-hand side, asymmetric row format",
            "partial evaluation + rational normal forms + sibling cross-check",
            "numerical equality of the computed steps is not decided"),
    "C15": ("partial: failure and rejection paths shrink the step by a literal factor > 1 (or lamb_inc) and keep the iterate; lambda chaining "
            "and the unconditional lamb_max abort; exact acceptance gate on the unscaled residual of the returned iterate; two-sided clamp",
            "guard dominance + loop-body flow + value-form checks",
            "premise lamb_inc > 1; attaining the Newton tolerance is not decided"),
    "C16": ("claimed (monotone-update analysis): every store / returned penalty of every policy is >= the old value in an order domain; who "
            "may write Solver.rho; dual-norm bounds (candidate's multiplier norm, factor ten); constant policy stateless",
            "abstract interpretation in an order domain over path facts + who-may-write",
            "premise params.rho > 0; asserts enabled"),
    "C17": ("partial (error discipline): status checked before every return of a backend solution, backend exceptions mapped to "
            "LinearSolverError, trans / initial_sol honoured or asserted, initial-guess shortcut tests the solved matrix",
            "guard dominance + exception mapping + sibling parameter discipline",
            "residual size and backward error are numerical and not decided"),
    "C18": ("claimed: filter_insert is extracted as a boolean formula (dominance predicate, refusal, removal, single append) and matched "
            "against the statement; pairwise non-domination follows by the recorded induction; penalty coupling and the solver's veto",
            "semantic extraction of a comparison-only algorithm + induction",
            "a re-implementation outside the recognised forms yields ANALYSIS-ERROR, never a verdict"),
    "C19": ("partial: the derivative check is non-interfering (stores only to locals, perturbs a copy, result unused, nothing bound under the "
            "option, runs before the timer and the loop), pinpoint wiring (same index perturbs, selects the column and is reported; same "
            "triple and predicate in trigger and diagnosis), all three derivative kinds covered at the checked point, evaluators hand on "
            "the user's values unchanged, the transformed problem scales value / gradient / Hessian consistently (C04's rules)",
            "effect analysis + index/argument wiring over the AST",
            "finite-difference tolerance behaviour is not decided"),
    "C20": ("partial: normalising exponent forms (1 - frexp exponent, sign conventions, accumulator agreement), dtype lattice (no float "
            "magnitude stored into an int array; weights integral), exit guard of the equilibration loop, row-maximum accumulation",
            "exponent forms + dtype lattice + guard dominance",
            "overflow at extreme magnitudes is not decided"),
}

# rules that protect a value the property is computed from are shared between the checks that depend on it (DESIGN.md section 8, round 4)
SHARED = {
    "C01": "; the wrappers never write into callback results, the evaluator is memoryless, create_slacks decided by row semantics; scaled-problem entry exponents; no late-binding closure outlives its loop iteration",
    "C02": "; the wrappers never write into the callback results the status tests are computed from",
    "C04": "; create_slacks decided by its row semantics (abstract interpretation over row types); memoryless evaluator",
    "C05": "; the problem's variable bounds are private copies made at construction",
    "C06": "; definite assignment, no container changed while iterated over, per-solve construction of the stateful policy objects; no dereference of a value the function itself tests against None outside such a test",
    "C07": "; no wrapper below the validating evaluator drops entries by a test that is false for NaN; the evaluator is memoryless",
    "C09": "; the evaluator shared by observers and the algorithm is memoryless",
    "C10": "; helper objects kept by long-lived objects are immutable too; process-wide numeric settings restored on every exit; per-solve re-initialisation dominates the main loop; the inputs of a solve are never written (ownership analysis)",
    "C11": "; an iterate's point and a problem's bounds are copies on every path",
    "C12": "; an iterate's point is its own copy (nothing outside can move it between announcements)",
    "C13": "; memoryless evaluator, an iterate's point is its own copy",
    "C14": "; the shared formulas are functions of their arguments (no memo / work buffer in Iterate, StepFunc, ActiveSet); cached evaluations are never written; an override resets whatever the base method it replaces resets",
    "C15": "; failures reach the failure path (containment shared with C07)",
    "C16": "; each policy's stored rho starts at params.rho in every solve",
    "C17": "; helper code reachable from the solvers cannot die of a container changed while iterated over",
    "C19": "; memoryless evaluator and callback results never written (repeated evaluation sees the user's values)",
    "C20": "; weights kept in a wide integer type, no module-level cache in scale.py, callback results never written",
}
for _k, _add in SHARED.items():
    T[_k] = (T[_k][0] + _add,) + tuple(T[_k][1:])

NA = [
    {"property_id": "C03", "reason": "convergence of the method on a problem class within an iteration budget is a property of the numerical "
     "trajectory (controller gains, penalty growth, conditioning); no dataflow / typestate / effect argument bounds it and a structural proxy "
     "would fire on behaviour-neutral edits while proving nothing about convergence"},
]

NOT_YET = "static check not built yet in this tree (see DESIGN.md for the planned rule)"


def main():
    checks = []
    na = list(NA)
    for pid in sorted(T):
        claim, technique, note = T[pid]
        if not os.path.exists(os.path.join(VERIF, "pgfstatic", "rules", pid.lower() + ".py")):
            na.append({"property_id": pid, "reason": NOT_YET})
            continue
        checks.append({
            "property_id": pid,
            "quick_cmd": f"/venv/bin/python /verif/check.py {pid} --tier quick",
            "thorough_cmd": f"/venv/bin/python /verif/check.py {pid} --tier thorough",
            "evidence_file": f"/verif/evidence/{pid}.json",
            "replay_cmd_template": "/venv/bin/python /verif/check.py --replay {path}",
            "engine": "pgfstatic",
            "level_claimed": {"category": "other", "text": "static analysis of /repo's current source: " + claim, "design_ref": f"DESIGN.md section 3, {pid}"},
            "level_note": note + "; trusted base: CPython ast, the rule tables in /verif/pgfstatic/rules, Python semantics of the statement kinds the walker handles",
            "technique": "static analysis: " + technique,
        })
    man = {
        "version": 1,
        "setup_cmd": "/venv/bin/python -c \"import ast, sys; print('pgfstatic needs only the standard library:', sys.version.split()[0])\"",
        "hooks": {
            "guard": "PYGRADFLOW_VERIF",
            "enable": "none: static analysis reads /repo/pygradflow/**/*.py and needs no instrumentation; the guard name is reserved but unused",
            "baseline_off_cmd": "/venv/bin/python /verif/tools/baseline.py /repo -n 8",
            "source_commits": [],
            "add_only": True,
        },
        "engines": [{
            "name": "pgfstatic",
            "path": "/verif/pgfstatic",
            "serves_properties": [c["property_id"] for c in checks],
            "kind_free_text": "repository-specific static analyser over the Python AST: program model with resolved call graph (E1), path facts / "
                              "guard dominance (E2), exception flow (E3), ownership-alias analysis (E4), exponent forms and polynomial normal "
                              "forms (E5), loop-body path enumeration (E6), dtype lattice (E7); nothing imports or executes pygradflow",
        }],
        "checks": checks,
        "notes": "Every check reads /repo's current working tree on every run. Exit 0 = obligations discharged (KNOWN-FINDING lines for listed findings), "
                 "1 = unlisted violation, 2 = ANALYSIS-ERROR (cannot decide). Known findings: /verif/known_findings.json. Seeded changes used to test "
                 "the checks: /verif/seeded/.",
        "not_applicable": na,
    }
    with open(os.path.join(VERIF, "MANIFEST.json"), "w") as fh:
        json.dump(man, fh, indent=1)
    try:
        import jsonschema
        jsonschema.validate(man, json.load(open("/root/.vp/MANIFEST.schema.json")))
        print("MANIFEST.json valid;", len(checks), "checks,", len(na), "not applicable")
    except ImportError:
        print("MANIFEST.json written (jsonschema not importable here);", len(checks), "checks")


if __name__ == "__main__":
    main()
