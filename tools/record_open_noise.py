#!/venv/bin/python
"""Record, per refactoring, which checks are still not silent on it (from the output of tools/silencetest.py) as
`open_noise: {"<property>": <exit code>}` in silence/<id>/meta.json, and clear the entry where the refactoring is silent now.
The thorough tier's self-test treats exactly these (property, exit code) pairs as recorded open limitations; anything else that
speaks on a refactoring fails the self-test.  usage: record_open_noise.py <silencetest output>"""
import json, os, re, sys
VERIF = os.path.dirname(os.path.dirname(os.path.abspath(__file__)))
cur = None
noise = {}
seen = set()
for line in open(sys.argv[1]):
    m = re.match(r"^(C\d+_\S+)\s+(silent|NOISY)", line)
    if m:
        cur = m.group(1)
        seen.add(cur)
        noise.setdefault(cur, {})
        continue
    m = re.match(r"^\s+(C\d+) exit (\d+):", line)
    if m and cur:
        noise[cur][m.group(1)] = int(m.group(2))
n = 0
for name in sorted(seen):
    mp = os.path.join(VERIF, "silence", name, "meta.json")
    if not os.path.exists(mp):
        continue
    meta = json.load(open(mp))
    if noise.get(name):
        meta["open_noise"] = noise[name]
        n += 1
    else:
        meta.pop("open_noise", None)
    json.dump(meta, open(mp, "w"), indent=1)
print(f"{n} refactorings with recorded open noise, {len(seen) - n} silent")
