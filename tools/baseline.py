#!/venv/bin/python
"""Run the repository's pinned baseline suite (guard OFF; the machinery has no
hooks) and compare with /root/.vp/BASELINE.json.  Usage: baseline.py [repo_dir] [-n N]"""
import json, os, subprocess, sys, tempfile, xml.etree.ElementTree as ET

def main():
    repo = "/repo"
    jobs = None
    args = sys.argv[1:]
    while args:
        a = args.pop(0)
        if a == "-n":
            jobs = args.pop(0)
        else:
            repo = a
    base = json.load(open("/root/.vp/BASELINE.json"))
    want = set(base["stable_pass"])
    fd, xml = tempfile.mkstemp(suffix=".xml", dir="/dev/shm")
    os.close(fd)
    cmd = ["/venv/bin/python", "-m", "pytest", "-ra", "-q", "-p", "no:cacheprovider",
           "--timeout=900", "--continue-on-collection-errors", "--junitxml=" + xml]
    if jobs:
        cmd += ["-n", jobs]
    env = dict(os.environ)
    env.pop("PYGRADFLOW_VERIF", None)
    subprocess.run(cmd, cwd=repo, env=env, stdout=subprocess.DEVNULL, stderr=subprocess.DEVNULL)
    passed = set()
    for tc in ET.parse(xml).getroot().iter("testcase"):
        bad = [c.tag for c in tc if c.tag in ("failure", "error", "skipped")]
        if not bad:
            passed.add(tc.get("classname") + "::" + tc.get("name"))
    os.unlink(xml)
    missing = sorted(want - passed)
    print(f"baseline: {len(want & passed)}/{len(want)} stable tests pass; extra passing: {len(passed - want)}")
    for m in missing:
        print("MISSING", m)
    return 1 if missing else 0

if __name__ == "__main__":
    sys.exit(main())
