#!/venv/bin/python
"""Confirm every seeded change in a scratch git worktree of /repo (outside /repo and /verif):
demo passes on the clean tree, fails with the patch, and the pinned baseline (209 tests) still
passes with the patch.  Records the outcome in seeded/<id>/meta.json under "confirmed".
usage: verify_seeds.py [-j N] [seed_dir ...]"""
import json, os, shutil, subprocess, sys, tempfile, time
from concurrent.futures import ThreadPoolExecutor

VERIF = os.path.dirname(os.path.dirname(os.path.abspath(__file__)))


def sh(cmd, cwd=None, env=None, timeout=900):
    r = subprocess.run(cmd, cwd=cwd, env=env, capture_output=True, text=True, timeout=timeout)
    return r.returncode, (r.stdout + r.stderr)


def verify(seed):
    name = os.path.basename(seed.rstrip("/"))
    wt = tempfile.mkdtemp(prefix=f"pgfverify-{name}-", dir="/tmp")
    os.rmdir(wt)
    out = {"worktree": wt}
    try:
        rc, o = sh(["git", "-C", "/repo", "worktree", "add", "-q", "--detach", wt, "HEAD"])
        if rc:
            return name, {"error": "worktree: " + o[-300:]}
        env = dict(os.environ, PYTHONPATH=wt)
        demo = os.path.join(seed, "demo.py")
        rc0, o0 = sh(["/venv/bin/python", demo], cwd=wt, env=env, timeout=300)
        out["demo_clean_rc"] = rc0
        rc, o = sh(["git", "apply", os.path.join(seed, "patch.diff")], cwd=wt)
        if rc:
            return name, {"error": "apply: " + o[-300:]}
        rc1, o1 = sh(["/venv/bin/python", demo], cwd=wt, env=env, timeout=300)
        out["demo_patched_rc"] = rc1
        out["demo_patched_tail"] = o1.strip().splitlines()[-1][:300] if o1.strip() else ""
        rcb, ob = sh(["/venv/bin/python", os.path.join(VERIF, "tools", "baseline.py"), wt, "-n", "4"], timeout=1500)
        out["baseline_rc"] = rcb
        out["baseline"] = ob.strip().splitlines()[0] if ob.strip() else ""
        out["ok"] = rc0 == 0 and rc1 != 0 and rcb == 0
        return name, out
    except subprocess.TimeoutExpired as e:
        return name, {"error": f"timeout: {e.cmd}"}
    finally:
        sh(["git", "-C", "/repo", "worktree", "remove", "--force", wt])
        shutil.rmtree(wt, ignore_errors=True)


def main():
    args = sys.argv[1:]
    jobs = 4
    if "-j" in args:
        i = args.index("-j"); jobs = int(args[i + 1]); del args[i:i + 2]
    seeds = [os.path.abspath(a) for a in args] or sorted(os.path.join(VERIF, "seeded", d) for d in os.listdir(os.path.join(VERIF, "seeded")))
    with ThreadPoolExecutor(jobs) as ex:
        for name, res in ex.map(verify, seeds):
            print(name, json.dumps(res)[:400], flush=True)
            mp = os.path.join(VERIF, "seeded", name, "meta.json")
            meta = json.load(open(mp))
            meta["confirmed"] = {k: v for k, v in res.items() if k != "worktree"}
            meta["confirmed"]["ran"] = ["git worktree add <scratch> HEAD", "PYTHONPATH=<scratch> python demo.py (clean) -> rc %s" % res.get("demo_clean_rc"),
                                         "git apply patch.diff; python demo.py -> rc %s" % res.get("demo_patched_rc"),
                                         "tools/baseline.py <scratch> -n 4 -> %s" % res.get("baseline"), "git worktree remove --force <scratch>"]
            json.dump(meta, open(mp, "w"), indent=1)


if __name__ == "__main__":
    main()
