#!/venv/bin/python
"""pgfstatic command line:  check.py <PROPERTY-ID> [--tier quick|thorough] [--repo DIR]

exit 0  all obligations discharged (known findings are printed as KNOWN-FINDING lines)
exit 1  an unlisted violation: line `VIOLATION property=<id> replay=<path>`
exit 2  ANALYSIS-ERROR: the analysis could not be carried out (parse failure, vanished
        anchor, instance count below the pinned minimum, construct outside the fragment
        a rule understands) - an honest "cannot decide", never a violation.
"""
import importlib
import os
import sys
import traceback


import signal
signal.signal(signal.SIGPIPE, signal.SIG_DFL)  # `check.py ... | head` must not turn into a traceback


def main(argv):
    args = list(argv[1:])
    tier = os.environ.get("VERIF_TIER", "quick") or "quick"
    repo = None
    props = []
    while args:
        a = args.pop(0)
        if a == "--tier":
            tier = args.pop(0)
        elif a == "--repo":
            repo = args.pop(0)
        elif a == "--replay":
            path = args.pop(0)
            print(open(path).read())
            print("(static analysis: re-running the check on the current tree reproduces the report)")
        else:
            props.append(a)
    if repo:
        os.environ["PGF_REPO"] = repo
        if os.path.realpath(repo) != "/repo" and "PGF_EVIDENCE_DIR" not in os.environ:
            # a scratch tree is being analysed (checker self-tests): never overwrite the evidence of the real tree
            os.environ["PGF_EVIDENCE_DIR"] = "/dev/shm/pgfstatic-scratch-evidence"
    if tier not in ("quick", "thorough"):
        tier = "quick"
    sys.path.insert(0, os.path.dirname(os.path.abspath(__file__)))
    from pgfstatic import model
    from pgfstatic.report import Report

    if repo:
        model.REPO = repo
    rc = 0
    for prop in props:
        try:
            mod = importlib.import_module(f"pgfstatic.rules.{prop.lower()}")
            prog = model.program()
            rep = None
            rep = Report(prop, tier)
            try:
                mod.run(prog, rep, tier)
                if tier == "thorough":
                    if hasattr(mod, "thorough"):
                        mod.thorough(prog, rep)
                    rep.check_pins()
                    from pgfstatic.selftest import run_selftest
                    run_selftest(prop, rep, repo)
                rep.check_pins()
            except model.AnalysisError as e:
                # a violation that was positively identified before the analysis got stuck is
                # still a violation; otherwise this is an honest "cannot decide"
                if not rep.unlisted_findings():
                    raise
                rep.note(f"analysis incomplete after the reported violation(s): {e}")
                print(f"note: analysis incomplete after the reported violation(s): {e}")
            r = rep.finish()
        except model.AnalysisError as e:
            print(f"ANALYSIS-ERROR property={prop}: {e}")
            r = 2
        except Exception:
            traceback.print_exc()
            print(f"ANALYSIS-ERROR property={prop}: internal error in the checker (see traceback)")
            r = 2
        rc = max(rc, r)
    return rc


if __name__ == "__main__":
    sys.exit(main(sys.argv))
