"""E5a - exponent forms: the second argument of np.ldexp as an integer-linear form over the
scaling atoms  v (variable weights), c (constraint weights), o (objective weight)  with an
index role per atom occurrence ('' = whole vector, 'row' / 'col' = entry of a sparse matrix).

    form = {(atom, role): integer coefficient}
"""
from __future__ import annotations

import ast
from typing import Callable, Dict, Optional, Tuple

from .model import FuncInfo, Program, dotted, unparse
from .symex import facts_for

Form = Dict[Tuple[str, str], int]


class NotAForm(Exception):
    pass


def add(a: Form, b: Form, sign: int = 1) -> Form:
    out = dict(a)
    for k, v in b.items():
        out[k] = out.get(k, 0) + sign * v
        if out[k] == 0:
            del out[k]
    return out


def scale(a: Form, k: int) -> Form:
    return {key: v * k for key, v in a.items() if v * k != 0}


def fmt(f: Form) -> str:
    if not f:
        return "0"
    parts = []
    for (atom, role), k in sorted(f.items()):
        name = atom + (f"[{role}]" if role else "")
        parts.append(("+" if k > 0 else "-") + (str(abs(k)) if abs(k) != 1 else "") + name)
    return "".join(parts).lstrip("+")


def atom_of(text: str) -> Optional[str]:
    import re as _re
    if not _re.fullmatch(r"[A-Za-z_][\w.]*", text):
        return None     # only a plain (dotted) name denotes a weight vector: `-w`, `(a + b)`, `w[k]` do not
    if text.endswith(".var_weights") or text == "var_weights":
        return "v"
    if text.endswith(".cons_weights") or text == "cons_weights":
        return "c"
    if text.endswith(".obj_weight") or text == "obj_weight":
        return "o"
    return None


class FormReader:
    def __init__(self, prog: Program, fi: FuncInfo, role_of: Optional[Callable[[ast.AST], Optional[str]]] = None,
                 extra_atoms: Optional[Callable[[ast.AST], Optional[Form]]] = None):
        self.prog, self.fi = prog, fi
        self.role_of = role_of or (lambda e: None)
        self.extra_atoms = extra_atoms

    def form(self, e: ast.AST) -> Form:
        if self.extra_atoms is not None:
            r = self.extra_atoms(e)
            if r is not None:
                return r
        if isinstance(e, ast.Constant) and isinstance(e.value, int) and not isinstance(e.value, bool):
            return {("1", ""): e.value} if e.value else {}
        if isinstance(e, ast.UnaryOp) and isinstance(e.op, ast.USub):
            return scale(self.form(e.operand), -1)
        if isinstance(e, ast.UnaryOp) and isinstance(e.op, ast.UAdd):
            return self.form(e.operand)
        if isinstance(e, ast.BinOp) and isinstance(e.op, (ast.Add, ast.Sub)):
            return add(self.form(e.left), self.form(e.right), 1 if isinstance(e.op, ast.Add) else -1)
        if isinstance(e, ast.BinOp) and isinstance(e.op, ast.Mult):
            for a, b in ((e.left, e.right), (e.right, e.left)):
                if isinstance(a, ast.Constant) and isinstance(a.value, int):
                    return scale(self.form(b), a.value)
        t = unparse(e)
        a = atom_of(t)
        if a is not None:
            return {(a, ""): 1}
        if isinstance(e, ast.Subscript) and isinstance(e.value, (ast.UnaryOp, ast.BinOp)):
            # indexing distributes over the integer-linear structure: (-w)[k] = -(w[k]), (a + b)[k] = a[k] + b[k], (2*w)[k] = 2*(w[k])
            v = e.value

            def idx(x):
                if isinstance(x, ast.Constant):
                    return x
                return ast.copy_location(ast.Subscript(value=x, slice=e.slice, ctx=ast.Load()), e)
            if isinstance(v, ast.UnaryOp) and isinstance(v.op, (ast.USub, ast.UAdd)):
                return self.form(ast.copy_location(ast.UnaryOp(op=v.op, operand=idx(v.operand)), e))
            if isinstance(v, ast.BinOp) and isinstance(v.op, (ast.Add, ast.Sub, ast.Mult)):
                return self.form(ast.copy_location(ast.BinOp(left=idx(v.left), op=v.op, right=idx(v.right)), e))
        if isinstance(e, ast.Subscript):
            a = atom_of(unparse(e.value))
            if a is not None:
                role = self.role_of(e.slice)
                if role is None:
                    raise NotAForm(f"index `{unparse(e.slice)}` of `{unparse(e.value)}` has no recognised role")
                return {(a, role): 1}
        if isinstance(e, ast.Call) and isinstance(e.func, ast.Attribute) and not e.args and not e.keywords:
            # helper methods such as self._dual_weights()
            for tgt in self.prog.resolve_call_target(self.fi, e):
                if isinstance(tgt, FuncInfo):
                    rs = [n for n in ast.walk(tgt.node) if isinstance(n, ast.Return) and n.value is not None]
                    if len(rs) == 1:
                        ff = facts_for(tgt)
                        inner = ff.resolved(rs[0], rs[0].value)
                        recv = unparse(e.func.value)
                        sub = FormReader(self.prog, tgt, self.role_of, self.extra_atoms)
                        f = sub.form(inner)
                        return f
        raise NotAForm(f"`{t[:80]}` is not an integer-linear form over the scaling weights")

    def peel(self, e: ast.AST) -> Tuple[ast.AST, Form]:
        """strip nested np.ldexp(a, e) -> (innermost a, total exponent form)."""
        total: Form = {}
        while True:
            if isinstance(e, ast.Call) and (dotted(e.func) or "") in ("np.ldexp", "numpy.ldexp") and len(e.args) == 2 and not e.keywords:
                total = add(total, self.form(e.args[1]))
                e = e.args[0]
                continue
            # delegation to one of the Scaling.(un)scale_* methods: ldexp(arg, <the method's own exponent form>)
            if isinstance(e, ast.Call) and isinstance(e.func, ast.Attribute) and len(e.args) == 1 and not e.keywords and \
                    e.func.attr in ("scale_primal", "unscale_primal", "scale_dual", "unscale_dual", "scale_bounds_dual", "unscale_bounds_dual"):
                sc = self.prog.classes.get("pygradflow.scale.Scaling")
                m = sc.methods.get(e.func.attr) if sc is not None else None
                recv = unparse(e.func.value)
                if m is not None and (recv.endswith("scaling") or recv.endswith("Scaling") or recv == "self" and self.fi.cls is sc):
                    rs = [n for n in ast.walk(m.node) if isinstance(n, ast.Return) and n.value is not None]
                    if len(rs) == 1:
                        inner = facts_for(m).resolved(rs[0], rs[0].value)
                        b2, f2 = FormReader(self.prog, m, self.role_of, self.extra_atoms).peel(inner)
                        p0 = [p for p in m.params if p != "self"]
                        if p0 and unparse(b2) == p0[0]:
                            total = add(total, f2)
                            e = e.args[0]
                            continue
            break
        return e, total
