"""Thorough tier: test the checker both ways on scratch copies of the *current* tree.

  * every confirmed seeded change for the property (/verif/seeded/<id>_<k>/patch.diff, each one a
    change that breaks the property while the 209 tests still pass) must make the check report a
    VIOLATION (exit 1);
  * every behaviour-preserving refactoring (/verif/silence/<id>_<k>/patch.diff) must leave the check
    silent (exit 0).

The verdict on /repo comes from the rules alone; a failed expectation here means the *checker* is
broken and is reported as ANALYSIS-ERROR (exit 2), never as a violation.  Scratch copies live under
/dev/shm and are removed afterwards.  Patches that no longer apply to the current tree are skipped
(and counted)."""
from __future__ import annotations

import json
import os
import shutil
import subprocess
import tempfile
from concurrent.futures import ThreadPoolExecutor
from typing import Dict, List, Tuple

from .model import REPO, AnalysisError
from .report import VERIF


def _one(prop: str, patch: str, repo: str) -> Tuple[str, int, str]:
    tmp = tempfile.mkdtemp(prefix="pgfself-", dir="/dev/shm")
    try:
        shutil.copytree(os.path.join(repo, "pygradflow"), os.path.join(tmp, "pygradflow"), ignore=shutil.ignore_patterns("__pycache__"))
        r = subprocess.run(["git", "apply", "--unsafe-paths", "--directory=" + tmp, patch], capture_output=True, text=True, cwd="/")
        if r.returncode != 0:
            return patch, -1, "patch does not apply to the current tree"
        env = dict(os.environ, PGF_EVIDENCE_DIR=os.path.join(tmp, "evidence"), VERIF_TIER="quick")
        env.pop("PGF_REPO", None)
        r = subprocess.run(["/venv/bin/python", os.path.join(VERIF, "check.py"), prop, "--tier", "quick", "--repo", tmp], capture_output=True, text=True, env=env)
        lines = [l.strip() for l in r.stdout.splitlines() if "VIOLATED" in l or "ANALYSIS-ERROR" in l]
        return patch, r.returncode, (lines[0][:240] if lines else "")
    finally:
        shutil.rmtree(tmp, ignore_errors=True)


def run_selftest(prop: str, rep, repo: str = None) -> None:
    repo = repo or os.environ.get("PGF_REPO") or REPO
    if rep.findings:
        rep.note("self-test skipped: the current tree already has findings, so scratch variants of it are not meaningful")
        return
    jobs: List[Tuple[str, str]] = []
    expect: Dict[str, str] = {}
    open_noise: Dict[str, object] = {}
    for kind, root in (("seed", "seeded"), ("silent", "silence")):
        d = os.path.join(VERIF, root)
        if not os.path.isdir(d):
            continue
        for name in sorted(os.listdir(d)):
            p = os.path.join(d, name, "patch.diff")
            mp = os.path.join(d, name, "meta.json")
            if not (os.path.exists(p) and os.path.exists(mp)):
                continue
            try:
                meta = json.load(open(mp))
            except Exception:
                continue
            # a refactoring must leave EVERY property's check silent, whichever property it was written against
            if meta.get("property") == prop or kind == "silent":
                jobs.append((kind, p))
                expect[p] = meta.get("expect", "caught" if kind == "seed" else "silent")
                if kind == "silent":
                    # recorded open limitations: {"<property>": <exit code the check is known to give on this refactoring>}
                    open_noise[p] = (meta.get("open_noise") or {}).get(prop)
    if not jobs:
        rep.note("self-test: no seeded / silence patches for this property")
        return
    with ThreadPoolExecutor(max_workers=min(16, len(jobs))) as ex:
        results = list(ex.map(lambda j: (j[0],) + _one(prop, j[1], repo), jobs))
    caught = missed = silent = noisy = skipped = undecided = known_noisy = 0
    bad: List[str] = []
    table = []
    for kind, patch, rc, first in results:
        name = os.path.basename(os.path.dirname(patch))
        if rc == -1:
            skipped += 1
            table.append(f"{name}: skipped ({first})")
            continue
        if kind == "seed":
            exp = expect.get(patch, "caught")
            if rc == 1:
                caught += 1
                table.append(f"{name}: caught - {first}")
            elif exp == "undecided" and rc == 2:
                # recorded limitation: the change moves the code out of the fragment the rules understand; the honest answer
                # is "cannot decide" (ANALYSIS-ERROR), which is what the check gives
                undecided += 1
                table.append(f"{name}: undecided (expected) - {first}")
            elif exp == "gap":
                undecided += 1
                table.append(f"{name}: not reported (recorded gap, see DESIGN.md section 8) exit {rc}")
            else:
                missed += 1
                bad.append(f"seeded change {name} is NOT reported (exit {rc}) {first}")
        else:
            if rc == 0:
                silent += 1
                table.append(f"{name}: silent")
            elif open_noise.get(patch) == rc:
                # a recorded, documented limitation (DESIGN.md section 9): counted, shown in the evidence, not a new failure
                known_noisy += 1
                table.append(f"{name}: exit {rc} (recorded open limitation) - {first}")
            else:
                noisy += 1
                bad.append(f"behaviour-preserving refactoring {name} makes the check exit {rc}: {first}")
    rep.extra["self_test"] = {"seeded_changes": caught + missed, "caught": caught, "undecided_or_recorded_gap": undecided, "silent_refactors": silent, "noisy_refactors": noisy, "recorded_open_limitations": known_noisy, "skipped": skipped, "table": table}
    print(f"  self-test: {caught}/{caught + missed + undecided} seeded changes reported ({undecided} recorded as undecided / gap), {silent}/{silent + noisy + known_noisy} refactorings silent ({known_noisy} recorded open limitations), {skipped} skipped")
    if bad:
        raise AnalysisError("checker self-test failed: " + "; ".join(bad))
