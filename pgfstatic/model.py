"""E1 - program model of /repo/pygradflow built from the syntax tree only.

Nothing here imports or executes pygradflow.  The model knows modules, classes
(with the MRO restricted to repo classes), functions (including nested ones),
imports, light type hints for receivers, and resolves call sites to repo
functions.  All other engines sit on top of it.
"""
from __future__ import annotations

import ast
import hashlib
import os
import sys
from dataclasses import dataclass, field
from typing import Dict, Iterable, Iterator, List, Optional, Set, Tuple

REPO = os.environ.get("PGF_REPO", "/repo")
PKG = "pygradflow"


class AnalysisError(Exception):
    """The analysis itself cannot be carried out (exit 2, never a violation)."""


# ---------------------------------------------------------------------------
# data classes
# ---------------------------------------------------------------------------


@dataclass(eq=False)
class Module:
    name: str
    path: str
    tree: ast.Module
    source: str
    imports: Dict[str, Tuple[str, Optional[str]]] = field(default_factory=dict)
    # local name -> (module, symbol or None)
    functions: Dict[str, "FuncInfo"] = field(default_factory=dict)
    classes: Dict[str, "ClassInfo"] = field(default_factory=dict)

    @property
    def relpath(self) -> str:
        return os.path.relpath(self.path, REPO)


@dataclass(eq=False)
class ClassInfo:
    name: str
    module: Module
    node: ast.ClassDef
    base_exprs: List[ast.expr] = field(default_factory=list)
    bases: List["ClassInfo"] = field(default_factory=list)
    ext_bases: List[str] = field(default_factory=list)
    methods: Dict[str, "FuncInfo"] = field(default_factory=dict)
    subclasses: List["ClassInfo"] = field(default_factory=list)

    @property
    def qualname(self) -> str:
        return f"{self.module.name}.{self.name}"

    def __repr__(self) -> str:
        return f"<class {self.qualname}>"


@dataclass(eq=False)
class FuncInfo:
    name: str
    module: Module
    node: ast.AST  # FunctionDef | Lambda
    cls: Optional[ClassInfo] = None
    parent: Optional["FuncInfo"] = None
    nested: Dict[str, "FuncInfo"] = field(default_factory=dict)
    decorators: List[str] = field(default_factory=list)

    @property
    def qualname(self) -> str:
        if self.parent is not None:
            return f"{self.parent.qualname}.<locals>.{self.name}"
        if self.cls is not None:
            return f"{self.cls.qualname}.{self.name}"
        return f"{self.module.name}.{self.name}"

    @property
    def short(self) -> str:
        q = self.qualname
        return q[len(PKG) + 1 :] if q.startswith(PKG + ".") else q

    @property
    def params(self) -> List[str]:
        a = self.node.args
        return [x.arg for x in a.posonlyargs + a.args] + (
            [a.vararg.arg] if a.vararg else []
        ) + [x.arg for x in a.kwonlyargs] + ([a.kwarg.arg] if a.kwarg else [])

    @property
    def is_property(self) -> bool:
        return any(d in ("property", "cached_property", "functools.cached_property") for d in self.decorators)

    @property
    def is_static(self) -> bool:
        return "staticmethod" in self.decorators

    @property
    def is_abstract(self) -> bool:
        return any(d.endswith("abstractmethod") for d in self.decorators)

    @property
    def lineno(self) -> int:
        return getattr(self.node, "lineno", 0)

    def loc(self, node: Optional[ast.AST] = None) -> str:
        ln = getattr(node, "lineno", None) if node is not None else self.lineno
        return f"{self.module.relpath}:{ln}"

    def __repr__(self) -> str:
        return f"<func {self.qualname}>"


def dotted(expr: ast.AST) -> Optional[str]:
    """`a.b.c` -> 'a.b.c' for Name/Attribute chains, else None."""
    parts = []
    while isinstance(expr, ast.Attribute):
        parts.append(expr.attr)
        expr = expr.value
    if isinstance(expr, ast.Name):
        parts.append(expr.id)
        return ".".join(reversed(parts))
    return None


def unparse(node: ast.AST) -> str:
    try:
        return ast.unparse(node)
    except Exception:  # pragma: no cover
        return ast.dump(node)


# ---------------------------------------------------------------------------
# program
# ---------------------------------------------------------------------------


def _splat_literal_dicts(tree: ast.AST) -> None:
    """`kw = {'a': x, 'b': y}` ... `f(.., **kw)` in the same block, kw used nowhere else and nothing the values mention rebound in
    between: the call is `f(.., a=x, b=y)` (the rules bind call arguments by name)."""
    # `dict(a=x, b=y)` is the literal {'a': x, 'b': y}
    for c in ast.walk(tree):
        if isinstance(c, ast.Assign) and isinstance(c.value, ast.Call) and isinstance(c.value.func, ast.Name) and c.value.func.id == "dict" \
                and not c.value.args and c.value.keywords and all(k.arg is not None for k in c.value.keywords):
            c.value = ast.copy_location(ast.Dict(keys=[ast.Constant(value=k.arg) for k in c.value.keywords], values=[k.value for k in c.value.keywords]), c.value)
    ast.fix_missing_locations(tree)
    for fn in ast.walk(tree):
        if not isinstance(fn, (ast.FunctionDef, ast.AsyncFunctionDef)):
            continue
        uses: Dict[str, int] = {}
        for n in ast.walk(fn):
            if isinstance(n, ast.Name):
                uses[n.id] = uses.get(n.id, 0) + 1
        for blk_owner in ast.walk(fn):
            for fld in ("body", "orelse", "finalbody"):
                blk = getattr(blk_owner, fld, None)
                if not (isinstance(blk, list) and blk and isinstance(blk[0], ast.stmt)):
                    continue
                k = 0
                while k < len(blk):
                    st = blk[k]
                    if isinstance(st, ast.Assign) and len(st.targets) == 1 and isinstance(st.targets[0], ast.Name) and isinstance(st.value, ast.Dict) and st.value.keys \
                            and all(isinstance(q, ast.Constant) and isinstance(q.value, str) and q.value.isidentifier() for q in st.value.keys) and uses.get(st.targets[0].id) == 2:
                        d = st.targets[0].id
                        mentioned = {n.id for v in st.value.values for n in ast.walk(v) if isinstance(n, ast.Name)}
                        done = False
                        for j in range(k + 1, len(blk)):
                            later = blk[j]
                            calls = [c for c in ast.walk(later) if isinstance(c, ast.Call) and any(kw.arg is None and isinstance(kw.value, ast.Name) and kw.value.id == d for kw in c.keywords)]
                            if calls and isinstance(later, (ast.Assign, ast.Expr, ast.Return, ast.AnnAssign)):
                                c = calls[0]
                                new_kw = []
                                for kw in c.keywords:
                                    if kw.arg is None and isinstance(kw.value, ast.Name) and kw.value.id == d:
                                        new_kw += [ast.copy_location(ast.keyword(arg=q.value, value=v), kw.value) for q, v in zip(st.value.keys, st.value.values)]
                                    else:
                                        new_kw.append(kw)
                                c.keywords = new_kw
                                del blk[k]
                                done = True
                                break
                            if any(isinstance(n, ast.Name) and isinstance(n.ctx, (ast.Store, ast.Del)) and n.id in mentioned for n in ast.walk(later)):
                                break
                        if done:
                            continue
                    # the same dict splatted into several calls: only when its values are plain names / attributes / constants (nothing
                    # is evaluated twice that could have an effect), all uses are `**d` in later simple statements of this block
                    if isinstance(st, ast.Assign) and len(st.targets) == 1 and isinstance(st.targets[0], ast.Name) and isinstance(st.value, ast.Dict) and st.value.keys \
                            and all(isinstance(q, ast.Constant) and isinstance(q.value, str) and q.value.isidentifier() for q in st.value.keys) and uses.get(st.targets[0].id, 0) > 2 \
                            and all(isinstance(x, (ast.Name, ast.Attribute, ast.Constant, ast.Load)) for v in st.value.values for x in ast.walk(v)):
                        import copy as _c
                        d = st.targets[0].id
                        mentioned = {n.id for v in st.value.values for n in ast.walk(v) if isinstance(n, ast.Name)}
                        n_loads = sum(1 for n in ast.walk(fn) if isinstance(n, ast.Name) and n.id == d and isinstance(n.ctx, ast.Load))
                        n_stores = sum(1 for n in ast.walk(fn) if isinstance(n, ast.Name) and n.id == d and isinstance(n.ctx, ast.Store))
                        sites = []
                        okm = n_stores == 1
                        for j in range(k + 1, len(blk)):
                            later = blk[j]
                            cs = [c for c in ast.walk(later) if isinstance(c, ast.Call) and any(kw.arg is None and isinstance(kw.value, ast.Name) and kw.value.id == d for kw in c.keywords)]
                            if cs and not isinstance(later, (ast.Assign, ast.Expr, ast.Return, ast.AnnAssign)):
                                okm = False
                            sites += cs
                            if len(sites) == n_loads:
                                break
                            if any(isinstance(n, ast.Name) and isinstance(n.ctx, (ast.Store, ast.Del)) and (n.id in mentioned or n.id == d) for n in ast.walk(later)) or \
                                    any(isinstance(n, ast.Attribute) and isinstance(n.ctx, (ast.Store, ast.Del)) for n in ast.walk(later)):
                                okm = False
                                break
                        if okm and sites and len(sites) == n_loads:
                            for c in sites:
                                new_kw = []
                                for kw in c.keywords:
                                    if kw.arg is None and isinstance(kw.value, ast.Name) and kw.value.id == d:
                                        new_kw += [ast.copy_location(ast.keyword(arg=q.value, value=_c.deepcopy(v)), kw.value) for q, v in zip(st.value.keys, st.value.values)]
                                    else:
                                        new_kw.append(kw)
                                c.keywords = new_kw
                            del blk[k]
                            continue
                    k += 1


def _splat_literal_tuples(tree: ast.AST) -> bool:
    """`t = (a, b)` (names / constants only, bound once) ... `f(.., *t)`: the call is `f(.., a, b)`; a `t` that is then unused is
    dropped.  Returns True if anything changed."""
    changed = False
    # `f(*(a, b))` is `f(a, b)`
    for c in ast.walk(tree):
        if isinstance(c, ast.Call) and any(isinstance(a, ast.Starred) and isinstance(a.value, (ast.Tuple, ast.List)) and not any(isinstance(e, ast.Starred) for e in a.value.elts) for a in c.args):
            na = []
            for a in c.args:
                if isinstance(a, ast.Starred) and isinstance(a.value, (ast.Tuple, ast.List)) and not any(isinstance(e, ast.Starred) for e in a.value.elts):
                    na += list(a.value.elts)
                else:
                    na.append(a)
            c.args = na
            changed = True
    for fn in ast.walk(tree):
        if not isinstance(fn, (ast.FunctionDef, ast.AsyncFunctionDef)):
            continue
        stores: Dict[str, List[ast.AST]] = {}
        nstore: Dict[str, int] = {}
        for n in ast.walk(fn):
            if isinstance(n, ast.Name) and isinstance(n.ctx, ast.Store):
                nstore[n.id] = nstore.get(n.id, 0) + 1
            if isinstance(n, ast.Assign) and len(n.targets) == 1 and isinstance(n.targets[0], ast.Name) and isinstance(n.value, ast.Tuple) \
                    and all(isinstance(e, (ast.Name, ast.Constant)) for e in n.value.elts):
                stores.setdefault(n.targets[0].id, []).append(n)
        # a tuple of arbitrary expressions that is only splatted once, a few plain assignments later in the same block
        nload: Dict[str, int] = {}
        for n in ast.walk(fn):
            if isinstance(n, ast.Name) and isinstance(n.ctx, ast.Load):
                nload[n.id] = nload.get(n.id, 0) + 1
        for owner in ast.walk(fn):
            for fld in ("body", "orelse", "finalbody"):
                blk = getattr(owner, fld, None)
                if not (isinstance(blk, list) and blk and isinstance(blk[0], ast.stmt)):
                    continue
                k = 0
                while k < len(blk):
                    st = blk[k]
                    if isinstance(st, ast.Assign) and len(st.targets) == 1 and isinstance(st.targets[0], ast.Name) and isinstance(st.value, (ast.Tuple, ast.List)) \
                            and not all(isinstance(e, (ast.Name, ast.Constant)) for e in st.value.elts) and nstore.get(st.targets[0].id) == 1 and nload.get(st.targets[0].id) == 1 \
                            and not any(isinstance(e, ast.Starred) for e in st.value.elts):
                        t = st.targets[0].id
                        mentioned = {x.id for e in st.value.elts for x in ast.walk(e) if isinstance(x, ast.Name)}
                        done = False
                        attr_only = all(all(isinstance(x, (ast.Name, ast.Attribute, ast.Load)) for x in ast.walk(e)) for e in st.value.elts)
                        for j in range(k + 1, min(k + (12 if attr_only else 6), len(blk))):
                            later = blk[j]
                            calls = [c for c in ast.walk(later) if isinstance(c, ast.Call) and any(isinstance(a, ast.Starred) and isinstance(a.value, ast.Name) and a.value.id == t for a in c.args)]
                            if calls and isinstance(later, (ast.Assign, ast.Expr, ast.Return, ast.AnnAssign)):
                                c = calls[0]
                                new_args = []
                                for a in c.args:
                                    if isinstance(a, ast.Starred) and isinstance(a.value, ast.Name) and a.value.id == t:
                                        new_args += list(st.value.elts)
                                    else:
                                        new_args.append(a)
                                c.args = new_args
                                del blk[k]
                                changed = True
                                done = True
                                break
                            movable = isinstance(later, (ast.Assign, ast.AnnAssign)) or (attr_only and isinstance(later, ast.Expr) and isinstance(later.value, ast.Call))
                            if not movable or any(isinstance(x, ast.Name) and isinstance(x.ctx, (ast.Store, ast.Del)) and x.id in mentioned for x in ast.walk(later)):
                                break
                        if done:
                            continue
                    k += 1
        for t, sts in stores.items():
            if len(sts) != 1 or nstore.get(t) != 1:
                continue
            elts = sts[0].value.elts
            # the element names must not be rebound anywhere after (conservatively: bound at most once in the function, or parameters)
            if any(isinstance(e, ast.Name) and nstore.get(e.id, 0) > 1 for e in elts):
                # .. or, when the tuple is splatted in the same block with no store to an element in between, right there
                ok_local = False
                enames = {e.id for e in elts if isinstance(e, ast.Name)}
                for owner in ast.walk(fn):
                    for fld in ("body", "orelse", "finalbody"):
                        blk = getattr(owner, fld, None)
                        if not (isinstance(blk, list) and any(x is sts[0] for x in blk)):
                            continue
                        k0 = next(i for i, x in enumerate(blk) if x is sts[0])
                        uses = [n for n in ast.walk(fn) if isinstance(n, ast.Name) and n.id == t and isinstance(n.ctx, ast.Load)]
                        for j in range(k0 + 1, len(blk)):
                            inside = {id(n) for n in ast.walk(blk[j])}
                            if any(isinstance(x, ast.Name) and isinstance(x.ctx, (ast.Store, ast.Del)) and x.id in enames for x in ast.walk(blk[j])):
                                break
                            if all(id(u) in inside for u in uses) and uses and isinstance(blk[j], (ast.Assign, ast.Expr, ast.Return, ast.AnnAssign)):
                                ok_local = True
                                break
                            if any(id(u) in inside for u in uses):
                                break
                if not ok_local:
                    continue
            for c in ast.walk(fn):
                if isinstance(c, ast.Call) and any(isinstance(a, ast.Starred) and isinstance(a.value, ast.Name) and a.value.id == t for a in c.args):
                    new_args = []
                    for a in c.args:
                        if isinstance(a, ast.Starred) and isinstance(a.value, ast.Name) and a.value.id == t:
                            new_args += [ast.copy_location(ast.Name(id=e.id, ctx=ast.Load()) if isinstance(e, ast.Name) else ast.Constant(value=e.value), a) for e in elts]
                        else:
                            new_args.append(a)
                    c.args = new_args
                    changed = True
            if not any(isinstance(n, ast.Name) and n.id == t and isinstance(n.ctx, ast.Load) for n in ast.walk(fn)):
                for owner in ast.walk(fn):
                    for fld in ("body", "orelse", "finalbody"):
                        blk = getattr(owner, fld, None)
                        if isinstance(blk, list) and any(x is sts[0] for x in blk):
                            blk[:] = [x for x in blk if x is not sts[0]] or [ast.copy_location(ast.Pass(), sts[0])]
                            changed = True
    return changed


def _minmax_idiom(tree: ast.AST) -> None:
    """`b if b > a else a` is exactly `max(a, b)` and `b if b < a else a` is exactly `min(a, b)` for plain names (the builtin returns
    its first argument unless the second compares strictly greater / smaller - NaN included); also as `if b > a: v = b else: v = a`
    is left alone.  The rules read bound / violation formulas with `max`."""
    class T(ast.NodeTransformer):
        def visit_IfExp(self, n):
            self.generic_visit(n)
            t = n.test
            if isinstance(t, ast.Compare) and len(t.ops) == 1 and isinstance(t.ops[0], (ast.Gt, ast.Lt)) and isinstance(t.left, ast.Name) and isinstance(t.comparators[0], ast.Name) \
                    and isinstance(n.body, ast.Name) and isinstance(n.orelse, ast.Name) and n.body.id == t.left.id and n.orelse.id == t.comparators[0].id and n.body.id != n.orelse.id:
                fn = "max" if isinstance(t.ops[0], ast.Gt) else "min"
                return ast.copy_location(ast.Call(func=ast.Name(id=fn, ctx=ast.Load()), args=[n.orelse, n.body], keywords=[]), n)
            return n
    shadow = {x.id for x in ast.walk(tree) if isinstance(x, ast.Name) and isinstance(x.ctx, ast.Store) and x.id in ("max", "min")}
    if not shadow:
        T().visit(tree)
        ast.fix_missing_locations(tree)


def _getattr_const(tree: ast.AST) -> None:
    """`getattr(x, "name")` with a literal identifier is `x.name`."""
    class T(ast.NodeTransformer):
        def visit_Call(self, n):
            self.generic_visit(n)
            if isinstance(n.func, ast.Name) and n.func.id == "getattr" and len(n.args) == 2 and not n.keywords and isinstance(n.args[1], ast.Constant) \
                    and isinstance(n.args[1].value, str) and n.args[1].value.isidentifier() and not n.args[1].value.startswith("__"):
                return ast.copy_location(ast.Attribute(value=n.args[0], attr=n.args[1].value, ctx=ast.Load()), n)
            return n
    if not any(isinstance(x, ast.Name) and isinstance(x.ctx, ast.Store) and x.id == "getattr" for x in ast.walk(tree)):
        T().visit(tree)
        ast.fix_missing_locations(tree)


def _ufunc_compare(tree: ast.AST) -> None:
    """`np.less(a, b)` is `a < b` (and greater / less_equal / greater_equal / equal / not_equal likewise) for two positional
    arguments: the comparison operators of arrays are these ufuncs."""
    ops = {"less": ast.Lt, "greater": ast.Gt, "less_equal": ast.LtE, "greater_equal": ast.GtE, "equal": ast.Eq, "not_equal": ast.NotEq}

    class T(ast.NodeTransformer):
        def visit_Call(self, n):
            self.generic_visit(n)
            f = n.func
            if isinstance(f, ast.Attribute) and isinstance(f.value, ast.Name) and f.value.id in ("np", "numpy") and f.attr in ops and len(n.args) == 2 and not n.keywords \
                    and not any(isinstance(a, ast.Starred) for a in n.args):
                return ast.copy_location(ast.Compare(left=n.args[0], ops=[ops[f.attr]()], comparators=[n.args[1]]), n)
            return n
    T().visit(tree)
    ast.fix_missing_locations(tree)


def _forward_constant_locals(tree: ast.AST) -> None:
    """a local bound exactly once to a constant, to a module-level name that the function never binds, or to a dotted attribute of
    one (`holds = _limit_reached`, `status = SolverStatus.Optimal`, `msg = "text"`), all of whose reads come later in the same
    block (at any depth): the reads are the value itself.  (Rows of a dispatch table after unrolling.)"""
    import copy as _copy
    for fn in ast.walk(tree):
        if not isinstance(fn, (ast.FunctionDef, ast.AsyncFunctionDef)):
            continue
        stores: Dict[str, int] = {}
        for x in ast.walk(fn):
            if isinstance(x, ast.Name) and isinstance(x.ctx, (ast.Store, ast.Del)):
                stores[x.id] = stores.get(x.id, 0) + 1
        params = {a.arg for a in fn.args.args + fn.args.kwonlyargs + fn.args.posonlyargs} | ({fn.args.vararg.arg} if fn.args.vararg else set()) | ({fn.args.kwarg.arg} if fn.args.kwarg else set())
        has_scope_stmt = any(isinstance(x, (ast.Global, ast.Nonlocal)) for x in ast.walk(fn))
        if has_scope_stmt:
            continue

        def value_ok(v):
            if isinstance(v, ast.Constant):
                return True
            root = v
            while isinstance(root, ast.Attribute):
                root = root.value
            return isinstance(root, ast.Name) and root.id not in stores and root.id not in params and root.id != "self" and (root is not v or True)

        def process(block) -> bool:
            for k, st in enumerate(block):
                if isinstance(st, ast.Assign) and len(st.targets) == 1 and isinstance(st.targets[0], ast.Name) and stores.get(st.targets[0].id) == 1 \
                        and st.targets[0].id not in params and "__" in st.targets[0].id and value_ok(st.value):
                    v = st.targets[0].id
                    loads = [x for x in ast.walk(fn) if isinstance(x, ast.Name) and x.id == v and isinstance(x.ctx, ast.Load)]
                    later = {id(x) for b in block[k + 1:] for x in ast.walk(b)}
                    if loads and all(id(x) in later for x in loads) and not any(isinstance(x, (ast.FunctionDef, ast.Lambda)) and any(isinstance(y, ast.Name) and y.id == v for y in ast.walk(x)) for b in block[k + 1:] for x in ast.walk(b)):
                        class S(ast.NodeTransformer):
                            def visit_Name(self, x):
                                if x.id == v and isinstance(x.ctx, ast.Load):
                                    return ast.copy_location(_copy.deepcopy(st.value), x)
                                return x
                        for j in range(k + 1, len(block)):
                            block[j] = S().visit(block[j])
                        del block[k]
                        return True
            for st in block:
                for fld in ("body", "orelse", "finalbody"):
                    sub = getattr(st, fld, None)
                    if isinstance(sub, list) and sub and isinstance(sub[0], ast.stmt) and not isinstance(st, (ast.FunctionDef, ast.AsyncFunctionDef, ast.ClassDef)):
                        if process(sub):
                            return True
                for h in getattr(st, "handlers", []) or []:
                    if process(h.body):
                        return True
            return False
        for _ in range(40):
            if not process(fn.body):
                break
    ast.fix_missing_locations(tree)


def _split_star_unpack(tree: ast.AST) -> None:
    """`*head, last = TABLE` / `first, *rest = TABLE` with TABLE a literal tuple / list (written there, or a module-level name bound
    once to one) is `head = (e0, .., e_{n-2}); last = e_{n-1}`: the rest of the pipeline then sees literal tables again."""
    import copy as _copy
    mod_tables: Dict[str, ast.AST] = {}
    if isinstance(tree, ast.Module):
        cnt: Dict[str, int] = {}
        for x in ast.walk(tree):
            if isinstance(x, ast.Name) and isinstance(x.ctx, ast.Store):
                cnt[x.id] = cnt.get(x.id, 0) + 1
        for st in tree.body:
            v_ = st.value if isinstance(st, (ast.Assign, ast.AnnAssign)) else None
            t_ = (st.targets[0] if isinstance(st, ast.Assign) and len(st.targets) == 1 else getattr(st, "target", None)) if v_ is not None else None
            if isinstance(t_, ast.Name) and isinstance(v_, (ast.Tuple, ast.List)) and cnt.get(t_.id) == 1:
                mod_tables[t_.id] = v_

    class T(ast.NodeTransformer):
        def visit_Assign(self, n):
            self.generic_visit(n)
            if not (len(n.targets) == 1 and isinstance(n.targets[0], (ast.Tuple, ast.List))):
                return n
            tg = n.targets[0].elts
            stars = [i for i, t in enumerate(tg) if isinstance(t, ast.Starred)]
            if len(stars) != 1 or not isinstance(tg[stars[0]].value, ast.Name):
                return n
            v = n.value
            if isinstance(v, ast.Name) and v.id in mod_tables:
                v = mod_tables[v.id]
            if not isinstance(v, (ast.Tuple, ast.List)) or any(isinstance(e, ast.Starred) for e in v.elts) or len(v.elts) < len(tg) - 1 or len(v.elts) > 12:
                return n
            if v is n.value and not all(isinstance(e, (ast.Name, ast.Constant, ast.Attribute, ast.Tuple)) for e in v.elts):
                return n        # evaluation order of an inline literal with calls is left alone
            k = stars[0]
            n_after = len(tg) - k - 1
            elts = [_copy.deepcopy(e) for e in v.elts]
            out = []
            for i in range(k):
                out.append(ast.copy_location(ast.Assign(targets=[tg[i]], value=elts[i]), n))
            mid = elts[k:len(elts) - n_after]
            out.append(ast.copy_location(ast.Assign(targets=[ast.Name(id=tg[k].value.id, ctx=ast.Store())], value=ast.Tuple(elts=mid, ctx=ast.Load())), n))
            for j in range(n_after):
                out.append(ast.copy_location(ast.Assign(targets=[tg[k + 1 + j]], value=elts[len(elts) - n_after + j]), n))
            res = []
            for o in out:       # nested patterns: `*head, (a, *b) = TABLE`
                r = self.visit_Assign(o) if isinstance(o.targets[0], (ast.Tuple, ast.List)) and any(isinstance(t, ast.Starred) for t in o.targets[0].elts) else o
                res += r if isinstance(r, list) else [r]
            return res
    T().visit(tree)
    ast.fix_missing_locations(tree)


def _unroll_literal_loops(tree: ast.AST) -> None:
    """`for t in (e1, e2, ..): BODY` over a literal tuple / list written at the loop head (at most 8 elements, no break / continue /
    else) is `t = e1; BODY; t = e2; BODY; ..` - the rules then see each instance of the body with its own element."""
    import copy as _copy

    # locals bound exactly once to a literal tuple / list and only read as the iterable of one loop
    tables: Dict[int, Dict[str, ast.AST]] = {}
    local_tables: Dict[int, Dict[str, ast.AST]] = {}
    for fn in ast.walk(tree):
        if not isinstance(fn, (ast.FunctionDef, ast.AsyncFunctionDef)):
            continue
        st_: Dict[str, List[ast.AST]] = {}
        ld_: Dict[str, int] = {}
        for x in ast.walk(fn):
            if isinstance(x, ast.Name):
                if isinstance(x.ctx, ast.Store):
                    st_.setdefault(x.id, []).append(x)
                else:
                    ld_[x.id] = ld_.get(x.id, 0) + 1
        for x in ast.walk(fn):
            tg_ = x.targets[0] if isinstance(x, ast.Assign) and len(x.targets) == 1 else (x.target if isinstance(x, ast.AnnAssign) else None)
            if isinstance(tg_, ast.Name) and isinstance(getattr(x, "value", None), (ast.Tuple, ast.List)) \
                    and len(st_.get(tg_.id, [])) == 1 and ld_.get(tg_.id) == 1:
                for lp in ast.walk(fn):
                    if isinstance(lp, ast.For) and isinstance(lp.iter, ast.Name) and lp.iter.id == tg_.id:
                        tables[id(lp)] = x.value
                    if isinstance(lp, ast.ListComp) and len(lp.generators) == 1 and isinstance(lp.generators[0].iter, ast.Name) and lp.generators[0].iter.id == tg_.id \
                            and all(isinstance(e_, (ast.Name, ast.Constant, ast.Attribute)) for e_ in x.value.elts):
                        local_tables.setdefault(id(lp), {})[tg_.id] = x.value

    # locals bound exactly once to a dict literal and read exactly once, as `D.items()` at a loop head
    dict_tables: Dict[int, Dict[str, ast.AST]] = {}
    for fn in ast.walk(tree):
        if not isinstance(fn, (ast.FunctionDef, ast.AsyncFunctionDef)):
            continue
        st_: Dict[str, int] = {}
        ld_: Dict[str, int] = {}
        for x in ast.walk(fn):
            if isinstance(x, ast.Name):
                if isinstance(x.ctx, ast.Store):
                    st_[x.id] = st_.get(x.id, 0) + 1
                else:
                    ld_[x.id] = ld_.get(x.id, 0) + 1
        for x in ast.walk(fn):
            tg_ = x.targets[0] if isinstance(x, ast.Assign) and len(x.targets) == 1 else (x.target if isinstance(x, ast.AnnAssign) else None)
            if isinstance(tg_, ast.Name) and isinstance(getattr(x, "value", None), ast.Dict) and st_.get(tg_.id) == 1 and ld_.get(tg_.id) == 1:
                for lp in ast.walk(fn):
                    if isinstance(lp, ast.For) and isinstance(lp.iter, ast.Call) and isinstance(lp.iter.func, ast.Attribute) and lp.iter.func.attr == "items" \
                            and isinstance(lp.iter.func.value, ast.Name) and lp.iter.func.value.id == tg_.id:
                        dict_tables.setdefault(id(lp), {})[tg_.id] = x.value

    # loops whose (plain name) target is mentioned nowhere in the function outside the loop: each unrolled iteration may get a name
    # of its own (`row__0`, `row__1`, ..), so that a record built per iteration is a single-binding local
    private_target: Set[int] = set()
    for fn in ast.walk(tree):
        if not isinstance(fn, (ast.FunctionDef, ast.AsyncFunctionDef)):
            continue
        total: Dict[str, int] = {}
        for x in ast.walk(fn):
            if isinstance(x, ast.Name):
                total[x.id] = total.get(x.id, 0) + 1
        for lp in ast.walk(fn):
            if isinstance(lp, ast.For) and isinstance(lp.target, ast.Name):
                inside = sum(1 for x in ast.walk(lp) if isinstance(x, ast.Name) and x.id == lp.target.id)
                if inside == total.get(lp.target.id, 0):
                    private_target.add(id(lp))

    # module-level tuples / lists of literals bound once (dispatch tables)
    mod_tables: Dict[str, ast.AST] = {}
    if isinstance(tree, ast.Module):
        cnt: Dict[str, int] = {}
        for x in ast.walk(tree):
            if isinstance(x, ast.Name) and isinstance(x.ctx, ast.Store):
                cnt[x.id] = cnt.get(x.id, 0) + 1
        for st in tree.body:
            v_ = st.value if isinstance(st, (ast.Assign, ast.AnnAssign)) else None
            t_ = (st.targets[0] if isinstance(st, ast.Assign) and len(st.targets) == 1 else getattr(st, "target", None)) if v_ is not None else None
            if isinstance(t_, ast.Name) and isinstance(v_, (ast.Tuple, ast.List)) and cnt.get(t_.id) == 1:
                mod_tables[t_.id] = v_

    class T(ast.NodeTransformer):
        def visit_ListComp(self, n):
            self.generic_visit(n)
            # `[f(v) for v in (a, b, c)]` is `[f(a), f(b), f(c)]`
            if len(n.generators) == 1 and not n.generators[0].ifs and not n.generators[0].is_async:
                g = n.generators[0]
                it = g.iter
                if isinstance(it, ast.Name) and it.id in local_tables.get(id(n), {}):
                    it = local_tables[id(n)][it.id]
                if isinstance(it, (ast.Tuple, ast.List)) and 1 <= len(it.elts) <= 8 and not any(isinstance(e, ast.Starred) for e in it.elts) and isinstance(g.target, ast.Name) \
                        and not any(isinstance(x, (ast.Lambda, ast.ListComp, ast.GeneratorExp, ast.NamedExpr)) for x in ast.walk(n.elt)):
                    elts = []
                    for e in it.elts:
                        class S2(ast.NodeTransformer):
                            def visit_Name(self, x):
                                return _copy.deepcopy(e) if x.id == g.target.id and isinstance(x.ctx, ast.Load) else x
                        elts.append(S2().visit(_copy.deepcopy(n.elt)))
                    return ast.copy_location(ast.List(elts=elts, ctx=ast.Load()), n)
            return n

        def visit_For(self, n):
            self.generic_visit(n)
            it = tables.get(id(n), n.iter)
            if isinstance(it, ast.Name) and it.id in mod_tables:
                it = mod_tables[it.id]
            # `for k, v in {..}.items()` / `for k, v in D.items()` with D a local bound once to a dict literal and read only here:
            # the (key, value) pairs in the order written
            if isinstance(it, ast.Call) and isinstance(it.func, ast.Attribute) and it.func.attr == "items" and not it.args and not it.keywords:
                d_ = it.func.value
                if isinstance(d_, ast.Name) and d_.id in dict_tables.get(id(n), {}):
                    dead.add(d_.id)
                    d_ = dict_tables[id(n)][d_.id]
                if isinstance(d_, ast.Dict) and all(k_ is not None for k_ in d_.keys):
                    it = ast.copy_location(ast.Tuple(elts=[ast.Tuple(elts=[k_, v_], ctx=ast.Load()) for k_, v_ in zip(d_.keys, d_.values)], ctx=ast.Load()), it)
            # the search idiom `for k, v in TABLE: if TEST: break  [else: DEFAULT]`: a chain of tests, the loop variables keeping the
            # values of the first row that matched
            if isinstance(it, (ast.Tuple, ast.List)) and 1 <= len(it.elts) <= 8 and len(n.body) == 1 and isinstance(n.body[0], ast.If) and not n.body[0].orelse \
                    and len(n.body[0].body) == 1 and isinstance(n.body[0].body[0], ast.Break) and not any(isinstance(e, ast.Starred) for e in it.elts):
                chain = list(n.orelse) if n.orelse else [ast.copy_location(ast.Pass(), n)]
                for e in reversed(it.elts):
                    bind = ast.copy_location(ast.Assign(targets=[_copy.deepcopy(n.target)], value=_copy.deepcopy(e)), n)
                    test = ast.copy_location(ast.If(test=_copy.deepcopy(n.body[0].test), body=[ast.copy_location(ast.Pass(), n)], orelse=chain), n)
                    chain = [bind, test]
                return chain
            # the same with work done at the hit: `for t in TABLE: PRE; if c(t): HIT; break` [else: MISS]` - PRE / HIT without break / continue
            if isinstance(it, (ast.Tuple, ast.List)) and 1 <= len(it.elts) <= 8 and n.body and isinstance(n.body[-1], ast.If) and not n.body[-1].orelse \
                    and n.body[-1].body and isinstance(n.body[-1].body[-1], ast.Break) and not any(isinstance(e, ast.Starred) for e in it.elts) \
                    and not any(isinstance(x, (ast.Break, ast.Continue, ast.FunctionDef, ast.Lambda, ast.Yield, ast.YieldFrom, ast.For, ast.While))
                                for b in n.body[:-1] + n.body[-1].body[:-1] for x in ast.walk(b)) \
                    and sum(1 for b in n.body for _ in ast.walk(b)) <= 120:
                chain = list(n.orelse) if n.orelse else [ast.copy_location(ast.Pass(), n)]
                per_iter = id(n) in private_target and all(isinstance(e, ast.Call) for e in it.elts) and not n.orelse
                for k_, e in reversed(list(enumerate(it.elts))):
                    tgt_ = _copy.deepcopy(n.target)
                    pre = [_copy.deepcopy(b) for b in n.body[:-1]]
                    hit = [_copy.deepcopy(b) for b in n.body[-1].body[:-1]] or [ast.copy_location(ast.Pass(), n)]
                    tst = _copy.deepcopy(n.body[-1].test)
                    if per_iter:
                        new_name = f"{n.target.id}__{k_}"

                        class RN(ast.NodeTransformer):
                            def visit_Name(self, x):
                                if x.id == n.target.id:
                                    return ast.copy_location(ast.Name(id=new_name, ctx=x.ctx), x)
                                return x
                        tgt_ = RN().visit(tgt_)
                        pre = [RN().visit(b) for b in pre]
                        hit = [RN().visit(b) for b in hit]
                        tst = RN().visit(tst)
                    bind = ast.copy_location(ast.Assign(targets=[tgt_], value=_copy.deepcopy(e)), n)
                    test = ast.copy_location(ast.If(test=tst, body=hit, orelse=chain), n)
                    chain = [bind] + pre + [test]
                if id(n) in tables:
                    dead.add(n.iter.id)
                return chain
            if not (isinstance(it, (ast.Tuple, ast.List)) and 1 <= len(it.elts) <= 8 and not n.orelse and not any(isinstance(e, ast.Starred) for e in it.elts)):
                return n
            if any(isinstance(x, (ast.Break, ast.Continue, ast.FunctionDef, ast.Lambda, ast.Yield, ast.YieldFrom)) for b in n.body for x in ast.walk(b)):
                return n
            if sum(1 for b in n.body for _ in ast.walk(b)) > 400:
                return n
            out = []
            tnames = [t for t in ([n.target] if isinstance(n.target, ast.Name) else (n.target.elts if isinstance(n.target, (ast.Tuple, ast.List)) else [None]))]
            body_stores = {x.id for b in n.body for x in ast.walk(b) if isinstance(x, ast.Name) and isinstance(x.ctx, ast.Store)}

            def simple(v):
                return isinstance(v, (ast.Constant, ast.Name, ast.Lambda)) or (isinstance(v, ast.Attribute) and simple(v.value))
            for e in it.elts:
                vals = [e] if isinstance(n.target, ast.Name) else (list(e.elts) if isinstance(e, (ast.Tuple, ast.List)) and len(e.elts) == len(tnames) else None)
                if vals is not None and all(isinstance(t, ast.Name) and t.id not in body_stores for t in tnames) and all(simple(v) for v in vals):
                    # substitute the element for the loop variable (no temporaries)
                    sub = {t.id: v for t, v in zip(tnames, vals)}

                    class S(ast.NodeTransformer):
                        def visit_Name(self, x):
                            return _copy.deepcopy(sub[x.id]) if isinstance(x.ctx, ast.Load) and x.id in sub else x

                        def visit_Call(self, x):
                            self.generic_visit(x)
                            # an immediately invoked parameterless lambda is its body
                            if isinstance(x.func, ast.Lambda) and not x.args and not x.keywords and not x.func.args.args and not x.func.args.vararg \
                                    and not x.func.args.kwarg and not x.func.args.kwonlyargs and not x.func.args.posonlyargs:
                                return x.func.body
                            return x
                    out += [S().visit(_copy.deepcopy(b)) for b in n.body]
                else:
                    out.append(ast.copy_location(ast.Assign(targets=[_copy.deepcopy(n.target)], value=_copy.deepcopy(e)), n))
                    out += [_copy.deepcopy(b) for b in n.body]
            if id(n) in tables:
                dead.add(n.iter.id)
            return out
    dead: Set[str] = set()
    T().visit(tree)
    if dead:
        class D(ast.NodeTransformer):
            def visit_Assign(self, x):
                if len(x.targets) == 1 and isinstance(x.targets[0], ast.Name) and x.targets[0].id in dead and isinstance(x.value, (ast.Tuple, ast.List, ast.Dict)):
                    return ast.copy_location(ast.Pass(), x)
                return x

            def visit_AnnAssign(self, x):
                if isinstance(x.target, ast.Name) and x.target.id in dead and isinstance(x.value, (ast.Tuple, ast.List, ast.Dict)):
                    return ast.copy_location(ast.Pass(), x)
                return x
        D().visit(tree)
    ast.fix_missing_locations(tree)


def _inline_branch_flags(tree: ast.AST) -> None:
    """`ok = <boolean expression>` directly followed by `if ok: A else: B` (or `if not ok`), ok bound once and otherwise read only inside A
    and B: the test is the expression itself, and inside A / B the name is the literal True / False."""
    import copy as _copy

    class Sub(ast.NodeTransformer):
        def __init__(self, name, value):
            self.name, self.value = name, value

        def visit_Name(self, n):
            if n.id == self.name and isinstance(n.ctx, ast.Load):
                return ast.copy_location(ast.Constant(value=self.value), n)
            return n
    for fn in ast.walk(tree):
        if not isinstance(fn, (ast.FunctionDef, ast.AsyncFunctionDef)):
            continue
        stores: Dict[str, int] = {}
        for n in ast.walk(fn):
            if isinstance(n, ast.Name) and isinstance(n.ctx, ast.Store):
                stores[n.id] = stores.get(n.id, 0) + 1
        for owner in ast.walk(fn):
            for fld in ("body", "orelse", "finalbody"):
                blk = getattr(owner, fld, None)
                if not (isinstance(blk, list) and blk and isinstance(blk[0], ast.stmt)):
                    continue
                k = 0
                while k < len(blk) - 1:
                    a, st = blk[k], blk[k + 1]
                    k += 1
                    if not (isinstance(a, ast.Assign) and len(a.targets) == 1 and isinstance(a.targets[0], ast.Name) and isinstance(st, ast.If)
                            and isinstance(a.value, (ast.Compare, ast.BoolOp, ast.UnaryOp, ast.Call)) and stores.get(a.targets[0].id) == 1):
                        continue
                    if isinstance(a.value, ast.UnaryOp) and not isinstance(a.value.op, ast.Not):
                        continue
                    if isinstance(a.value, ast.Call) and not (isinstance(a.value.func, ast.Name) and a.value.func.id in ("any", "all", "bool", "isinstance", "callable")):
                        continue
                    v = a.targets[0].id
                    t, pos = st.test, True
                    if isinstance(t, ast.UnaryOp) and isinstance(t.op, ast.Not):
                        t, pos = t.operand, False
                    if not (isinstance(t, ast.Name) and t.id == v):
                        continue
                    loads = [n for n in ast.walk(fn) if isinstance(n, ast.Name) and n.id == v and isinstance(n.ctx, ast.Load)]
                    inside = {id(n) for n in ast.walk(st)}
                    if not all(id(n) in inside for n in loads):
                        continue
                    st.test = a.value if pos else ast.copy_location(ast.UnaryOp(op=ast.Not(), operand=a.value), a.value)
                    tb, fb = (st.body, st.orelse) if pos else (st.orelse, st.body)
                    tb[:] = [Sub(v, True).visit(x) for x in tb]
                    fb[:] = [Sub(v, False).visit(x) for x in fb]
                    k -= 1
                    del blk[k]
    ast.fix_missing_locations(tree)


def _iter_while_to_for(tree: ast.AST) -> None:
    """`it = iter(X)` ... `while (v := next(it, S)) is not S: BODY` (it used nowhere else) is `for v in X: BODY`."""
    for fn in ast.walk(tree):
        if not isinstance(fn, (ast.FunctionDef, ast.AsyncFunctionDef)):
            continue
        uses: Dict[str, int] = {}
        for n in ast.walk(fn):
            if isinstance(n, ast.Name):
                uses[n.id] = uses.get(n.id, 0) + 1
        for owner in ast.walk(fn):
            for fld in ("body", "orelse", "finalbody"):
                blk = getattr(owner, fld, None)
                if not (isinstance(blk, list) and blk and isinstance(blk[0], ast.stmt)):
                    continue
                for k in range(len(blk) - 1):
                    a, w = blk[k], blk[k + 1]
                    if not (isinstance(a, ast.Assign) and len(a.targets) == 1 and isinstance(a.targets[0], ast.Name) and isinstance(a.value, ast.Call)
                            and isinstance(a.value.func, ast.Name) and a.value.func.id == "iter" and len(a.value.args) == 1 and isinstance(w, ast.While) and not w.orelse):
                        continue
                    it = a.targets[0].id
                    t = w.test
                    if not (isinstance(t, ast.Compare) and len(t.ops) == 1 and isinstance(t.ops[0], ast.IsNot) and isinstance(t.left, ast.NamedExpr)
                            and isinstance(t.left.target, ast.Name) and isinstance(t.left.value, ast.Call) and isinstance(t.left.value.func, ast.Name)
                            and t.left.value.func.id == "next" and len(t.left.value.args) == 2 and isinstance(t.left.value.args[0], ast.Name)
                            and t.left.value.args[0].id == it and ast.dump(t.left.value.args[1]) == ast.dump(t.comparators[0]) and uses.get(it) == 2):
                        continue
                    blk[k:k + 2] = [ast.copy_location(ast.For(target=ast.Name(id=t.left.target.id, ctx=ast.Store()), iter=a.value.args[0], body=w.body, orelse=[]), w)]
                    break
    ast.fix_missing_locations(tree)


def _bounded_flag_while(tree: ast.AST) -> None:
    """`flag = False; k = 0; while not flag and k < N: k += 1; BODY` where BODY sets `flag = True` only as the last thing an
    iteration does is `for _ in range(N): k += 1; BODY` with a `break` after every `flag = True` (N an integer constant: a literal
    or a module-level / local name bound once to an integer literal).  The flag and the counter stay as they are, so code after
    the loop reads the same values."""
    mod_ints = {}
    if isinstance(tree, ast.Module):
        for st in tree.body:
            if isinstance(st, ast.Assign) and len(st.targets) == 1 and isinstance(st.targets[0], ast.Name) and isinstance(st.value, ast.Constant) \
                    and type(st.value.value) is int:
                mod_ints[st.targets[0].id] = mod_ints.get(st.targets[0].id, 0) + 1
            elif isinstance(st, ast.AnnAssign) and isinstance(st.target, ast.Name) and isinstance(st.value, ast.Constant) and type(st.value.value) is int:
                mod_ints[st.target.id] = mod_ints.get(st.target.id, 0) + 1
    mod_stores = {}
    for x in ast.walk(tree):
        if isinstance(x, ast.Name) and isinstance(x.ctx, ast.Store):
            mod_stores[x.id] = mod_stores.get(x.id, 0) + 1

    def stores(fn, name):
        return [n for n in ast.walk(fn) if isinstance(n, ast.Name) and n.id == name and isinstance(n.ctx, (ast.Store, ast.Del))]

    def int_bound(fn, e) -> bool:
        if isinstance(e, ast.Constant):
            return type(e.value) is int
        if isinstance(e, ast.Name):
            loc = stores(fn, e.id)
            if not loc:
                return mod_ints.get(e.id) == 1 and mod_stores.get(e.id) == 1 and e.id not in {a.arg for a in fn.args.args + fn.args.kwonlyargs + fn.args.posonlyargs}
            if len(loc) == 1:
                for st in ast.walk(fn):
                    if isinstance(st, ast.Assign) and len(st.targets) == 1 and st.targets[0] is loc[0]:
                        return isinstance(st.value, ast.Constant) and type(st.value.value) is int
        return False

    def tails(block):
        """the statements that can be the last thing executed by the block (None if the block's end is reached some other way)"""
        if not block:
            return []
        last = block[-1]
        if isinstance(last, ast.If):
            return tails(last.body) + tails(last.orelse)
        return [(block, len(block) - 1)]

    def process(fn, block) -> bool:
        for k, lp in enumerate(block):
            if not (isinstance(lp, ast.While) and not lp.orelse and isinstance(lp.test, ast.BoolOp) and isinstance(lp.test.op, ast.And) and len(lp.test.values) == 2):
                continue
            flag = cnt = bound = None
            for v in lp.test.values:
                if isinstance(v, ast.UnaryOp) and isinstance(v.op, ast.Not) and isinstance(v.operand, ast.Name):
                    flag = v.operand.id
                elif isinstance(v, ast.Compare) and len(v.ops) == 1 and isinstance(v.ops[0], ast.Lt) and isinstance(v.left, ast.Name):
                    cnt, bound = v.left.id, v.comparators[0]
                elif isinstance(v, ast.Compare) and len(v.ops) == 1 and isinstance(v.ops[0], ast.Gt) and isinstance(v.comparators[0], ast.Name):
                    cnt, bound = v.comparators[0].id, v.left
            if flag is None or cnt is None or not int_bound(fn, bound):
                continue
            # initialisations in this block before the loop, nothing else binding them in between
            def init_of(name, want):
                hits = [s_ for s_ in block[:k] if isinstance(s_, ast.Assign) and len(s_.targets) == 1 and isinstance(s_.targets[0], ast.Name) and s_.targets[0].id == name]
                return len(hits) == 1 and isinstance(hits[0].value, ast.Constant) and hits[0].value.value is want if isinstance(want, bool) else \
                    len(hits) == 1 and isinstance(hits[0].value, ast.Constant) and type(hits[0].value.value) is int and hits[0].value.value == want
            if not (init_of(flag, False) and init_of(cnt, 0)):
                continue
            # counter: exactly one `cnt += 1` as the first statement of the body, no other store
            first = lp.body[0]
            if not (isinstance(first, ast.AugAssign) and isinstance(first.target, ast.Name) and first.target.id == cnt and isinstance(first.op, ast.Add)
                    and isinstance(first.value, ast.Constant) and first.value.value == 1 and type(first.value.value) is int):
                continue
            if len(stores(fn, cnt)) != 2:
                continue
            # flag: `flag = True` only in tail position of the loop body
            tl = tails(lp.body)
            sites = [(b, i) for b, i in tl if isinstance(b[i], ast.Assign) and len(b[i].targets) == 1 and isinstance(b[i].targets[0], ast.Name) and b[i].targets[0].id == flag
                     and isinstance(b[i].value, ast.Constant) and b[i].value.value is True]
            if not sites or len(stores(fn, flag)) != len(sites) + 1:
                continue
            for b, i in sites:
                b.insert(i + 1, ast.copy_location(ast.Break(), b[i]))
            new = ast.copy_location(ast.For(target=ast.Name(id=f"__wk{getattr(lp, 'lineno', 0)}", ctx=ast.Store()),
                                            iter=ast.Call(func=ast.Name(id="range", ctx=ast.Load()), args=[bound], keywords=[]),
                                            body=lp.body, orelse=[], type_comment=None), lp)
            block[k] = new
            return True
        for st in block:
            for fld in ("body", "orelse", "finalbody"):
                sub = getattr(st, fld, None)
                if isinstance(sub, list) and sub and isinstance(sub[0], ast.stmt) and not isinstance(st, (ast.FunctionDef, ast.AsyncFunctionDef, ast.ClassDef)):
                    if process(fn, sub):
                        return True
        return False
    for fn in ast.walk(tree):
        if isinstance(fn, (ast.FunctionDef, ast.AsyncFunctionDef)):
            for _ in range(3):
                if not process(fn, fn.body):
                    break
    ast.fix_missing_locations(tree)


def _unflag_loops(tree: ast.AST) -> None:
    """single-exit loops with a flag back to early exits:
        flag = False; for ..: .. if c: flag = True; break ..      if flag: T (always leaves)  [else: F]
    is  for ..: .. if c: T ..   followed by F - provided the flag is bound nowhere else, every `flag = True` is directly followed by
    a `break` of this loop, and the flag is read only by that test and inside T / F (where it is the literal True / False)."""
    import copy as _copy

    def always_leaves(block) -> bool:
        if not block:
            return False
        last = block[-1]
        if isinstance(last, (ast.Return, ast.Raise)):
            return True
        if isinstance(last, ast.If):
            return bool(last.orelse) and always_leaves(last.body) and always_leaves(last.orelse)
        return False

    class Sub(ast.NodeTransformer):
        def __init__(self, name, value):
            self.name, self.value = name, value

        def visit_Name(self, n):
            if n.id == self.name and isinstance(n.ctx, ast.Load):
                return ast.copy_location(ast.Constant(value=self.value), n)
            return n

    def process(fn, block) -> bool:
        for k in range(len(block) - 1):
            lp, nxt = block[k], block[k + 1]
            if not (isinstance(lp, (ast.For, ast.While)) and not lp.orelse and isinstance(nxt, ast.If)):
                continue
            t, pos = nxt.test, True
            if isinstance(t, ast.UnaryOp) and isinstance(t.op, ast.Not):
                t, pos = t.operand, False
            if not isinstance(t, ast.Name):
                continue
            flag = t.id
            body_t, body_f = (nxt.body, nxt.orelse) if pos else (nxt.orelse, nxt.body)
            if not always_leaves(body_t):
                continue
            # stores: one `flag = False` before the loop in this block, the rest `flag = True` followed by `break` inside the loop
            stores = [n for n in ast.walk(fn) if isinstance(n, ast.Name) and n.id == flag and isinstance(n.ctx, ast.Store)]
            init = [s_ for s_ in block[:k] if isinstance(s_, ast.Assign) and len(s_.targets) == 1 and isinstance(s_.targets[0], ast.Name) and s_.targets[0].id == flag
                    and isinstance(s_.value, ast.Constant) and s_.value.value is False]
            if len(init) != 1:
                continue
            sites = []
            good = True

            def scan(blk, in_inner_loop=False):
                nonlocal good
                for i_, st in enumerate(blk):
                    if isinstance(st, ast.Assign) and len(st.targets) == 1 and isinstance(st.targets[0], ast.Name) and st.targets[0].id == flag:
                        if isinstance(st.value, ast.Constant) and st.value.value is True and not in_inner_loop and i_ + 1 < len(blk) and isinstance(blk[i_ + 1], ast.Break):
                            sites.append((blk, i_))
                        else:
                            good = False
                    for fld in ("body", "orelse", "finalbody"):
                        sub = getattr(st, fld, None)
                        if isinstance(sub, list) and sub and isinstance(sub[0], ast.stmt):
                            scan(sub, in_inner_loop or isinstance(st, (ast.For, ast.While)))
                    for h in getattr(st, "handlers", []) or []:
                        scan(h.body, in_inner_loop)
            scan(lp.body)
            if not good or not sites or len(stores) != len(sites) + 1:
                continue
            loads = [n for n in ast.walk(fn) if isinstance(n, ast.Name) and n.id == flag and isinstance(n.ctx, ast.Load)]
            inside = {id(n) for n in ast.walk(nxt) if isinstance(n, ast.Name)}
            if not all(id(n) in inside for n in loads):
                continue
            for blk, i_ in sorted(sites, key=lambda x: -x[1]):
                new = [Sub(flag, True).visit(_copy.deepcopy(x)) for x in body_t]
                blk[i_:i_ + 2] = new
            rest = [Sub(flag, False).visit(_copy.deepcopy(x)) for x in body_f]
            block[k + 1:k + 2] = rest
            block.remove(init[0])
            return True
        for st in block:
            for fld in ("body", "orelse", "finalbody"):
                sub = getattr(st, fld, None)
                if isinstance(sub, list) and sub and isinstance(sub[0], ast.stmt) and not isinstance(st, (ast.FunctionDef, ast.AsyncFunctionDef, ast.ClassDef)):
                    if process(fn, sub):
                        return True
        return False
    for fn in ast.walk(tree):
        if isinstance(fn, (ast.FunctionDef, ast.AsyncFunctionDef)):
            for _ in range(4):
                if not process(fn, fn.body):
                    break
    ast.fix_missing_locations(tree)


class _FoldLiteralTests(ast.NodeTransformer):
    """`a if True else b` is a; `if False: A else: B` is B (literal tests left behind by an expanded helper called with a literal flag)"""

    @staticmethod
    def _lit(t):
        if isinstance(t, ast.UnaryOp) and isinstance(t.op, ast.Not) and isinstance(t.operand, ast.Constant) and isinstance(t.operand.value, bool):
            return not t.operand.value
        if isinstance(t, ast.Constant) and isinstance(t.value, bool):
            return t.value
        return None

    def visit_IfExp(self, n):
        self.generic_visit(n)
        v = self._lit(n.test)
        if v is None:
            return n
        return n.body if v else n.orelse

    def visit_If(self, n):
        self.generic_visit(n)
        v = self._lit(n.test)
        if v is None:
            return n
        blk = n.body if v else n.orelse
        return blk if blk else ast.copy_location(ast.Pass(), n)


def _count_loops(tree: ast.AST) -> None:
    """`for k in itertools.count(s): BODY` is `k = s; while True: BODY; k += 1` with the increment also before every `continue` of
    that loop (the rules read the iteration counter of the solve loop as an explicit counter)."""
    class T(ast.NodeTransformer):
        def visit_For(self, n):
            self.generic_visit(n)
            it = n.iter
            if not (isinstance(it, ast.Call) and ((isinstance(it.func, ast.Attribute) and it.func.attr == "count" and isinstance(it.func.value, ast.Name) and it.func.value.id == "itertools")
                                                   or (isinstance(it.func, ast.Name) and it.func.id == "count")) and len(it.args) <= 1 and not it.keywords
                    and isinstance(n.target, ast.Name) and not n.orelse):
                return n
            k = n.target.id
            if any(isinstance(x, ast.Name) and x.id == k and isinstance(x.ctx, ast.Store) for b in n.body for x in ast.walk(b)):
                return n
            start = it.args[0] if it.args else ast.Constant(value=0)

            def inc():
                return ast.copy_location(ast.AugAssign(target=ast.Name(id=k, ctx=ast.Store()), op=ast.Add(), value=ast.Constant(value=1)), n)

            def fix(block, top=True):
                out = []
                for st in block:
                    if isinstance(st, ast.Continue):
                        out.append(inc())
                        out.append(st)
                        continue
                    if isinstance(st, (ast.For, ast.While)):
                        out.append(st)          # a `continue` in an inner loop belongs to that loop
                        continue
                    for fld in ("body", "orelse", "finalbody"):
                        sub = getattr(st, fld, None)
                        if isinstance(sub, list) and sub and isinstance(sub[0], ast.stmt):
                            setattr(st, fld, fix(sub, False))
                    for h in getattr(st, "handlers", []) or []:
                        h.body = fix(h.body, False)
                    out.append(st)
                return out
            body = fix(n.body) + [inc()]
            init = ast.copy_location(ast.Assign(targets=[ast.Name(id=k, ctx=ast.Store())], value=start), n)
            loop = ast.copy_location(ast.While(test=ast.Constant(value=True), body=body, orelse=[]), n)
            return [init, loop]
    T().visit(tree)
    ast.fix_missing_locations(tree)


def _dissolve_namedtuples(trees) -> None:
    """private NamedTuple classes used as throw-away records: `a, b = _Rec(f=x, g=y)` is `a, b = x, y` (field order), and a local
    `r = _Rec(..)` that is only read as `r.f` / `r.g` or unpacked is replaced by one local per field.  Only classes whose name
    starts with an underscore and which define no methods are dissolved."""
    recs: Dict[str, List[str]] = {}
    ctor_recs: Dict[str, List[str]] = {}
    for t in trees:
        for c in ast.walk(t):
            if isinstance(c, ast.ClassDef) and c.name.startswith("_") and any((isinstance(b, ast.Name) and b.id == "NamedTuple") or
                                                                              (isinstance(b, ast.Attribute) and b.attr == "NamedTuple") for b in c.bases):
                body = [x for x in c.body if not (isinstance(x, ast.Expr) and isinstance(x.value, ast.Constant))]
                if body and all(isinstance(x, ast.AnnAssign) and isinstance(x.target, ast.Name) and x.value is None for x in body):
                    recs[c.name] = [x.target.id for x in body]
                else:
                    # with methods / properties: still a plain record as far as `a, b = _Rec(..)` goes, unless it redefines construction
                    # or iteration
                    flds = [x for x in body if isinstance(x, ast.AnnAssign)]
                    meths = [x for x in body if isinstance(x, (ast.FunctionDef, ast.AsyncFunctionDef))]
                    if flds and len(flds) + len(meths) == len(body) and all(isinstance(x.target, ast.Name) and x.value is None for x in flds) \
                            and not any(m_.name in ("__new__", "__init__", "__iter__", "__getitem__", "__len__") for m_ in meths):
                        ctor_recs[c.name] = [x.target.id for x in flds]
    _NT_RECS.clear()
    _NT_RECS.update(recs)
    _NT_CTOR_RECS.clear()
    _NT_CTOR_RECS.update(ctor_recs)
    if not recs and not ctor_recs:
        return
    for t in trees:
        _dissolve_records_in(t)


_NT_RECS: Dict[str, List[str]] = {}
_NT_CTOR_RECS: Dict[str, List[str]] = {}


def _dissolve_records_in(t: ast.AST) -> None:
    recs = _NT_RECS
    if not recs and not _NT_CTOR_RECS:
        return

    def fields_of(call, ctor_only=False):
        table = {**_NT_CTOR_RECS, **recs} if ctor_only else recs
        if not (isinstance(call, ast.Call) and isinstance(call.func, ast.Name) and call.func.id in table):
            return None
        fl = table[call.func.id]
        vals = {}
        for i, a in enumerate(call.args):
            if isinstance(a, ast.Starred) or i >= len(fl):
                return None
            vals[fl[i]] = a
        for kw in call.keywords:
            if kw.arg is None or kw.arg not in fl or kw.arg in vals:
                return None
            vals[kw.arg] = kw.value
        if set(vals) != set(fl):
            return None
        return [vals[f] for f in fl], fl
    if True:
        for fn in ast.walk(t):
            if not isinstance(fn, (ast.FunctionDef, ast.AsyncFunctionDef)):
                continue
            # (0) element k of a record built on the spot: `__item__(_Rec(a, b), 1)` / `_Rec(a, b)[1]` is b
            for n in ast.walk(fn):
                if isinstance(n, ast.Call) and isinstance(n.func, ast.Name) and n.func.id == "__item__" and len(n.args) == 2 and isinstance(n.args[1], ast.Constant) \
                        and isinstance(n.args[1].value, int):
                    fv = fields_of(n.args[0], ctor_only=True)
                    if fv is not None and 0 <= n.args[1].value < len(fv[0]) and all(isinstance(x_, (ast.Name, ast.Attribute, ast.Constant, ast.Load)) for v_ in fv[0] for x_ in ast.walk(v_)):
                        tgt = fv[0][n.args[1].value]
                        n.__class__ = tgt.__class__
                        n.__dict__.clear()
                        n.__dict__.update(tgt.__dict__)
            # (1) direct unpacking
            for n in ast.walk(fn):
                if isinstance(n, ast.Assign) and len(n.targets) == 1 and isinstance(n.targets[0], (ast.Tuple, ast.List)):
                    fv = fields_of(n.value, ctor_only=True)
                    if fv is not None and len(n.targets[0].elts) == len(fv[0]):
                        n.value = ast.copy_location(ast.Tuple(elts=fv[0], ctx=ast.Load()), n.value)
                if isinstance(n, ast.Return):
                    pass
            # (2) a local record read field by field
            stores: Dict[str, List[ast.Assign]] = {}
            for n in ast.walk(fn):
                if isinstance(n, ast.Assign) and len(n.targets) == 1 and isinstance(n.targets[0], ast.Name) and fields_of(n.value) is not None:
                    stores.setdefault(n.targets[0].id, []).append(n)
            parents = {}
            for n in ast.walk(fn):
                for c in ast.iter_child_nodes(n):
                    parents[id(c)] = n
            for v, sts in stores.items():
                if len(sts) != 1:
                    continue
                n_store = sum(1 for n in ast.walk(fn) if isinstance(n, ast.Name) and n.id == v and isinstance(n.ctx, ast.Store))
                loads = [n for n in ast.walk(fn) if isinstance(n, ast.Name) and n.id == v and isinstance(n.ctx, ast.Load)]
                fl = recs[sts[0].value.func.id]
                def unpacked(n):
                    p_ = parents.get(id(n))
                    return isinstance(p_, ast.Assign) and p_.value is n and len(p_.targets) == 1 and isinstance(p_.targets[0], (ast.Tuple, ast.List)) \
                        and len(p_.targets[0].elts) == len(fl) and not any(isinstance(e_, ast.Starred) for e_ in p_.targets[0].elts)
                ok = n_store == 1 and all((isinstance(parents.get(id(n)), ast.Attribute) and parents[id(n)].attr in fl and isinstance(parents[id(n)].ctx, ast.Load)) or unpacked(n)
                                          for n in loads)
                if not ok:
                    continue
                vals, fl = fields_of(sts[0].value)
                st = sts[0]
                st.targets = [ast.Tuple(elts=[ast.Name(id=f"{v}__{f}", ctx=ast.Store()) for f in fl], ctx=ast.Store())]
                st.value = ast.copy_location(ast.Tuple(elts=vals, ctx=ast.Load()), st.value)
                for n in loads:
                    a = parents[id(n)]
                    if isinstance(a, ast.Assign):
                        a.value = ast.copy_location(ast.Tuple(elts=[ast.Name(id=f"{v}__{f}", ctx=ast.Load()) for f in fl], ctx=ast.Load()), n)
                        continue
                    a.__class__ = ast.Name
                    a.id = f"{v}__{a.attr}"
                    a.ctx = ast.Load()
                    a._fields = ("id", "ctx")
            ast.fix_missing_locations(fn)
        # the stores created above are split like any other tuple store
        _SplitTupleAssign().visit(t)


def _sink_returns(tree: ast.AST) -> None:
    """single-exit style back to one return per branch: `if c: r = a  else: r = b` / `try: .. r = a  except E: r = b  [else: r = c]`
    followed directly by `return r` becomes a return in every branch (the rules were written against the multi-return form; the two
    are the same program: r is assigned as the last thing of each branch and only read by the return)."""
    def ends_with_store(block, name) -> bool:
        if not block:
            return False
        last = block[-1]
        if isinstance(last, (ast.Return, ast.Raise)):
            return True
        if isinstance(last, ast.Assign) and len(last.targets) == 1 and isinstance(last.targets[0], ast.Name) and last.targets[0].id == name:
            return True
        return sinkable(last, name)

    def sinkable(st, name) -> bool:
        if isinstance(st, ast.If):
            return bool(st.orelse) and ends_with_store(st.body, name) and ends_with_store(st.orelse, name)
        if isinstance(st, ast.Try) and not st.finalbody and st.handlers:
            main = st.orelse if st.orelse else st.body
            return ends_with_store(main, name) and all(ends_with_store(h.body, name) for h in st.handlers)
        return False

    def rewrite_block(block, name) -> None:
        last = block[-1]
        if isinstance(last, (ast.Return, ast.Raise)):
            return
        if isinstance(last, ast.Assign):
            block[-1] = ast.copy_location(ast.Return(value=last.value), last)
            return
        rewrite(last, name)

    def rewrite(st, name) -> None:
        if isinstance(st, ast.If):
            rewrite_block(st.body, name)
            rewrite_block(st.orelse, name)
        else:
            rewrite_block(st.orelse if st.orelse else st.body, name)
            for h in st.handlers:
                rewrite_block(h.body, name)
    import copy as _copy

    def leaves(block) -> bool:
        if not block:
            return False
        last = block[-1]
        if isinstance(last, (ast.Return, ast.Raise)):
            return True
        if isinstance(last, ast.If):
            return bool(last.orelse) and leaves(last.body) and leaves(last.orelse)
        return False

    def append_ret(b, ret) -> None:
        # `v = e` directly followed by `return v`, v read by nothing but such returns: `return e`
        if isinstance(ret.value, ast.Name) and b and isinstance(b[-1], ast.Assign) and len(b[-1].targets) == 1 and isinstance(b[-1].targets[0], ast.Name) \
                and b[-1].targets[0].id == ret.value.id and ret.value.id in only_returned:
            b[-1] = ast.copy_location(ast.Return(value=b[-1].value), b[-1])
        else:
            b.append(_copy.deepcopy(ret))

    def push_return(block, ret, depth=0) -> None:
        """block ends with an `if` (possibly without else) and is followed by `ret`: every branch gets its own copy of the return"""
        last = block[-1] if block else None
        if isinstance(last, ast.If) and depth < 4 and not leaves([last]):
            for br in ("body", "orelse"):
                b = getattr(last, br)
                if not leaves(b):
                    if b and isinstance(b[-1], ast.If):
                        push_return(b, ret, depth + 1)
                    else:
                        append_ret(b, ret)
            return
        append_ret(block, ret)
    for fn in ast.walk(tree):
        if not isinstance(fn, (ast.FunctionDef, ast.AsyncFunctionDef)):
            continue
        # names that are read by `return <name>` statements only
        only_returned = set()
        ld: Dict[str, int] = {}
        rl: Dict[str, int] = {}
        for n in ast.walk(fn):
            if isinstance(n, ast.Name) and isinstance(n.ctx, ast.Load):
                ld[n.id] = ld.get(n.id, 0) + 1
            if isinstance(n, ast.Return) and isinstance(n.value, ast.Name):
                rl[n.value.id] = rl.get(n.value.id, 0) + 1
        only_returned = {k for k, v in rl.items() if ld.get(k) == v}
        def all_blocks():
            out = [fn.body]
            for owner in ast.walk(fn):
                if owner is fn or isinstance(owner, (ast.FunctionDef, ast.AsyncFunctionDef, ast.ClassDef, ast.Lambda)):
                    continue
                for fld in ("body", "orelse", "finalbody"):
                    b_ = getattr(owner, fld, None)
                    if isinstance(b_, list) and b_ and isinstance(b_[0], ast.stmt):
                        out.append(b_)
                for h_ in getattr(owner, "handlers", []) or []:
                    out.append(h_.body)
            return out
        changed = True
        rounds = 0
        while changed and rounds < 50:
          rounds += 1
          changed = False
          for body in all_blocks():
            if changed:
                break
            # a short straight-line tail after a conditional (`if ..: a = X else: a = Y` ; `m = f(a)` ; `c = g(m)` ; `return c(..)`) goes into
            # every branch together with the return, so that each case is one straight path
            if len(body) >= 3 and isinstance(body[-1], ast.Return):
                j_ = len(body) - 2
                while j_ >= 0 and isinstance(body[j_], ast.Assign) and len(body) - 1 - j_ <= 3:
                    j_ -= 1
                tail_ = body[j_ + 1:-1]
                def selection_only(st_) -> bool:
                    # the conditional merely selects literals (names of modules / classes, enum members, constants) per case
                    def simple(v):
                        return isinstance(v, (ast.Constant, ast.Name)) or (isinstance(v, ast.Attribute) and simple(v.value)) \
                            or (isinstance(v, (ast.Tuple, ast.List)) and all(simple(x) for x in v.elts))
                    for x in ast.walk(st_):
                        if isinstance(x, ast.stmt) and not isinstance(x, (ast.If, ast.Pass, ast.Assert, ast.Assign, ast.Import, ast.ImportFrom)):
                            return False
                        if isinstance(x, ast.Assign) and not (simple(x.value) and all(isinstance(t_, ast.Name) or (isinstance(t_, (ast.Tuple, ast.List)) and all(isinstance(e_, ast.Name) for e_ in t_.elts))
                                                                                        for t_ in x.targets)):
                            return False
                    return True
                if tail_ and j_ >= 0 and isinstance(body[j_], ast.If) and not leaves([body[j_]]) and selection_only(body[j_]) \
                        and not any(isinstance(n, (ast.For, ast.While, ast.Try, ast.With, ast.FunctionDef, ast.Lambda)) for n in ast.walk(body[j_])) \
                        and sum(1 for t_ in tail_ + [body[-1]] for n in ast.walk(t_)) <= 80 and sum(1 for n in ast.walk(body[j_]) if isinstance(n, ast.If)) <= 8:
                    full = tail_ + [body[-1]]
                    del body[j_ + 1:]

                    def push_tail(block, depth=0):
                        last = block[-1] if block else None
                        if isinstance(last, ast.If) and depth < 8 and not leaves([last]):
                            for br in ("body", "orelse"):
                                b = getattr(last, br)
                                if not leaves(b):
                                    if b and isinstance(b[-1], ast.If):
                                        push_tail(b, depth + 1)
                                    else:
                                        b.extend(_copy.deepcopy(x) for x in full)
                            return
                        block.extend(_copy.deepcopy(x) for x in full)
                    push_tail(body)
                    changed = True
                    continue
            # `v = E` directly followed by `return v`, v read by nothing but returns: `return E`
            if len(body) >= 2 and isinstance(body[-1], ast.Return) and isinstance(body[-1].value, ast.Name) and isinstance(body[-2], ast.Assign) \
                    and len(body[-2].targets) == 1 and isinstance(body[-2].targets[0], ast.Name) and body[-2].targets[0].id == body[-1].value.id \
                    and body[-1].value.id in only_returned:
                e_ = body[-2].value
                body[-2:] = [ast.copy_location(ast.Return(value=e_), body[-2])]
                changed = True
                continue
            # the same inside the branches of trailing conditionals (`else: if c: s = X` + `return s` nested one level down)
            def nested_tail(block, depth=0):
                did = False
                if depth > 4 or not block:
                    return False
                if len(block) >= 2 and isinstance(block[-1], ast.Return) and isinstance(block[-2], ast.If) and not leaves([block[-2]]) \
                        and not any(isinstance(n, (ast.For, ast.While, ast.Try, ast.With, ast.FunctionDef, ast.Lambda)) for n in ast.walk(block[-2])) \
                        and sum(1 for n in ast.walk(block[-1])) <= 40 and block is not body:
                    ret = block.pop()
                    push_return(block, ret)
                    did = True
                last = block[-1]
                if isinstance(last, ast.If):
                    did = nested_tail(last.body, depth + 1) or did
                    did = nested_tail(last.orelse, depth + 1) or did
                return did
            if nested_tail(body):
                changed = True
                continue
            # tail duplication: `if c: A` (no else / falling through) followed by `return e`  ->  a return at the end of each branch
            if len(body) >= 2 and isinstance(body[-1], ast.Return) and isinstance(body[-2], ast.If) and not leaves([body[-2]]) \
                    and not any(isinstance(n, (ast.For, ast.While, ast.Try, ast.With, ast.FunctionDef, ast.Lambda)) for n in ast.walk(body[-2])) \
                    and sum(1 for n in ast.walk(body[-1])) <= 40:
                ret = body.pop()
                push_return(body, ret)
                changed = True
                continue
            # `try: BODY  except E: H` followed by `return <names only>`: the return moves to the end of the try body (or its else
            # block) and of every handler; evaluating plain names cannot raise, so no new exception comes under the handlers
            if len(body) >= 2 and isinstance(body[-1], ast.Return) and isinstance(body[-2], ast.Try) and not body[-2].finalbody and body[-2].handlers \
                    and (body[-1].value is None or all(isinstance(n, (ast.Name, ast.Tuple, ast.Constant, ast.Load)) for n in ast.walk(body[-1].value))):
                ret = body.pop()
                tr = body[-1]
                main = tr.orelse if tr.orelse else tr.body
                for blk in [main] + [h.body for h in tr.handlers]:
                    if not leaves(blk):
                        if blk and isinstance(blk[-1], ast.If) and not any(isinstance(n, (ast.For, ast.While, ast.Try, ast.With)) for n in ast.walk(blk[-1])):
                            push_return(blk, ret)
                        else:
                            append_ret(blk, ret)
                changed = True
                continue
            if len(body) >= 2 and isinstance(body[-1], ast.Return) and isinstance(body[-1].value, ast.Name):
                name = body[-1].value.id
                prev = body[-2]
                # the name must not be read anywhere else (a closure, a later statement): only stores and the final return
                loads = sum(1 for n in ast.walk(fn) if isinstance(n, ast.Name) and n.id == name and isinstance(n.ctx, ast.Load))
                if loads == 1 and sinkable(prev, name):
                    rewrite(prev, name)
                    body.pop()
                    changed = True


class _SplitTupleAssign(ast.NodeTransformer):
    """`a, b = x, y` is `a = x; b = y` when no target is read on the right (not a swap): the rules look at one store at a
    time.  Name targets with arbitrary right-hand sides (evaluation order is kept); self.<attr> targets only with plain
    names / literals on the right."""

    def visit_Return(self, n):
        self.generic_visit(n)
        # `return a if c else b` is `if c: return a  else: return b`
        if isinstance(n.value, ast.IfExp):
            a = self.visit_Return(ast.copy_location(ast.Return(value=n.value.body), n))
            b = self.visit_Return(ast.copy_location(ast.Return(value=n.value.orelse), n))
            return ast.copy_location(ast.If(test=n.value.test, body=[a], orelse=[b]), n)
        return n

    def visit_Assign(self, n):
        self.generic_visit(n)
        # `a, b = (f(v) for v in E)`: E evaluated once, then `a = f(E[0])`, `b = f(E[1])` (the element expression must be a
        # plain expression of the loop variable; a wrong length fails in both spellings)
        if len(n.targets) == 1 and isinstance(n.targets[0], (ast.Tuple, ast.List)) and isinstance(n.value, (ast.GeneratorExp, ast.ListComp)) \
                and len(n.value.generators) == 1 and not n.value.generators[0].ifs and isinstance(n.value.generators[0].target, ast.Name) \
                and all(isinstance(t, ast.Name) for t in n.targets[0].elts) and 2 <= len(n.targets[0].elts) <= 4 \
                and not any(isinstance(x, (ast.Lambda, ast.NamedExpr, ast.GeneratorExp, ast.ListComp)) for x in ast.walk(n.value.elt)):
            import copy as _c
            g = n.value.generators[0]
            tmp = f"__gen{getattr(n, 'lineno', 0)}_{n.targets[0].elts[0].id}"
            out = [ast.copy_location(ast.Assign(targets=[ast.Name(id=tmp, ctx=ast.Store())], value=g.iter), n)]
            for i_, t in enumerate(n.targets[0].elts):
                class S(ast.NodeTransformer):
                    def visit_Name(self, x):
                        if x.id == g.target.id and isinstance(x.ctx, ast.Load):
                            return ast.copy_location(ast.Subscript(value=ast.Name(id=tmp, ctx=ast.Load()), slice=ast.Constant(value=i_), ctx=ast.Load()), x)
                        return x
                out.append(ast.copy_location(ast.Assign(targets=[t], value=S().visit(_c.deepcopy(n.value.elt))), n))
            return out
        # `a, b, c = map(f, (x, y, z))` is `a = f(x); b = f(y); c = f(z)` (map applies f in order while unpacking)
        if len(n.targets) == 1 and isinstance(n.targets[0], (ast.Tuple, ast.List)) and isinstance(n.value, ast.Call) and isinstance(n.value.func, ast.Name) \
                and n.value.func.id == "map" and len(n.value.args) == 2 and not n.value.keywords and isinstance(n.value.args[1], (ast.Tuple, ast.List)) \
                and len(n.value.args[1].elts) == len(n.targets[0].elts) and isinstance(n.value.args[0], (ast.Name, ast.Attribute)) \
                and not any(isinstance(t, ast.Starred) for t in n.targets[0].elts + n.value.args[1].elts):
            import copy as _c
            tnames = {t.id for t in n.targets[0].elts if isinstance(t, ast.Name)}
            reads = {x.id for e in n.value.args[1].elts for x in ast.walk(e) if isinstance(x, ast.Name)} | {x.id for x in ast.walk(n.value.args[0]) if isinstance(x, ast.Name)}
            if len(tnames) == len(n.targets[0].elts) and not (tnames & reads):
                return [ast.copy_location(ast.Assign(targets=[t], value=ast.Call(func=_c.deepcopy(n.value.args[0]), args=[e], keywords=[])), n)
                        for t, e in zip(n.targets[0].elts, n.value.args[1].elts)]
        # `a, b = np.split(X, [k])` is `a = X[:k]; b = X[k:]` (views of X, as np.split hands out)
        if len(n.targets) == 1 and isinstance(n.targets[0], (ast.Tuple, ast.List)) and isinstance(n.value, ast.Call) and isinstance(n.value.func, ast.Attribute) \
                and n.value.func.attr == "split" and isinstance(n.value.func.value, ast.Name) and n.value.func.value.id in ("np", "numpy") \
                and len(n.value.args) == 2 and not n.value.keywords and isinstance(n.value.args[1], (ast.List, ast.Tuple)) \
                and len(n.value.args[1].elts) + 1 == len(n.targets[0].elts) and all(isinstance(t, ast.Name) for t in n.targets[0].elts) \
                and all(isinstance(k, (ast.Name, ast.Constant)) for k in n.value.args[1].elts):
            import copy as _c
            src = n.value.args[0]
            out = []
            if not isinstance(src, ast.Name):
                tmp = f"__split{getattr(n, 'lineno', 0)}"
                out.append(ast.copy_location(ast.Assign(targets=[ast.Name(id=tmp, ctx=ast.Store())], value=src), n))
                src = ast.Name(id=tmp, ctx=ast.Load())
            cuts = [None] + list(n.value.args[1].elts) + [None]
            if not ({t.id for t in n.targets[0].elts} & ({src.id} | {k.id for k in n.value.args[1].elts if isinstance(k, ast.Name)})):
                for i_, t in enumerate(n.targets[0].elts):
                    sl = ast.Slice(lower=_c.deepcopy(cuts[i_]) if cuts[i_] is not None else None, upper=_c.deepcopy(cuts[i_ + 1]) if cuts[i_ + 1] is not None else None, step=None)
                    out.append(ast.copy_location(ast.Assign(targets=[t], value=ast.Subscript(value=_c.deepcopy(src), slice=sl, ctx=ast.Load())), n))
                return out
        # `a, b = (x, y) if c else (u, v)` is `if c: a, b = x, y  else: a, b = u, v`
        if len(n.targets) == 1 and isinstance(n.targets[0], (ast.Tuple, ast.List)) and isinstance(n.value, ast.IfExp) \
                and isinstance(n.value.body, (ast.Tuple, ast.List)) and isinstance(n.value.orelse, (ast.Tuple, ast.List)):
            import copy as _c
            a = ast.copy_location(ast.Assign(targets=[_c.deepcopy(n.targets[0])], value=n.value.body), n)
            b = ast.copy_location(ast.Assign(targets=[_c.deepcopy(n.targets[0])], value=n.value.orelse), n)
            ra, rb = self.visit_Assign(a), self.visit_Assign(b)
            return ast.copy_location(ast.If(test=n.value.test, body=ra if isinstance(ra, list) else [ra], orelse=rb if isinstance(rb, list) else [rb]), n)
        if len(n.targets) != 1 or not isinstance(n.targets[0], (ast.Tuple, ast.List)) or not isinstance(n.value, (ast.Tuple, ast.List)):
            return n
        ts, vs = n.targets[0].elts, n.value.elts
        if len(ts) != len(vs) or len(ts) < 2 or any(isinstance(e, ast.Starred) for e in list(ts) + list(vs)):
            return n
        def _nested_names(t):
            return isinstance(t, (ast.Tuple, ast.List)) and all(isinstance(e, ast.Name) for e in t.elts)
        if any(_nested_names(t) for t in ts) and all(isinstance(t, ast.Name) or _nested_names(t) for t in ts):
            # `(a, b), c = p, q` with nested name patterns: one store per element, the nested ones split further if they can be
            flat = [e.id for t in ts for e in (t.elts if _nested_names(t) else [t])]
            if len(set(flat)) == len(flat):
                def tn(t):
                    return {e.id for e in (t.elts if _nested_names(t) else [t])}
                if not any(isinstance(k, ast.Name) and k.id in tn(t) for i_, t in enumerate(ts) for v in vs[i_ + 1:] for k in ast.walk(v)):
                    out = []
                    for t, v in zip(ts, vs):
                        r = self.visit_Assign(ast.copy_location(ast.Assign(targets=[t], value=v), n))
                        out += r if isinstance(r, list) else [r]
                    return out
            return n
        names_ok = all(isinstance(t, ast.Name) for t in ts)
        attrs_ok = all(isinstance(t, ast.Name) or (isinstance(t, ast.Attribute) and isinstance(t.value, ast.Name) and t.value.id == "self") for t in ts) \
            and (all(isinstance(v, (ast.Name, ast.Constant)) for v in vs) or not any(isinstance(k, ast.Name) and k.id == "self" for v in vs for k in ast.walk(v)))
        if not (names_ok or attrs_ok):
            return n
        tnames = {t.id for t in ts if isinstance(t, ast.Name)}
        if len(tnames) != sum(1 for t in ts if isinstance(t, ast.Name)):
            return n
        # sequential stores evaluate element j after targets 0..j-1 were bound: a target must not be read by a LATER element
        # (`x, y = f(x), g(y)` is fine, a swap `a, b = b, a` is not)
        for i_, t in enumerate(ts):
            if isinstance(t, ast.Name) and any(isinstance(k, ast.Name) and k.id == t.id for v in vs[i_ + 1:] for k in ast.walk(v)):
                return n
        return [ast.copy_location(ast.Assign(targets=[t], value=v), n) for t, v in zip(ts, vs)]


_CACHE_DIR = None
_CACHE_SALT = None


def _cache_dir():
    global _CACHE_DIR, _CACHE_SALT
    if _CACHE_DIR is None:
        import tempfile
        base = "/dev/shm" if os.path.isdir("/dev/shm") and os.access("/dev/shm", os.W_OK) else tempfile.gettempdir()
        _CACHE_DIR = os.path.join(base, "pgfstatic-cache")
        try:
            os.makedirs(_CACHE_DIR, exist_ok=True)
        except OSError:
            _CACHE_DIR = ""
        with open(os.path.abspath(__file__), "rb") as f:
            _CACHE_SALT = hashlib.sha256(f.read() + sys.version.encode()).hexdigest()
    return _CACHE_DIR


def _cache_get(src: str):
    if os.environ.get("PGF_NO_CACHE"):
        return None
    d = _cache_dir()
    if not d:
        return None
    import pickle
    p = os.path.join(d, hashlib.sha256((_CACHE_SALT + src).encode()).hexdigest() + ".pkl")
    try:
        with open(p, "rb") as f:
            return pickle.load(f)
    except Exception:
        return None


def _cache_put(src: str, tree) -> None:
    if os.environ.get("PGF_NO_CACHE"):
        return
    d = _cache_dir()
    if not d:
        return
    import pickle
    p = os.path.join(d, hashlib.sha256((_CACHE_SALT + src).encode()).hexdigest() + ".pkl")
    try:
        tmp = p + f".{os.getpid()}.tmp"
        with open(tmp, "wb") as f:
            pickle.dump(tree, f, protocol=pickle.HIGHEST_PROTOCOL)
        os.replace(tmp, p)
    except Exception:
        pass


class Program:
    def __init__(self, repo: str = REPO):
        self.repo = repo
        self.modules: Dict[str, Module] = {}
        self.classes: Dict[str, ClassInfo] = {}
        self.functions: Dict[str, FuncInfo] = {}
        self._by_node: Dict[int, FuncInfo] = {}
        self._load()
        self._link()
        self._attr_type_cache: Dict[Tuple[str, str], Set[ClassInfo]] = {}
        self._attr_busy: Set[Tuple[str, str]] = set()
        # code moved into helpers that did not exist in the pinned tree is analysed where it came from
        from .inline import Inliner
        self._devirtualise_cls()
        self._push_down_pulled_up()
        self.inliner = Inliner(self)
        self.inliner.run()
        if not os.environ.get("PGF_NO_CALL_STYLES"):
            self._respell_calls()

    def _respell_calls(self) -> None:
        """keyword <-> positional churn: calls to repository functions are re-spelled the way the reference tree spells them
        (`call_styles.json`, written by tools/gen_call_styles.py from /repo: per callee the number of arguments every reference call
        site passes positionally).  `restore_sol(x=a, y=b, d=c)` is `restore_sol(a, b, c)`; `SolverResult(p, x, y, d, s, n)` gets
        its sixth argument back as `iterations=n`.  Nothing is evaluated in another order: Python evaluates positional arguments
        before keyword arguments, so a call is only re-spelled when its arguments are side-effect free names / attributes /
        constants / subscripts, or when their relative order does not change."""
        import json as _json
        path = os.path.join(os.path.dirname(os.path.abspath(__file__)), "call_styles.json")
        try:
            styles = _json.load(open(path))
        except Exception:
            return
        for fi in list(self.functions.values()):
            if getattr(fi, "absorbed", False):
                continue
            for c in list(own_nodes(fi.node)):
                if not isinstance(c, ast.Call) or any(isinstance(a, ast.Starred) for a in c.args) or any(k.arg is None for k in c.keywords):
                    continue
                tg = []
                for t in self.resolve_call_target(fi, c):
                    if isinstance(t, ClassInfo):
                        m = self.lookup_method(t, "__init__")
                        if m is not None and m.module.name.startswith(PKG):
                            tg.append(m)
                    elif isinstance(t, FuncInfo):
                        tg.append(t)
                if not tg:
                    continue
                # a keyword that spells out the callee's own default (`format=None`, `copy=True`) says nothing: dropped when every
                # possible callee has that constant as the parameter's default
                def _default_of(t, name):
                    a_ = t.node.args
                    pos = a_.posonlyargs + a_.args
                    for p_, d_ in zip(pos[len(pos) - len(a_.defaults):], a_.defaults):
                        if p_.arg == name:
                            return d_
                    for p_, d_ in zip(a_.kwonlyargs, a_.kw_defaults):
                        if p_.arg == name:
                            return d_
                    return None
                keep_kw = []
                for k in c.keywords:
                    ds = [_default_of(t, k.arg) for t in tg]
                    if isinstance(k.value, ast.Constant) and all(isinstance(d_, ast.Constant) and type(d_.value) is type(k.value.value) and d_.value == k.value.value for d_ in ds):
                        continue
                    keep_kw.append(k)
                if len(keep_kw) != len(c.keywords):
                    c.keywords = keep_kw
                sigs = {tuple(p for p in t.params if p not in ("self", "cls")) for t in tg}
                ns = {styles.get(t.qualname) for t in tg}
                if len(sigs) != 1 or len(ns) != 1 or None in ns:
                    continue
                names, n = list(sigs.pop()), ns.pop()
                if any(t.node.args.vararg or t.node.args.kwarg for t in tg):
                    continue
                if len(c.args) == n and all(k.arg not in names[:n] for k in c.keywords):
                    continue      # already in the reference spelling
                if len(c.args) > len(names) or any(k.arg not in names for k in c.keywords):
                    continue
                bound = {names[i]: a for i, a in enumerate(c.args)}
                clash = False
                for k in c.keywords:
                    if k.arg in bound:
                        clash = True
                    bound[k.arg] = k.value
                if clash or not all(nm in bound for nm in names[:n]):
                    continue
                old_order = [id(a) for a in c.args] + [id(k.value) for k in c.keywords]
                new_args = [bound[nm] for nm in names[:n]]
                new_kw = [(nm, bound[nm]) for nm in names[n:] if nm in bound]
                new_order = [id(a) for a in new_args] + [id(v) for _, v in new_kw]

                def pure(e):
                    return all(isinstance(x, (ast.Name, ast.Attribute, ast.Constant, ast.Subscript, ast.Load, ast.UnaryOp, ast.USub, ast.Tuple, ast.Slice)) for x in ast.walk(e))
                if old_order != new_order and not all(pure(bound[nm]) for nm in bound):
                    continue
                c.args = new_args
                c.keywords = [ast.keyword(arg=nm, value=v) for nm, v in new_kw]
                ast.fix_missing_locations(c)

    def super_bases(self, fi) -> List["ClassInfo"]:
        """the classes `super()` inside fi searches, in order: the MRO of fi's class after the class the code was WRITTEN in (a
        pushed-down copy of a pulled-up method keeps the `super()` of the base it came from)"""
        c = self.enclosing_class(fi)
        if c is None:
            return []
        mro = self.mro(c)
        origin = getattr(fi, "super_origin", None)
        if origin is not None and origin in mro:
            return mro[mro.index(origin) + 1:]
        return mro[1:]

    def _devirtualise_cls(self) -> None:
        """inside a classmethod of a class without subclasses, `cls(..)` is the class itself (`StepControlResult.from_step_result`
        written with `cls(...)` constructs a StepControlResult)"""
        for ci in self.classes.values():
            if ci.subclasses:
                continue
            for m in ci.methods.values():
                if not any(d.split(".")[-1] == "classmethod" for d in getattr(m, "decorators", [])):
                    continue
                a = m.node.args.posonlyargs + m.node.args.args
                if not a or a[0].arg != "cls":
                    continue
                if any(isinstance(n, ast.Name) and n.id == "cls" and isinstance(n.ctx, ast.Store) for n in ast.walk(m.node)):
                    continue
                for n in ast.walk(m.node):
                    if isinstance(n, ast.Call) and isinstance(n.func, ast.Name) and n.func.id == "cls":
                        n.func = ast.copy_location(ast.Name(id=ci.name, ctx=ast.Load()), n.func)

    def _push_down_pulled_up(self) -> None:
        """pull-up refactorings: a method the pinned tree defined in class C that C now inherits from a base-class method which did
        not exist there (the identical bodies of several subclasses merged into a template method on the base, usually with hooks
        such as `self._bounds()`).  C gets its own copy again - specialised to C, so that the hooks dispatch uniquely - and the
        rules anchored at C.m read that."""
        import copy as _copy
        from .inline import known_functions
        known = known_functions()
        for ci in list(self.classes.values()):
            prefix = ci.qualname + "."
            for q in [q for q in known if q.startswith(prefix) and "." not in q[len(prefix):]]:
                name = q[len(prefix):]
                if name in ci.methods:
                    continue
                base_m = None
                for b in self.mro(ci)[1:]:
                    if name in b.methods:
                        base_m = b.methods[name]
                        break
                if base_m is None or base_m.qualname in known or self.is_stub(base_m):
                    continue
                # dunder methods other than the constructor stay where they are
                if name.startswith("__") and name != "__init__":
                    continue
                node = _copy.deepcopy(base_m.node)
                fi = FuncInfo(name, base_m.module, node, cls=ci, parent=None, decorators=self._decorators(node))
                fi.pushed_down_from = base_m.qualname
                fi.super_origin = base_m.cls      # `super()` in the copy still means "after the class this was written in"
                ci.methods[name] = fi
                self.functions[fi.qualname] = fi
                self._by_node[id(node)] = fi
                for sub in self._nested_defs(node):
                    self._index_stmt(base_m.module, sub, None, fi)

    # -- loading ----------------------------------------------------------
    def _load(self) -> None:
        root = os.path.join(self.repo, PKG)
        if not os.path.isdir(root):
            raise AnalysisError(f"package directory {root} not found")
        h = hashlib.sha256()
        for dirpath, dirnames, filenames in sorted(os.walk(root)):
            dirnames[:] = sorted(d for d in dirnames if d != "__pycache__")
            for fn in sorted(filenames):
                if not fn.endswith(".py"):
                    continue
                path = os.path.join(dirpath, fn)
                rel = os.path.relpath(path, self.repo)[:-3]
                name = rel.replace(os.sep, ".")
                if name.endswith(".__init__"):
                    name = name[: -len(".__init__")]
                with open(path, encoding="utf-8") as f:
                    src = f.read()
                h.update(path.encode())
                h.update(src.encode())
                # the normalised tree of a file depends only on its text and on this module: kept in a scratch cache (rebuilt when absent)
                tree = _cache_get(src)
                if tree is None:
                    try:
                        tree = ast.parse(src, filename=path)
                    except SyntaxError as e:
                        raise AnalysisError(f"cannot parse {path}: {e}")
                    _iter_while_to_for(tree)
                    _inline_branch_flags(tree)
                    _minmax_idiom(tree)
                    _split_star_unpack(tree)
                    _unroll_literal_loops(tree)
                    _getattr_const(tree)
                    _ufunc_compare(tree)
                    _split_star_unpack(tree)
                    tree = _SplitTupleAssign().visit(tree)
                    _splat_literal_dicts(tree)
                    _splat_literal_tuples(tree)
                    _count_loops(tree)
                    _sink_returns(tree)
                    _bounded_flag_while(tree)
                    _unflag_loops(tree)
                    _cache_put(src, tree)
                mod = Module(name, path, tree, src)
                mod.is_pkg = fn == "__init__.py"
                self.modules[name] = mod
        self.digest = h.hexdigest()
        _dissolve_namedtuples([m.tree for m in self.modules.values()])
        for mod in self.modules.values():
            _forward_constant_locals(mod.tree)
        for mod in self.modules.values():
            self._index_module(mod)

    def _index_module(self, mod: Module) -> None:
        pkg = mod.name if getattr(mod, "is_pkg", False) else mod.name.rsplit(".", 1)[0]
        for node in ast.walk(mod.tree):
            # imports anywhere (function-local imports are common in this repo)
            if isinstance(node, ast.Import):
                for a in node.names:
                    local = a.asname or a.name.split(".")[0]
                    target = a.name if a.asname else a.name.split(".")[0]
                    mod.imports.setdefault(local, (target, None))
            elif isinstance(node, ast.ImportFrom):
                base = node.module or ""
                if node.level:
                    parts = pkg.split(".")
                    if node.level > 1:
                        parts = parts[: -(node.level - 1)]
                    base = ".".join(parts + ([node.module] if node.module else []))
                for a in node.names:
                    mod.imports.setdefault(a.asname or a.name, (base, a.name))
        for node in mod.tree.body:
            self._index_stmt(mod, node, None, None)

    def _decorators(self, node) -> List[str]:
        out = []
        for d in getattr(node, "decorator_list", []):
            if isinstance(d, ast.Call):
                d = d.func
            out.append(dotted(d) or unparse(d))
        return out

    def _index_stmt(self, mod, node, cls, parent) -> None:
        if isinstance(node, (ast.FunctionDef, ast.AsyncFunctionDef)):
            fi = FuncInfo(node.name, mod, node, cls=cls if parent is None else None, parent=parent,
                          decorators=self._decorators(node))
            if parent is not None:
                parent.nested[node.name] = fi
                fi.cls = None
                fi.outer_cls = parent.cls or getattr(parent, "outer_cls", None)
            elif cls is not None:
                # property setter etc. share a name; keep the first (getter)
                cls.methods.setdefault(node.name, fi)
            else:
                mod.functions.setdefault(node.name, fi)
            self.functions[fi.qualname] = fi
            self._by_node[id(node)] = fi
            for sub in self._nested_defs(node):
                self._index_stmt(mod, sub, None, fi)
        elif isinstance(node, ast.ClassDef):
            if parent is not None:
                return  # local classes (yaml Dumper) are not modelled
            ci = ClassInfo(node.name, mod, node, base_exprs=list(node.bases))
            mod.classes[node.name] = ci
            self.classes[ci.qualname] = ci
            for sub in node.body:
                self._index_stmt(mod, sub, ci, None)
        elif isinstance(node, (ast.If, ast.Try)) and cls is None and parent is None:
            for sub in ast.iter_child_nodes(node):
                if isinstance(sub, ast.stmt):
                    self._index_stmt(mod, sub, cls, parent)

    @staticmethod
    def _nested_defs(fn_node) -> Iterator[ast.AST]:
        """function/class definitions directly nested in fn_node (not deeper)."""
        stack = list(fn_node.body)
        while stack:
            n = stack.pop()
            if isinstance(n, (ast.FunctionDef, ast.AsyncFunctionDef, ast.ClassDef)):
                yield n
                continue
            for c in ast.iter_child_nodes(n):
                if isinstance(c, (ast.stmt, ast.excepthandler)) or isinstance(c, ast.match_case if hasattr(ast, "match_case") else ()):
                    stack.append(c)

    def _link(self) -> None:
        for ci in self.classes.values():
            for b in ci.base_exprs:
                tgt = self.resolve_expr_static(ci.module, b)
                if isinstance(tgt, ClassInfo):
                    ci.bases.append(tgt)
                    tgt.subclasses.append(ci)
                else:
                    ci.ext_bases.append(dotted(b) or unparse(b))

    # -- lookups ----------------------------------------------------------
    def module(self, name: str) -> Module:
        m = self.modules.get(name)
        if m is None:
            raise AnalysisError(f"anchor module {name} has vanished")
        return m

    def cls(self, qualname: str) -> ClassInfo:
        c = self.classes.get(qualname)
        if c is None:
            raise AnalysisError(f"anchor class {qualname} has vanished")
        return c

    def func(self, qualname: str) -> FuncInfo:
        f = self.functions.get(qualname)
        if f is None:
            raise AnalysisError(f"anchor function {qualname} has vanished")
        return f

    def func_of_node(self, node: ast.AST) -> Optional[FuncInfo]:
        return self._by_node.get(id(node))

    def resolve_symbol(self, mod: Module, name: str, _depth: int = 0):
        """module-level name -> FuncInfo | ClassInfo | Module | None"""
        if _depth > 8:
            return None
        if name in mod.functions:
            return mod.functions[name]
        if name in mod.classes:
            return mod.classes[name]
        if name in mod.imports:
            tmod, sym = mod.imports[name]
            if sym is None:
                return self.modules.get(tmod)
            full = f"{tmod}.{sym}"
            m2 = self.modules.get(tmod)
            if m2 is not None:
                # a name bound in the package's __init__ shadows a submodule of the same name
                r = self.resolve_symbol(m2, sym, _depth + 1)
                if r is not None and not (isinstance(r, Module) and r.name == full and (sym in m2.functions or sym in m2.classes)):
                    if isinstance(r, Module) and (sym in m2.functions):
                        return m2.functions[sym]
                    return r
            if full in self.modules:
                return self.modules[full]
        return None

    def resolve_expr_static(self, mod: Module, expr: ast.AST):
        """Name / dotted attribute -> repo object, ignoring local variables."""
        if isinstance(expr, ast.Name):
            return self.resolve_symbol(mod, expr.id)
        if isinstance(expr, ast.Attribute):
            base = self.resolve_expr_static(mod, expr.value)
            if isinstance(base, Module):
                return self.resolve_symbol(base, expr.attr)
            if isinstance(base, ClassInfo):
                return self.lookup_method(base, expr.attr)
        return None

    def mro(self, ci: ClassInfo) -> List[ClassInfo]:
        out: List[ClassInfo] = []

        def visit(c):
            if c in out:
                return
            out.append(c)
            for b in c.bases:
                visit(b)

        visit(ci)
        return out

    def all_subclasses(self, ci: ClassInfo, include_self=True) -> List[ClassInfo]:
        out = [ci] if include_self else []
        for s in ci.subclasses:
            for x in self.all_subclasses(s):
                if x not in out:
                    out.append(x)
        return out

    def lookup_method(self, ci: ClassInfo, name: str) -> Optional[FuncInfo]:
        for c in self.mro(ci):
            if name in c.methods:
                return c.methods[name]
        return None

    def is_subclass(self, ci: ClassInfo, base: ClassInfo) -> bool:
        return base in self.mro(ci)

    # Out of scope (DESIGN.md section 1): benchmark drivers and the two controllers that
    # need cyipopt (not installed; their tests are in BASELINE.always_fail).  They are
    # parsed, but dynamic dispatch never selects their classes.
    OUT_OF_SCOPE = ("pygradflow.runners", "pygradflow.step.opti_control", "pygradflow.step.box_control",
                    "pygradflow.step.box_solver")

    def in_scope(self, obj) -> bool:
        if getattr(obj, "absorbed", False):
            return False  # a new helper whose body was expanded into all of its callers (inline.py)
        name = obj.module.name if hasattr(obj, "module") else obj.name
        return not any(name == p or name.startswith(p + ".") for p in self.OUT_OF_SCOPE)

    def dispatch(self, ci: ClassInfo, name: str) -> List[FuncInfo]:
        """all implementations `obj.name` may run when obj's static type is ci."""
        out: List[FuncInfo] = []
        m = self.lookup_method(ci, name)
        if m is not None:
            out.append(m)
        for s in self.all_subclasses(ci, include_self=False):
            if not self.in_scope(s):
                continue
            if name in s.methods and s.methods[name] not in out:
                out.append(s.methods[name])
        concrete = [f for f in out if not self.is_stub(f)]
        if concrete:
            # an abstract stub cannot be the run-time target when overrides exist
            # (abc refuses to instantiate the base; the factories build only subclasses)
            return concrete
        return out

    @staticmethod
    def is_stub(fi: FuncInfo) -> bool:
        body = [b for b in fi.node.body if not (isinstance(b, ast.Expr) and isinstance(b.value, ast.Constant))]
        if len(body) == 1 and isinstance(body[0], ast.Raise):
            e = body[0].exc
            if isinstance(e, ast.Call):
                e = e.func
            return isinstance(e, ast.Name) and e.id == "NotImplementedError"
        return fi.is_abstract and not body

    def enclosing_class(self, fi: FuncInfo) -> Optional[ClassInfo]:
        while fi is not None:
            if fi.cls is not None:
                return fi.cls
            fi = fi.parent
        return None

    # -- light type inference ---------------------------------------------
    def annotation_types(self, mod: Module, ann: Optional[ast.AST]) -> Set[ClassInfo]:
        out: Set[ClassInfo] = set()
        if ann is None:
            return out
        if isinstance(ann, ast.Constant) and isinstance(ann.value, str):
            try:
                ann = ast.parse(ann.value, mode="eval").body
            except SyntaxError:
                return out
        def visit(n):
            if isinstance(n, ast.Subscript):
                base = dotted(n.value) or ""
                if base.split(".")[-1] in ("Optional", "Union", "Final", "ClassVar", "Annotated"):
                    for e in (n.slice.elts if isinstance(n.slice, ast.Tuple) else [n.slice]):
                        visit(e)
                else:
                    # a container / callable type: the value is the container, not what it holds (`Dict[bytes, Tuple[M, Solver]]` is
                    # not a Solver); a generic class of this package is that class
                    visit(n.value)
                return
            if isinstance(n, ast.BinOp) and isinstance(n.op, ast.BitOr):
                visit(n.left)
                visit(n.right)
                return
            if isinstance(n, (ast.Name, ast.Attribute)):
                t = self.resolve_expr_static(mod, n)
                if isinstance(t, ClassInfo):
                    out.add(t)
            elif isinstance(n, ast.Constant) and isinstance(n.value, str):
                try:
                    visit(ast.parse(n.value, mode="eval").body)
                except SyntaxError:
                    pass
        visit(ann)
        return out

    def local_assignments(self, fi: FuncInfo) -> Dict[str, List[ast.AST]]:
        cache = getattr(fi, "_assigns", None)
        if cache is not None:
            return cache
        out: Dict[str, List[ast.AST]] = {}

        def add_target(t, value):
            if isinstance(t, ast.Name):
                out.setdefault(t.id, []).append(value)
            elif isinstance(t, (ast.Tuple, ast.List)):
                if isinstance(value, (ast.Tuple, ast.List)) and len(value.elts) == len(t.elts):
                    for a, b in zip(t.elts, value.elts):
                        add_target(a, b)
                else:
                    for k, a in enumerate(t.elts):
                        add_target(a, ast.Subscript(value=value, slice=ast.Constant(k), ctx=ast.Load()))

        for n in own_nodes(fi.node):
            if isinstance(n, ast.Assign):
                for t in n.targets:
                    add_target(t, n.value)
            elif isinstance(n, ast.AnnAssign) and n.value is not None:
                add_target(n.target, n.value)
            elif isinstance(n, ast.NamedExpr):
                add_target(n.target, n.value)
            elif isinstance(n, ast.For):
                add_target(n.target, ast.Call(func=ast.Name("__iter_elem__", ast.Load()), args=[n.iter], keywords=[]))
            elif isinstance(n, ast.With):
                for it in n.items:
                    if it.optional_vars is not None:
                        add_target(it.optional_vars, it.context_expr)
        fi._assigns = out
        return out

    def infer_type(self, fi: FuncInfo, expr: ast.AST, _depth: int = 0) -> Set[ClassInfo]:
        """repo classes the value of expr may be an instance of (empty = unknown)."""
        if _depth > 6:
            return set()
        mod = fi.module
        if isinstance(expr, ast.Name):
            if expr.id == "self":
                c = self.enclosing_class(fi) or getattr(fi, "outer_cls", None)
                return {c} if c else set()
            # parameter annotation
            f = fi
            while f is not None:
                a = f.node.args
                for arg in a.posonlyargs + a.args + a.kwonlyargs:
                    if arg.arg == expr.id and arg.annotation is not None:
                        return self.annotation_types(mod, arg.annotation)
                assigns = self.local_assignments(f).get(expr.id)
                if assigns:
                    out: Set[ClassInfo] = set()
                    for v in assigns:
                        out |= self.infer_type(f, v, _depth + 1)
                    # annotated locals
                    return out
                if expr.id in f.params:
                    return self._convention_type(expr.id)
                f = f.parent
            return self._convention_type(expr.id)
        if isinstance(expr, ast.Call):
            tgt = self.resolve_call_target(fi, expr, _depth + 1)
            out = set()
            for t in tgt:
                if isinstance(t, ClassInfo):
                    out.add(t)
                elif isinstance(t, FuncInfo):
                    if t.name == "__init__" and t.cls is not None:
                        continue
                    out |= self.annotation_types(t.module, getattr(t.node, "returns", None))
                    if not getattr(t.node, "returns", None):
                        out |= self._return_types(t, _depth + 1)
            # constructor calls resolve to the class itself
            f = expr.func
            c = None
            if isinstance(f, (ast.Name, ast.Attribute)):
                c = self._resolve_callable_static(fi, f)
            if isinstance(c, ClassInfo):
                out.add(c)
            return out
        if isinstance(expr, ast.Attribute):
            base_types = self.infer_type(fi, expr.value, _depth + 1)
            out = set()
            for bt in base_types:
                out |= self.attr_types(bt, expr.attr)
            return out
        if isinstance(expr, ast.IfExp):
            return self.infer_type(fi, expr.body, _depth + 1) | self.infer_type(fi, expr.orelse, _depth + 1)
        if isinstance(expr, ast.BoolOp):
            out = set()
            for v in expr.values:
                out |= self.infer_type(fi, v, _depth + 1)
            return out
        return set()

    # Repository naming conventions for *unannotated* parameters / locals, confirmed by
    # reading every function that uses these names (see DESIGN.md, E1).  Used only when
    # annotations and constructor assignments give nothing.
    NAME_TYPES = {
        "iterate": "pygradflow.iterate.Iterate",
        "next_iterate": "pygradflow.iterate.Iterate",
        "prev_iterate": "pygradflow.iterate.Iterate",
        "orig_iterate": "pygradflow.iterate.Iterate",
        "curr_iterate": "pygradflow.iterate.Iterate",
        "initial_iterate": "pygradflow.iterate.Iterate",
        "mid_iterate": "pygradflow.iterate.Iterate",
        "curr_it": "pygradflow.iterate.Iterate",
        "iterate_event": "pygradflow.iterate.Iterate",
        "problem": "pygradflow.problem.Problem",
        "orig_problem": "pygradflow.problem.Problem",
        "timer": "pygradflow.timer.Timer",
        "eval": "pygradflow.eval.Evaluator",
        "evaluator": "pygradflow.eval.Evaluator",
        "params": "pygradflow.params.Params",
        "flow": "pygradflow.integration.flow.Flow",
        "restricted_flow": "pygradflow.integration.restricted_flow.RestrictedFlow",
        "scaling": "pygradflow.scale.Scaling",
        "controller": "pygradflow.step.step_control.StepController",
    }

    def _convention_type(self, name: str) -> Set[ClassInfo]:
        q = self.NAME_TYPES.get(name)
        if q and q in self.classes:
            return {self.classes[q]}
        return set()

    def _return_types(self, fi: FuncInfo, _depth: int) -> Set[ClassInfo]:
        out: Set[ClassInfo] = set()
        if _depth > 6:
            return out
        for n in own_nodes(fi.node):
            if isinstance(n, ast.Return) and n.value is not None:
                out |= self.infer_type(fi, n.value, _depth + 1)
        return out

    def attr_types(self, ci: ClassInfo, attr: str) -> Set[ClassInfo]:
        key = (ci.qualname, attr)
        if key in self._attr_type_cache:
            return self._attr_type_cache[key]
        if key in self._attr_busy:
            return set()
        self._attr_busy.add(key)
        out: Set[ClassInfo] = set()
        try:
            for c in self.mro(ci) + self.all_subclasses(ci, include_self=False):
                m = c.methods.get(attr)
                if m is not None and m.is_property:
                    out |= self.annotation_types(m.module, m.node.returns)
                    if not m.node.returns:
                        out |= self._return_types(m, 1)
                for meth in c.methods.values():
                    for n in own_nodes(meth.node):
                        tgt = val = ann = None
                        if isinstance(n, ast.Assign):
                            for t in n.targets:
                                if isinstance(t, ast.Attribute) and isinstance(t.value, ast.Name) and t.value.id == "self" and t.attr == attr:
                                    tgt, val = t, n.value
                        elif isinstance(n, ast.AnnAssign):
                            t = n.target
                            if isinstance(t, ast.Attribute) and isinstance(t.value, ast.Name) and t.value.id == "self" and t.attr == attr:
                                tgt, val, ann = t, n.value, n.annotation
                        if tgt is None:
                            continue
                        if ann is not None:
                            out |= self.annotation_types(meth.module, ann)
                        if val is not None:
                            out |= self.infer_type(meth, val, 1)
        finally:
            self._attr_busy.discard(key)
        self._attr_type_cache[key] = out
        return out

    # -- call resolution ----------------------------------------------------
    def _resolve_callable_static(self, fi: FuncInfo, f: ast.AST):
        """callee expression -> FuncInfo | ClassInfo | None without receiver typing."""
        if isinstance(f, ast.Name):
            g = fi
            while g is not None:
                if f.id in g.nested:
                    return g.nested[f.id]
                g = g.parent
            return self.resolve_symbol(fi.module, f.id)
        if isinstance(f, ast.Attribute):
            base = self.resolve_expr_static(fi.module, f.value)
            if isinstance(base, Module):
                return self.resolve_symbol(base, f.attr)
            if isinstance(base, ClassInfo):
                return self.lookup_method(base, f.attr)
        return None

    def resolve_call_target(self, fi: FuncInfo, call: ast.Call, _depth: int = 0) -> List[object]:
        """possible repo callees of a call: FuncInfo (for classes: the class AND its
        __init__ are both reported: [ClassInfo, FuncInfo(__init__)...])."""
        f = call.func
        out: List[object] = []

        def add(x):
            if x is not None and x not in out:
                out.append(x)

        # super().m(...)
        if isinstance(f, ast.Attribute) and isinstance(f.value, ast.Call) and isinstance(f.value.func, ast.Name) and f.value.func.id == "super":
            for b in self.super_bases(fi):
                if f.attr in b.methods:
                    add(b.methods[f.attr])
                    break
            return out
        static = self._resolve_callable_static(fi, f)
        if isinstance(static, ClassInfo):
            add(static)
            init = self.lookup_method(static, "__init__")
            add(init)
            return out
        if isinstance(static, FuncInfo):
            add(static)
            return out
        if isinstance(f, ast.Attribute):
            # a local variable / parameter shadowing a module name is handled by infer_type
            types = self.infer_type(fi, f.value, _depth + 1)
            for t in types:
                for m in self.dispatch(t, f.attr):
                    add(m)
                # callable attribute holding a function object (self.res_func = res_func)
            if not out and types:
                for t in types:
                    for v in self.attr_values(t, f.attr):
                        tgt = None
                        if isinstance(v[1], (ast.Name, ast.Attribute)):
                            tgt = self._resolve_callable_static(v[0], v[1])
                        if isinstance(tgt, FuncInfo):
                            add(tgt)
        elif isinstance(f, ast.Name):
            # local variable bound to a function / generator etc.
            g = fi
            while g is not None:
                for v in self.local_assignments(g).get(f.id, []):
                    if isinstance(v, (ast.Name, ast.Attribute)):
                        tgt = self._resolve_callable_static(g, v)
                        if isinstance(tgt, (FuncInfo,)):
                            add(tgt)
                        elif isinstance(tgt, ClassInfo):
                            add(tgt)
                            add(self.lookup_method(tgt, "__init__"))
                    elif isinstance(v, ast.Call):
                        # x = factory(...); x(...)  -> __call__ of the produced types
                        for t in self.infer_type(g, v, _depth + 1):
                            for m in self.dispatch(t, "__call__"):
                                add(m)
                g = g.parent
            if not out:
                for t in self.infer_type(fi, f, _depth + 1):
                    for m in self.dispatch(t, "__call__"):
                        add(m)
        return out

    def attr_values(self, ci: ClassInfo, attr: str) -> List[Tuple[FuncInfo, ast.AST]]:
        """(method, value expr) for every `self.attr = value` in ci's hierarchy."""
        out = []
        for c in self.mro(ci) + self.all_subclasses(ci, include_self=False):
            for meth in c.methods.values():
                for n in own_nodes(meth.node):
                    if isinstance(n, ast.Assign):
                        for t in n.targets:
                            if isinstance(t, ast.Attribute) and isinstance(t.value, ast.Name) and t.value.id == "self" and t.attr == attr:
                                out.append((meth, n.value))
                    elif isinstance(n, ast.AnnAssign) and n.value is not None:
                        t = n.target
                        if isinstance(t, ast.Attribute) and isinstance(t.value, ast.Name) and t.value.id == "self" and t.attr == attr:
                            out.append((meth, n.value))
        return out

    def cha_by_name(self, name: str) -> List[FuncInfo]:
        """fallback for receivers without type information: the implementations of a
        method name that belongs to exactly ONE class hierarchy of the repo; a name
        defined in unrelated hierarchies (solve, step, update, ...) is left
        unresolved and counted as such."""
        owners = [c for c in self.classes.values() if name in c.methods and self.in_scope(c)]
        if not owners or name.startswith("__"):
            return []
        roots = set()
        for c in owners:
            r = c
            m = self.mro(c)
            for b in m:
                if name in b.methods:
                    r = b
            roots.add(r.qualname)
        if len(roots) != 1:
            return []
        out = [c.methods[name] for c in owners]
        concrete = [f for f in out if not self.is_stub(f)]
        return concrete or out

    # -- attribute access implicit calls (properties) -----------------------
    def property_targets(self, fi: FuncInfo, attr: ast.Attribute) -> List[FuncInfo]:
        out = []
        for t in self.infer_type(fi, attr.value):
            for m in self.dispatch(t, attr.attr):
                if m.is_property and m not in out:
                    out.append(m)
        return out

    # -- iteration helpers --------------------------------------------------
    def iter_functions(self, prefix: str = PKG) -> Iterator[FuncInfo]:
        for q, f in self.functions.items():
            if q.startswith(prefix) and not getattr(f, "absorbed", False):
                yield f


_OWN_CACHE: Dict[int, Tuple[ast.AST, List[ast.AST]]] = {}


def own_nodes(fn_node: ast.AST) -> List[ast.AST]:
    """all nodes of a function body, not descending into nested defs/classes/lambdas'
    own scopes (nested function *definitions* are yielded but not entered).  Memoised per node object (the trees of a
    Program are not edited after the inline pre-pass; the cache entry keeps the node alive so ids cannot be reused)."""
    hit = _OWN_CACHE.get(id(fn_node))
    if hit is not None and hit[0] is fn_node:
        return hit[1]
    body = fn_node.body if isinstance(fn_node.body, list) else [fn_node.body]
    stack = list(reversed(body))
    out: List[ast.AST] = []
    # also default values / decorators are outside the body; skip
    while stack:
        n = stack.pop()
        out.append(n)
        if isinstance(n, (ast.FunctionDef, ast.AsyncFunctionDef, ast.ClassDef, ast.Lambda)):
            continue
        stack.extend(reversed(list(ast.iter_child_nodes(n))))
    _OWN_CACHE[id(fn_node)] = (fn_node, out)
    return out


def calls_in(fn_node: ast.AST) -> Iterator[ast.Call]:
    for n in own_nodes(fn_node):
        if isinstance(n, ast.Call):
            yield n


_PROGRAM: Optional[Program] = None


def program() -> Program:
    global _PROGRAM
    if _PROGRAM is None:
        _PROGRAM = Program()
    return _PROGRAM
