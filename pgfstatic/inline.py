"""Inline expansion of helpers that did not exist in the pinned tree.

The rules are anchored in the functions of the pinned tree (`known_functions.txt`).  When a later
edit moves a block of such a function into a *new* private helper (extract-method) - a behaviour-
preserving refactoring - the rules would lose sight of it.  This pre-pass macro-expands calls to
unknown repo functions back into their callers, so that moved code is analysed where it came from:

  * statement position  (`self._h(a)`, `t = self._h(a)`, `return self._h(a)`) for helpers whose
    body is straight-line with at most one `return` at the very end;
  * expression position for helpers whose body is local assignments followed by `return e`
    or `if c: return a` / `return b` (becomes a conditional expression).

Parameters are substituted (pure arguments) or bound to fresh temporaries; the helper's locals
are renamed apart.  Anything else stays a call (and is analysed as a call).  Only callees that are
resolved *statically and uniquely* (module function, `self.` method that no subclass overrides,
`Class.` static method) are expanded; recursion depth is bounded.
"""
from __future__ import annotations

import ast
import copy
import os
from typing import Dict, List, Optional, Set, Tuple


def dotted(e) -> Optional[str]:
    from .model import dotted as _d
    return _d(e)

_KNOWN: Optional[Set[str]] = None


def known_functions() -> Set[str]:
    global _KNOWN
    if _KNOWN is None:
        p = os.path.join(os.path.dirname(os.path.abspath(__file__)), "known_functions.txt")
        with open(p) as fh:
            _KNOWN = {l.strip() for l in fh if l.strip()}
    return _KNOWN


class _Rename(ast.NodeTransformer):
    def __init__(self, mapping: Dict[str, ast.AST]):
        self.mapping = mapping

    def visit_Name(self, node: ast.Name):
        if node.id in self.mapping:
            rep = self.mapping[node.id]
            if isinstance(rep, str):
                return ast.copy_location(ast.Name(id=rep, ctx=node.ctx), node)
            if isinstance(node.ctx, ast.Load):
                return ast.copy_location(copy.deepcopy(rep), node)
        return node

    def visit_FunctionDef(self, node):
        # a nested def: its name is a local of the helper (renamed apart); inside, only FREE names are substituted
        own = {a.arg for a in node.args.posonlyargs + node.args.args + node.args.kwonlyargs}
        if node.args.vararg:
            own.add(node.args.vararg.arg)
        if node.args.kwarg:
            own.add(node.args.kwarg.arg)
        own |= _assigned(node.body)
        inner = _Rename({k: v for k, v in self.mapping.items() if k not in own})
        node.body = [inner.visit(st) for st in node.body]
        node.args.defaults = [self.visit(d) for d in node.args.defaults]
        new_name = self.mapping.get(node.name)
        if isinstance(new_name, str):
            node.name = new_name
        return node

    def visit_Lambda(self, node):
        own = {a.arg for a in node.args.posonlyargs + node.args.args + node.args.kwonlyargs}
        inner = _Rename({k: v for k, v in self.mapping.items() if k not in own})
        node.body = inner.visit(node.body)
        return node


def _walk_own(st: ast.AST):
    """ast.walk that does not descend into nested function bodies."""
    todo = [st]
    while todo:
        n = todo.pop()
        yield n
        for c in ast.iter_child_nodes(n):
            if isinstance(c, (ast.FunctionDef, ast.AsyncFunctionDef, ast.Lambda, ast.ClassDef)):
                continue
            todo.append(c)


def _propagate_copies(fn: ast.AST) -> None:
    """`t = b` for an expansion temporary t (bound once) and a name b that is not rebound in the rest of the block, t being used
    only there: t IS b (the same object) - its uses are spelled b and the copy is dropped (`points = self.points; if points is
    None: return; points.append(..)` narrowing idiom of an expanded method)."""
    stores: Dict[str, int] = {}
    loads: Dict[str, int] = {}
    for n in ast.walk(fn):
        if isinstance(n, ast.Name):
            d = stores if isinstance(n.ctx, ast.Store) else loads
            d[n.id] = d.get(n.id, 0) + 1
        elif isinstance(n, (ast.FunctionDef, ast.Lambda)) and n is not fn:
            # names captured by closures are left alone
            for k in ast.walk(n):
                if isinstance(k, ast.Name):
                    stores[k.id] = stores.get(k.id, 0) + 2

    def do_block(block: List[ast.stmt]) -> None:
        k = 0
        while k < len(block):
            st = block[k]
            if isinstance(st, ast.Assign) and len(st.targets) == 1 and isinstance(st.targets[0], ast.Name) and isinstance(st.value, ast.Name) \
                    and st.targets[0].id.startswith("__inl") and stores.get(st.targets[0].id) == 1 and st.value.id != st.targets[0].id:
                a, b = st.targets[0].id, st.value.id
                rest = block[k + 1:]
                b_stored = any(isinstance(n, ast.Name) and n.id == b and isinstance(n.ctx, (ast.Store, ast.Del)) for r in rest for n in ast.walk(r))
                a_loads = sum(1 for r in rest for n in ast.walk(r) if isinstance(n, ast.Name) and n.id == a and isinstance(n.ctx, ast.Load))
                if not b_stored and a_loads == loads.get(a, 0):
                    for r in rest:
                        for n in ast.walk(r):
                            if isinstance(n, ast.Name) and n.id == a:
                                n.id = b
                    loads[b] = loads.get(b, 0) + a_loads
                    del block[k]
                    continue
            for fld in ("body", "orelse", "finalbody"):
                sub = getattr(st, fld, None)
                if isinstance(sub, list) and sub and isinstance(sub[0], ast.stmt):
                    do_block(sub)
            for h in getattr(st, "handlers", []) or []:
                do_block(h.body)
            k += 1
    do_block(fn.body)


def _hoist_common_tails(fn: ast.AST) -> None:
    """`if c: A; T  else: B; T` is `if c: A  else: B` followed by T, for identical simple statements T (the copies the early-return
    structuring of an expanded helper leaves behind)."""
    def process(block: List[ast.stmt]) -> None:
        k = 0
        while k < len(block):
            st = block[k]
            for fld in ("body", "orelse", "finalbody"):
                sub = getattr(st, fld, None)
                if isinstance(sub, list) and sub and isinstance(sub[0], ast.stmt) and not isinstance(st, (ast.FunctionDef, ast.AsyncFunctionDef, ast.ClassDef)):
                    process(sub)
            for h in getattr(st, "handlers", []) or []:
                process(h.body)
            if isinstance(st, ast.If) and st.body and st.orelse:
                moved = []
                while st.body and st.orelse and isinstance(st.body[-1], (ast.Assign, ast.AugAssign, ast.AnnAssign, ast.Expr)) \
                        and ast.dump(st.body[-1]) == ast.dump(st.orelse[-1]):
                    # the hoisted statement must not depend on what the remaining branch bodies still decide differently: it is the same
                    # text evaluated in the same state either way, so moving it below the `if` is always sound
                    moved.insert(0, st.body.pop())
                    st.orelse.pop()
                if moved:
                    if not st.body:
                        st.body = [ast.copy_location(ast.Pass(), st)]
                    block[k + 1:k + 1] = moved
            k += 1
    process(fn.body)


def _inline_local_procs(fn: ast.AST) -> None:
    """a local procedure (`def move(bound, outside): xn[outside] = bound[outside]; ..` - statements only, no result) that is only
    ever called as a statement `move(a, b)` is expanded at its calls: the parameters become temporaries bound to the arguments, the
    captured names are the same names (the closure reads them at call time, which is where the expansion stands)."""
    counter = [0]

    def process(block: List[ast.stmt]) -> bool:
        for k, d in enumerate(block):
            if not (isinstance(d, ast.FunctionDef) and not d.decorator_list and not d.args.defaults and not d.args.vararg and not d.args.kwarg and not d.args.kwonlyargs):
                continue
            body = [x for x in d.body if not (isinstance(x, ast.Expr) and isinstance(x.value, ast.Constant))]
            if not body or any(isinstance(x, (ast.Return, ast.Yield, ast.YieldFrom, ast.FunctionDef, ast.Lambda, ast.Nonlocal, ast.Global)) for b_ in body for x in ast.walk(b_)):
                continue
            params = [a.arg for a in d.args.posonlyargs + d.args.args]
            if any(isinstance(x, ast.Name) and x.id in params and isinstance(x.ctx, ast.Store) for b_ in body for x in ast.walk(b_)):
                continue
            # every mention of the name: a direct call that is a whole statement, in this block after the def
            mentions = [n for n in ast.walk(fn) if isinstance(n, ast.Name) and n.id == d.name and isinstance(n.ctx, ast.Load)]
            sites = [(i, st) for i, st in enumerate(block) if i > k and isinstance(st, ast.Expr) and isinstance(st.value, ast.Call) and isinstance(st.value.func, ast.Name)
                     and st.value.func.id == d.name and not st.value.keywords and len(st.value.args) == len(params)
                     and not any(isinstance(a, ast.Starred) for a in st.value.args)]
            if not sites or len(sites) != len(mentions):
                continue
            for i, st in sorted(sites, key=lambda x: -x[0]):
                counter[0] += 1
                ren = {p_: f"__proc{counter[0]}_{p_}" for p_ in params}
                pre = [ast.copy_location(ast.Assign(targets=[ast.Name(id=ren[p_], ctx=ast.Store())], value=a), st) for p_, a in zip(params, st.value.args)]
                new_body = [_Rename(dict(ren)).visit(copy.deepcopy(b_)) for b_ in body]
                block[i:i + 1] = pre + new_body
            del block[k]
            return True
        for st in block:
            for fld in ("body", "orelse", "finalbody"):
                sub = getattr(st, fld, None)
                if isinstance(sub, list) and sub and isinstance(sub[0], ast.stmt) and not isinstance(st, (ast.FunctionDef, ast.AsyncFunctionDef, ast.ClassDef)):
                    if process(sub):
                        return True
        return False
    for _ in range(6):
        if not process(fn.body):
            break
    ast.fix_missing_locations(fn)


def _sink_temp_copies(fn: ast.AST) -> None:
    """`if c: t = a  else: t = b` directly followed by `x = t`, t an expansion temporary read nowhere else: the branches store to x
    themselves (`x = a` / `x = b`); a resulting `x = x` is dropped.  (The result variable of an expanded helper with early returns.)"""
    loads: Dict[str, int] = {}
    for n in ast.walk(fn):
        if isinstance(n, ast.Name) and isinstance(n.ctx, ast.Load):
            loads[n.id] = loads.get(n.id, 0) + 1

    def ends_with_store(block, t) -> bool:
        if not block:
            return False
        last = block[-1]
        if isinstance(last, ast.Assign) and len(last.targets) == 1 and isinstance(last.targets[0], ast.Name) and last.targets[0].id == t:
            return True
        if isinstance(last, ast.If):
            return bool(last.orelse) and ends_with_store(last.body, t) and ends_with_store(last.orelse, t)
        return False

    def retarget(block, t, x) -> None:
        last = block[-1]
        if isinstance(last, ast.Assign):
            if isinstance(x, str):
                if isinstance(last.value, ast.Name) and last.value.id == x:
                    block[-1] = ast.copy_location(ast.Pass(), last)
                else:
                    last.targets = [ast.Name(id=x, ctx=ast.Store())]
            else:
                last.targets = [copy.deepcopy(x)]        # a tuple pattern: `a, self.b = <what the branch produced>`
            return
        retarget(last.body, t, x)
        retarget(last.orelse, t, x)

    def do_block(block) -> None:
        k = 0
        while k < len(block):
            st = block[k]
            if k >= 1 and isinstance(st, ast.Assign) and len(st.targets) == 1 and isinstance(st.targets[0], ast.Name) and isinstance(st.value, ast.Name) \
                    and st.value.id.startswith("__inl") and loads.get(st.value.id) == 1 and isinstance(block[k - 1], ast.If) and ends_with_store([block[k - 1]], st.value.id):
                retarget([block[k - 1]], st.value.id, st.targets[0].id)
                del block[k]
                continue
            # the same for a result that is unpacked: `if c: t = (a, b) else: t = (u, v)` then `x, self.y = t`
            if k >= 1 and isinstance(st, ast.Assign) and len(st.targets) == 1 and isinstance(st.targets[0], (ast.Tuple, ast.List)) and isinstance(st.value, ast.Name) \
                    and st.value.id.startswith("__inl") and loads.get(st.value.id) == 1 and isinstance(block[k - 1], ast.If) and ends_with_store([block[k - 1]], st.value.id) \
                    and all(isinstance(e, ast.Name) or (isinstance(e, ast.Attribute) and isinstance(e.value, ast.Name)) for e in st.targets[0].elts):
                retarget([block[k - 1]], st.value.id, st.targets[0])
                del block[k]
                continue
            for fld in ("body", "orelse", "finalbody"):
                sub = getattr(st, fld, None)
                if isinstance(sub, list) and sub and isinstance(sub[0], ast.stmt) and not isinstance(st, (ast.FunctionDef, ast.ClassDef)):
                    do_block(sub)
            for h in getattr(st, "handlers", []) or []:
                do_block(h.body)
            k += 1
    do_block(fn.body)


def _merge_alias_temps(fn: ast.AST) -> bool:
    """`__inlN_v = C(..)` .. `x = __inlN_v` where x is bound only there and the temporary is not mentioned after the copy: the
    temporary IS x (the object a factory helper built and returned).  Returns True if anything changed."""
    changed = False
    stores: Dict[str, int] = {}
    for n in ast.walk(fn):
        if isinstance(n, ast.Name) and isinstance(n.ctx, (ast.Store, ast.Del)):
            stores[n.id] = stores.get(n.id, 0) + 1
    for owner in ast.walk(fn):
        for fld in ("body", "orelse", "finalbody"):
            blk = getattr(owner, fld, None)
            if not (isinstance(blk, list) and blk and isinstance(blk[0], ast.stmt)):
                continue
            for k, st in enumerate(list(blk)):
                if not (isinstance(st, ast.Assign) and len(st.targets) == 1 and isinstance(st.targets[0], ast.Name) and isinstance(st.value, ast.Name)
                        and st.value.id.startswith("__inl") and stores.get(st.value.id) == 1 and stores.get(st.targets[0].id) == 1):
                    continue
                t, x = st.value.id, st.targets[0].id
                # the temporary is created earlier in this block and never mentioned after the copy; x is not mentioned before it
                idx = blk.index(st)
                before = [n for b in blk[:idx] for n in ast.walk(b) if isinstance(n, ast.Name)]
                after = [n for b in blk[idx + 1:] for n in ast.walk(b) if isinstance(n, ast.Name)]
                everywhere = [n for n in ast.walk(fn) if isinstance(n, ast.Name)]
                if any(n.id == t for n in after) or any(n.id == x for n in before):
                    continue
                if sum(1 for n in everywhere if n.id == t) != sum(1 for n in before if n.id == t) + 1:
                    continue
                if sum(1 for n in everywhere if n.id == x) != sum(1 for n in after if n.id == x) + 1:
                    continue
                for n in before:
                    if n.id == t:
                        n.id = x
                blk.remove(st)
                changed = True
    return changed


def _retarget_tuple_defs(fn: ast.AST) -> bool:
    """`t = (A, B)` .. `x, y = t` (t bound once and read only there, x / y not mentioned in between, same block): the tuple is
    built for x, y - `x, y = (A, B)` at the place of the definition.  Also `d = {..}` .. `e = d`.  Returns True if anything changed."""
    changed = False
    stores: Dict[str, int] = {}
    loads: Dict[str, int] = {}
    for n in ast.walk(fn):
        if isinstance(n, ast.Name):
            if isinstance(n.ctx, ast.Load):
                loads[n.id] = loads.get(n.id, 0) + 1
            else:
                stores[n.id] = stores.get(n.id, 0) + 1
    for owner in ast.walk(fn):
        for fld in ("body", "orelse", "finalbody"):
            blk = getattr(owner, fld, None)
            if not (isinstance(blk, list) and blk and isinstance(blk[0], ast.stmt)):
                continue
            k = 0
            while k < len(blk):
                st = blk[k]
                k += 1
                if not (isinstance(st, ast.Assign) and len(st.targets) == 1 and isinstance(st.targets[0], ast.Name) and isinstance(st.value, (ast.Tuple, ast.Dict))
                        and stores.get(st.targets[0].id) == 1 and loads.get(st.targets[0].id) == 1):
                    continue
                t = st.targets[0].id
                for j in range(k, min(k + 8, len(blk))):
                    use = blk[j]
                    if isinstance(use, ast.Assign) and len(use.targets) == 1 and isinstance(use.value, ast.Name) and use.value.id == t:
                        tg = use.targets[0]
                        ok = (isinstance(st.value, ast.Tuple) and isinstance(tg, (ast.Tuple, ast.List)) and len(tg.elts) == len(st.value.elts)
                              and all(isinstance(e, ast.Name) for e in tg.elts)) or (isinstance(tg, ast.Name))
                        if not ok:
                            break
                        names = {e.id for e in (tg.elts if isinstance(tg, (ast.Tuple, ast.List)) else [tg])}
                        between = blk[k:j]
                        if any(isinstance(x, ast.Name) and x.id in names for b in between + [st] for x in ast.walk(b)):
                            break
                        st.targets = [tg]
                        del blk[j]
                        changed = True
                        break
                    if any(isinstance(x, ast.Name) and x.id == t for x in ast.walk(use)):
                        break
    if changed:
        ast.fix_missing_locations(fn)
    return changed


def _drop_stores(body: List[ast.stmt], name: str) -> List[ast.stmt]:
    class T(ast.NodeTransformer):
        def visit_Assign(self, n):
            if len(n.targets) == 1 and isinstance(n.targets[0], ast.Name) and n.targets[0].id == name:
                if isinstance(n.value, (ast.Constant, ast.Name)):
                    return None
                return ast.copy_location(ast.Expr(value=n.value), n)
            return n

        def generic_visit(self, n):
            super().generic_visit(n)
            for fld in ("body", "orelse"):
                if hasattr(n, fld) and isinstance(getattr(n, fld), list) and fld == "body" and not getattr(n, fld) and isinstance(n, (ast.If, ast.For, ast.While, ast.With, ast.Try)):
                    n.body = [ast.copy_location(ast.Pass(), n)]
            return n
    out = []
    for b in body:
        r = T().visit(b)
        if r is not None:
            out.append(r)
    return out


def _strip_doc(body: List[ast.stmt]) -> List[ast.stmt]:
    if body and isinstance(body[0], ast.Expr) and isinstance(body[0].value, ast.Constant) and isinstance(body[0].value.value, str):
        return body[1:]
    return body


def _is_pure_arg(e: ast.AST) -> bool:
    if isinstance(e, (ast.Name, ast.Constant)):
        return True
    if isinstance(e, ast.Attribute):
        return _is_pure_arg(e.value)
    if isinstance(e, ast.UnaryOp):
        return _is_pure_arg(e.operand)
    return False


def _assigned(body: List[ast.stmt]) -> Set[str]:
    out: Set[str] = set()
    for st in body:
        for n in ast.walk(st):
            if isinstance(n, ast.Name) and isinstance(n.ctx, (ast.Store, ast.Del)):
                out.add(n.id)
            elif isinstance(n, (ast.FunctionDef, ast.ClassDef)):
                out.add(n.name)
            elif isinstance(n, ast.ExceptHandler) and n.name:
                out.add(n.name)
    return out


def _has_inner_return(body: List[ast.stmt]) -> bool:
    """a return anywhere except as the very last top-level statement (returns of nested defs are their own)."""
    for i, st in enumerate(body):
        last = i == len(body) - 1
        if isinstance(st, (ast.FunctionDef, ast.AsyncFunctionDef, ast.ClassDef)):
            continue
        for n in _walk_own(st):
            if isinstance(n, ast.Return) and not (last and n is st):
                return True
            if isinstance(n, (ast.Yield, ast.YieldFrom)):
                return True
    return False


def _contains_return(st: ast.AST) -> bool:
    if isinstance(st, (ast.FunctionDef, ast.AsyncFunctionDef, ast.ClassDef)):
        return False
    return any(isinstance(n, ast.Return) for n in _walk_own(st))


def _structure_returns(stmts: List[ast.stmt], ret: str, _budget: Optional[List[int]] = None):
    """rewrite a block with early returns into a return-free block that assigns the result to `ret`: the statements following
    a returning `if` are moved (copied) into the branches that fall through, so every path keeps its own order of effects.
    Returns (new statements, every path assigned ret) or None when a return sits in a loop / try / with, or the copying would
    blow up (more than 6 returning conditionals in sequence)."""
    if _budget is None:
        _budget = [64]
    out: List[ast.stmt] = []
    for i, st in enumerate(stmts):
        if isinstance(st, ast.Return):
            v = st.value if st.value is not None else ast.Constant(value=None)
            out.append(ast.copy_location(ast.Assign(targets=[ast.Name(id=ret, ctx=ast.Store())], value=v), st))
            return out, True
        if isinstance(st, ast.If) and _contains_return(st):
            rest = list(stmts[i + 1:])
            _budget[0] -= 1
            if _budget[0] < 0:
                return None
            b = _structure_returns(list(st.body) + copy.deepcopy(rest), ret, _budget)
            o = _structure_returns(list(st.orelse) + copy.deepcopy(rest), ret, _budget)
            if b is None or o is None:
                return None
            (bs, bl), (os_, ol) = b, o
            out.append(ast.copy_location(ast.If(test=st.test, body=bs or [ast.Pass()], orelse=os_), st))
            return out, bl and ol
        if isinstance(st, ast.Try) and _contains_return(st) and i == len(stmts) - 1 and not st.finalbody:
            # a try statement in tail position: its body / else / handlers are tail blocks themselves
            b = _structure_returns(list(st.body), ret, _budget)
            o = _structure_returns(list(st.orelse), ret, _budget) if st.orelse else ([], None)
            hs = [_structure_returns(list(h.body), ret, _budget) for h in st.handlers]
            if b is None or o is None or any(h is None for h in hs):
                return None

            def raises(body):
                return bool(body) and isinstance(body[-1], ast.Raise)
            new_handlers = [ast.copy_location(ast.ExceptHandler(type=h.type, name=h.name, body=hb[0] or [ast.Pass()]), h) for h, hb in zip(st.handlers, hs)]
            out.append(ast.copy_location(ast.Try(body=b[0] or [ast.Pass()], handlers=new_handlers, orelse=o[0], finalbody=[]), st))
            body_all = b[1] if not st.orelse else (b[1] or bool(o[1]))
            return out, body_all and all(hb[1] or raises(h.body) for h, hb in zip(st.handlers, hs))
        if _contains_return(st):
            return None
        out.append(st)
    # a block that ends by raising has no path that falls out of it without a result
    return out, bool(out) and isinstance(out[-1], ast.Raise)


class Inliner:
    def __init__(self, prog):
        self.prog = prog
        self.known = known_functions()
        self.counter = 0
        self.expanded: Dict[str, int] = {}
        self.objs: Dict[str, object] = {}          # local name -> ClassInfo of a new helper class whose instance it holds
        self._recv_name: Dict[int, str] = {}
        self._cls_recv: Dict[int, ast.AST] = {}
        self._pending_recv: Optional[str] = None

    # -- which callee ----------------------------------------------------------------------
    def _target(self, fi, call: ast.Call):
        from .model import ClassInfo, FuncInfo
        f = call.func
        tgt = None
        recv_self = False
        if isinstance(f, ast.Name):
            tgt = self.prog._resolve_callable_static(fi, f)
            if isinstance(tgt, FuncInfo) and tgt.parent is not None:
                return None, False  # closures are already visible to the rules
        elif isinstance(f, ast.Attribute) and isinstance(f.value, ast.Name) and f.value.id == "self":
            cls = self.prog.enclosing_class(fi)
            if cls is None:
                return None, False
            ms = self.prog.dispatch(cls, f.attr)
            if len(ms) != 1 or ms[0].is_property:
                return None, False
            tgt, recv_self = ms[0], True
        elif isinstance(f, ast.Attribute) and isinstance(f.value, ast.Name) and f.value.id in self.objs:
            # a method of a local helper object (new class, promoted to locals): expanded with self := the local
            ci = self.objs[f.value.id]
            m = self.prog.lookup_method(ci, f.attr)
            if m is None or m.is_property:
                return None, False
            self._recv_name[id(call)] = f.value.id
            tgt = m
        elif isinstance(f, ast.Attribute):
            st = self.prog._resolve_callable_static(fi, f)
            if isinstance(st, FuncInfo) and (st.is_static or st.cls is None):
                tgt = st
            elif isinstance(st, FuncInfo) and st.cls is not None and any(d.split(".")[-1] == "classmethod" for d in getattr(st, "decorators", [])) \
                    and isinstance(self.prog.resolve_expr_static(fi.module, f.value), ClassInfo):
                # `C.factory(..)`, a classmethod called on the class: `cls` inside is C
                tgt = st
                self._cls_recv[id(call)] = f.value
        if not isinstance(tgt, FuncInfo) or isinstance(tgt, ClassInfo):
            return None, False
        if tgt.qualname in self.known or tgt is fi:
            return None, False
        if any(isinstance(n, (ast.Yield, ast.YieldFrom)) for n in ast.walk(tgt.node)):
            return None, False
        return tgt, recv_self

    def _bind(self, callee, call: ast.Call, recv_self: bool) -> Optional[Dict[str, ast.AST]]:
        a = callee.node.args
        if a.vararg or any(isinstance(x, ast.Starred) for x in call.args) or any(k.arg is None for k in call.keywords):
            return None
        extra_kw = None
        if a.kwarg:
            # **kwargs that the helper only passes on (`g(x, **kwargs)`): the call's surplus keywords take its place
            kw = a.kwarg.arg
            uses = [n for n in ast.walk(callee.node) if isinstance(n, ast.Name) and n.id == kw]
            passes = [k for n in ast.walk(callee.node) if isinstance(n, ast.Call) for k in n.keywords if k.arg is None and isinstance(k.value, ast.Name) and k.value.id == kw]
            if len(uses) != len(passes):
                return None
            extra_kw = kw
        names = [x.arg for x in a.posonlyargs + a.args]
        if callee.cls is not None and not callee.is_static and names and names[0] in ("self", "cls"):
            names = names[1:]
        if len(call.args) > len(names):
            return None
        out: Dict[str, ast.AST] = {}
        for n, v in zip(names, call.args):
            out[n] = v
        kwonly = [x.arg for x in a.kwonlyargs]
        surplus = []
        for k in call.keywords:
            if k.arg in out:
                return None
            if k.arg not in names and k.arg not in kwonly:
                if extra_kw is None:
                    return None
                surplus.append(k)
                continue
            out[k.arg] = k.value
        if extra_kw is not None:
            out["**" + extra_kw] = surplus
        pos = [x.arg for x in a.posonlyargs + a.args]
        for n, d in zip(pos[len(pos) - len(a.defaults):], a.defaults):
            if n in names and n not in out:
                out[n] = d
        for x, d in zip(a.kwonlyargs, a.kw_defaults):
            if x.arg not in out and d is not None:
                out[x.arg] = d
        if any(n not in out for n in names):
            return None
        return out

    @staticmethod
    def _splice_kwargs(body: List[ast.stmt], kw: str, surplus: List[ast.keyword]) -> None:
        for st in body:
            for n in ast.walk(st):
                if isinstance(n, ast.Call):
                    new = []
                    for k in n.keywords:
                        if k.arg is None and isinstance(k.value, ast.Name) and k.value.id == kw:
                            new += [copy.deepcopy(x) for x in surplus]
                        else:
                            new.append(k)
                    n.keywords = new

    # -- expansion --------------------------------------------------------------------------------
    def _instantiate(self, callee, binding: Dict[str, ast.AST]) -> Tuple[List[ast.stmt], List[ast.stmt]]:
        """(prologue binding temporaries, renamed body)"""
        self.counter += 1
        tag = f"__inl{self.counter}_"
        body = copy.deepcopy(_strip_doc(callee.node.body))
        for p in [k for k in binding if k.startswith("**")]:
            self._splice_kwargs(body, p[2:], binding[p])
        binding = {k: v for k, v in binding.items() if not k.startswith("**")}
        assigned = _assigned(body)
        mapping: Dict[str, object] = {}
        prologue: List[ast.stmt] = []
        for p, arg in binding.items():
            if _is_pure_arg(arg) and p not in assigned:
                mapping[p] = arg
            else:
                tmp = tag + p
                mapping[p] = tmp
                prologue.append(ast.Assign(targets=[ast.Name(id=tmp, ctx=ast.Store())], value=copy.deepcopy(arg), lineno=getattr(arg, "lineno", 0), col_offset=0))
        for name in assigned:
            if name not in mapping:
                mapping[name] = tag + name
        if self._pending_recv is not None:
            mapping["self"] = ast.Name(id=self._pending_recv, ctx=ast.Load())
            self._pending_recv = None
        ren = _Rename(mapping)
        body = [ren.visit(st) for st in body]
        self._carry_globals(callee, body)
        return prologue, body

    def _carry_globals(self, callee, body: List[ast.stmt]) -> None:
        """moved code keeps the meaning of its global names: a name the helper's module knows (import / top-level definition)
        that the receiving module does not is made known there as an import of the helper module's symbol."""
        src = callee.module
        dst = getattr(self, "_current_module", None)
        if dst is None or dst is src:
            return
        for st in body:
            for n in ast.walk(st):
                if isinstance(n, ast.Name) and isinstance(n.ctx, ast.Load):
                    nm = n.id
                    if nm in dst.imports or nm in dst.functions or nm in dst.classes:
                        continue
                    if nm in src.imports:
                        dst.imports[nm] = src.imports[nm]
                    elif nm in src.classes or nm in src.functions:
                        dst.imports[nm] = (src.name, nm)

    def expand_stmt(self, fi, st: ast.stmt, depth: int) -> Optional[List[ast.stmt]]:
        self._pending_recv = None
        call = None
        kind = None
        if isinstance(st, ast.AnnAssign) and st.value is not None and isinstance(st.target, ast.Name):
            # `v: T = helper(..)` is expanded like `v = helper(..)` (the annotation of a local carries no behaviour)
            st = ast.copy_location(ast.Assign(targets=[st.target], value=st.value), st)
        # `x += helper(..)` with a plain local x: `t = helper(..); x += t`
        if isinstance(st, ast.AugAssign) and isinstance(st.value, ast.Call) and isinstance(st.target, ast.Name) and depth <= 3:
            tgt_, _ = self._target(fi, st.value)
            if tgt_ is not None:
                self.counter += 1
                tmp = f"__inl{self.counter}_aug"
                first = ast.copy_location(ast.Assign(targets=[ast.Name(id=tmp, ctx=ast.Store())], value=st.value), st)
                rep_ = self.expand_stmt(fi, first, depth + 1)
                if rep_ is not None:
                    second = ast.copy_location(ast.AugAssign(target=st.target, op=st.op, value=ast.Name(id=tmp, ctx=ast.Load())), st)
                    return rep_ + [ast.fix_missing_locations(second)]
        if isinstance(st, ast.Expr) and isinstance(st.value, ast.Call):
            call, kind = st.value, "expr"
        elif isinstance(st, ast.Assign) and isinstance(st.value, ast.Call):
            call, kind = st.value, "assign"
        elif isinstance(st, ast.Return) and isinstance(st.value, ast.Call):
            call, kind = st.value, "return"
        ctor = self._expand_ctor(fi, st, depth)
        if ctor is not None:
            return ctor
        if call is None:
            return None
        # `helper(*t)` with t a local holding the helper's n positional arguments: unpack t first (`a0, a1, a2 = t`)
        if len(call.args) == 1 and isinstance(call.args[0], ast.Starred) and isinstance(call.args[0].value, ast.Name) and not call.keywords and depth <= 3:
            cal_, rs_ = self._target(fi, call)
            if cal_ is not None:
                a_ = cal_.node.args
                names_ = [x.arg for x in a_.posonlyargs + a_.args]
                if cal_.cls is not None and not cal_.is_static and names_ and names_[0] in ("self", "cls"):
                    names_ = names_[1:]
                if names_ and not a_.defaults and not a_.vararg and not a_.kwarg and not a_.kwonlyargs:
                    self.counter += 1
                    temps = [f"__inl{self.counter}_s{k}" for k in range(len(names_))]
                    pre = ast.copy_location(ast.Assign(targets=[ast.Tuple(elts=[ast.Name(id=t_, ctx=ast.Store()) for t_ in temps], ctx=ast.Store())],
                                                       value=call.args[0].value), st)
                    st2 = copy.deepcopy(st)
                    c2 = st2.value
                    c2.args = [ast.Name(id=t_, ctx=ast.Load()) for t_ in temps]
                    ast.fix_missing_locations(pre)
                    ast.fix_missing_locations(st2)
                    rep2 = self.expand_stmt(fi, st2, depth + 1)
                    if rep2 is not None:
                        return [pre] + rep2
        callee, recv_self = self._target(fi, call)
        if callee is None:
            return None
        b = self._bind(callee, call, recv_self or id(call) in self._recv_name)
        if b is not None and id(call) in self._cls_recv:
            b["cls"] = self._cls_recv[id(call)]
        if b is None:
            return None
        self._pending_recv = self._recv_name.get(id(call))
        body0 = _strip_doc(callee.node.body)
        structured = False
        if _has_inner_return(body0):
            if any(isinstance(n, (ast.Yield, ast.YieldFrom)) for n in ast.walk(callee.node)) or _structure_returns(copy.deepcopy(body0), "_") is None:
                return None
            structured = True
        prologue, body = self._instantiate(callee, b)
        out = list(prologue)
        if structured:
            ret = f"__inl{self.counter}_ret"
            body, all_paths = _structure_returns(body, ret)
            if not all_paths:
                body = [ast.Assign(targets=[ast.Name(id=ret, ctx=ast.Store())], value=ast.Constant(value=None))] + body
            body = body + [ast.Return(value=ast.Name(id=ret, ctx=ast.Load()))]
        last = body[-1] if body else None
        if isinstance(last, ast.Return):
            body = body[:-1]
            rv = last.value if last.value is not None else ast.Constant(value=None)
            if kind == "expr":
                tail = [ast.Expr(value=rv)] if not isinstance(rv, (ast.Constant, ast.Name)) else []
                if structured:
                    # the result is not used: the stores to the result variable go (a branch left empty becomes `pass`)
                    body = _drop_stores(body, ret)
            elif kind == "assign":
                tail = [ast.Assign(targets=st.targets, value=rv)]
                # `t = helper(..)` where the helper builds a local and returns it: the local IS t (no `t = local` copy is left behind)
                if isinstance(rv, ast.Name) and rv.id.startswith("__inl") and len(st.targets) == 1 and isinstance(st.targets[0], ast.Name):
                    tn = st.targets[0].id
                    mentioned = any(isinstance(k, ast.Name) and k.id == tn for part in (body, prologue, [call]) for b_ in part for k in ast.walk(b_))
                    is_local = any(isinstance(k, ast.Name) and k.id == rv.id and isinstance(k.ctx, ast.Store) for b_ in body for k in ast.walk(b_))
                    if not mentioned and is_local:
                        for b_ in body:
                            for k in ast.walk(b_):
                                if isinstance(k, ast.Name) and k.id == rv.id:
                                    k.id = tn
                        tail = []
            else:
                tail = [ast.Return(value=rv)]
        else:
            if kind == "expr":
                tail = []
            elif kind == "assign":
                tail = [ast.Assign(targets=st.targets, value=ast.Constant(value=None))]
            else:
                tail = [ast.Return(value=ast.Constant(value=None))]
        # `a, b = helper()` where every result is a literal tuple: bind the targets where the result is produced
        if structured and kind == "assign" and len(st.targets) == 1 and isinstance(st.targets[0], ast.Tuple) and all(isinstance(t, ast.Name) for t in st.targets[0].elts):
            tnames = [t.id for t in st.targets[0].elts]
            rsts = [n for b_ in body for n in ast.walk(b_) if isinstance(n, ast.Assign) and len(n.targets) == 1 and isinstance(n.targets[0], ast.Name) and n.targets[0].id == ret]
            if rsts and all(isinstance(n.value, ast.Tuple) and len(n.value.elts) == len(tnames) and
                            not any(isinstance(k, ast.Name) and k.id in tnames for k in ast.walk(n.value)) for n in rsts):
                for n in rsts:
                    n.targets = [ast.Tuple(elts=[ast.Name(id=t, ctx=ast.Store()) for t in tnames], ctx=ast.Store())]
                tail = []
        out += body + tail
        for n in out:
            ast.copy_location(n, st) if not hasattr(n, "lineno") else None
            ast.fix_missing_locations(n)
        self.expanded[callee.qualname] = self.expanded.get(callee.qualname, 0) + 1
        return self.expand_block(fi, out, depth + 1)

    def _expand_ctor(self, fi, st: ast.stmt, depth: int) -> Optional[List[ast.stmt]]:
        """`v = NewClass(args)` / `v = NewClass(args) if c else None` for a promoted local v: a sentinel object plus the body of
        __init__ with self := v (the attribute stores become `v.f = ..`, turned into locals `v__f` at the end)."""
        if not (isinstance(st, ast.Assign) and len(st.targets) == 1 and isinstance(st.targets[0], ast.Name) and st.targets[0].id in self.objs):
            return None
        v = st.targets[0].id
        ci = self.objs[v]
        val = st.value
        cond = None
        if isinstance(val, ast.IfExp) and isinstance(val.orelse, ast.Constant) and val.orelse.value is None:
            cond, val = val.test, val.body
        if not (isinstance(val, ast.Call) and isinstance(val.func, ast.Name) and self.prog.resolve_symbol(fi.module, val.func.id) is ci):
            return None
        sentinel = ast.copy_location(ast.Assign(targets=[ast.Name(id=v, ctx=ast.Store())], value=ast.Call(func=ast.Name(id="object", ctx=ast.Load()), args=[], keywords=[])), st)
        init = self.prog.lookup_method(ci, "__init__")
        out: List[ast.stmt] = [sentinel]
        if init is None or init.cls is None or not init.cls.qualname.startswith("pygradflow"):
            # a @dataclass without its own __init__: the fields are the annotated class attributes, in order, with their defaults
            is_dc = any((dotted(d.func) if isinstance(d, ast.Call) else dotted(d)) in ("dataclass", "dataclasses.dataclass") for d in ci.node.decorator_list) \
                or any(b in ("NamedTuple", "typing.NamedTuple") for b in ci.ext_bases)
            fields = [x for x in ci.node.body if isinstance(x, ast.AnnAssign) and isinstance(x.target, ast.Name)]
            if is_dc:
                given = {}
                for i_, a in enumerate(val.args):
                    if isinstance(a, ast.Starred) or i_ >= len(fields):
                        return None
                    given[fields[i_].target.id] = a
                for kw in val.keywords:
                    if kw.arg is None or kw.arg in given or kw.arg not in {f_.target.id for f_ in fields}:
                        return None
                    given[kw.arg] = kw.value
                for f_ in fields:
                    v_ = given.get(f_.target.id, f_.value)
                    if v_ is None:
                        return None
                    if isinstance(v_, ast.Call) and dotted(v_.func) in ("field", "dataclasses.field"):
                        df = next((k.value for k in v_.keywords if k.arg == "default_factory"), None)
                        dv = next((k.value for k in v_.keywords if k.arg == "default"), None)
                        if df is not None:
                            v_ = ast.Call(func=copy.deepcopy(df), args=[], keywords=[])
                        elif dv is not None:
                            v_ = dv
                        else:
                            return None
                    out.append(ast.copy_location(ast.Assign(targets=[ast.Attribute(value=ast.Name(id=v, ctx=ast.Load()), attr=f_.target.id, ctx=ast.Store())],
                                                            value=copy.deepcopy(v_)), st))
        if init is not None and init.cls is not None and init.cls.qualname.startswith("pygradflow"):
            b = self._bind(init, val, True)
            if b is None or _has_inner_return(_strip_doc(init.node.body)):
                return None
            self._pending_recv = v
            prologue, body = self._instantiate(init, b)
            body = [x for x in body if not (isinstance(x, ast.Return) and x.value is None)]
            out = out + prologue + body
            self.expanded[init.qualname] = self.expanded.get(init.qualname, 0) + 1
        if cond is not None:
            none_ = ast.copy_location(ast.Assign(targets=[ast.Name(id=v, ctx=ast.Store())], value=ast.Constant(value=None)), st)
            out = [ast.copy_location(ast.If(test=cond, body=out, orelse=[none_]), st)]
        for n in out:
            ast.fix_missing_locations(n)
        return self.expand_block(fi, out, depth + 1)

    def _find_objs(self, fi, body: List[ast.stmt]) -> Dict[str, object]:
        """locals holding an instance of a NEW helper class that never escapes: bound once by `v = C(..)` (optionally
        `.. if c else None`), used only as `v.attr`, `v.method(..)` or in `v is [not] None` tests."""
        from .model import ClassInfo
        cands: Dict[str, object] = {}
        stores: Dict[str, int] = {}
        fn = ast.Module(body=body, type_ignores=[])
        for n in ast.walk(fn):
            if isinstance(n, ast.Name) and isinstance(n.ctx, ast.Store):
                stores[n.id] = stores.get(n.id, 0) + 1
            # `v = None` / `v: Optional[C] = None` before the conditional construction does not count as a second binding
            if isinstance(n, ast.Assign) and len(n.targets) == 1 and isinstance(n.targets[0], ast.Name) and isinstance(n.value, ast.Constant) and n.value.value is None:
                stores[n.targets[0].id] = stores.get(n.targets[0].id, 0) - 1
            if isinstance(n, ast.AnnAssign) and isinstance(n.target, ast.Name) and (n.value is None or (isinstance(n.value, ast.Constant) and n.value.value is None)):
                stores[n.target.id] = stores.get(n.target.id, 0) - 1
            if isinstance(n, ast.AnnAssign) and n.value is not None and isinstance(n.target, ast.Name):
                n = ast.Assign(targets=[n.target], value=n.value)
            if isinstance(n, ast.Assign) and len(n.targets) == 1 and isinstance(n.targets[0], ast.Name):
                val = n.value
                if isinstance(val, ast.IfExp) and isinstance(val.orelse, ast.Constant) and val.orelse.value is None:
                    val = val.body
                if isinstance(val, ast.Call) and isinstance(val.func, ast.Name):
                    ci = self.prog.resolve_symbol(fi.module, val.func.id)
                    if isinstance(ci, ClassInfo) and not ci.bases and not [b for b in ci.ext_bases if b not in ("object", "NamedTuple", "typing.NamedTuple")] and not ci.subclasses \
                            and not any(m.qualname in self.known for m in ci.methods.values()):
                        cands[n.targets[0].id] = ci
        out = {}
        parents = {}
        for n in ast.walk(fn):
            for c in ast.iter_child_nodes(n):
                parents[id(c)] = n
        for v, ci in cands.items():
            if stores.get(v, 0) != 1:
                continue
            ok = True
            for n in ast.walk(fn):
                if isinstance(n, ast.Name) and n.id == v and isinstance(n.ctx, ast.Load):
                    p = parents.get(id(n))
                    if isinstance(p, ast.Attribute) and p.value is n:
                        continue
                    if isinstance(p, ast.Call) and p.func is n and "__call__" in ci.methods:
                        # a callable helper object: `v(..)` is `v.__call__(..)`
                        p.func = ast.copy_location(ast.Attribute(value=n, attr="__call__", ctx=ast.Load()), n)
                        parents[id(n)] = p.func
                        continue
                    if isinstance(p, ast.Compare) and len(p.ops) == 1 and isinstance(p.ops[0], (ast.Is, ast.IsNot)) and isinstance(p.comparators[0], ast.Constant) and p.comparators[0].value is None:
                        continue
                    if isinstance(p, ast.Call) and isinstance(p.func, ast.Name) and p.func.id == "__item__" and len(p.args) == 2 and p.args[0] is n \
                            and isinstance(p.args[1], ast.Constant) and any(b in ("NamedTuple", "typing.NamedTuple") for b in ci.ext_bases):
                        continue
                    # a NamedTuple helper unpacked into all of its fields: `a, b, c = v`
                    nfields = len([x for x in ci.node.body if isinstance(x, ast.AnnAssign) and isinstance(x.target, ast.Name)])
                    if any(b in ("NamedTuple", "typing.NamedTuple") for b in ci.ext_bases) and isinstance(p, ast.Assign) and p.value is n and len(p.targets) == 1 \
                            and isinstance(p.targets[0], (ast.Tuple, ast.List)) and len(p.targets[0].elts) == nfields and not any(isinstance(e_, ast.Starred) for e_ in p.targets[0].elts):
                        continue
                    ok = False
                    break
            if ok:
                out[v] = ci
        return out

    @staticmethod
    def _fields_to_locals(body: List[ast.stmt], objs) -> List[ast.stmt]:
        class T(ast.NodeTransformer):
            def visit_Assign(self, node):
                # `a, b, c = v` for a dissolved NamedTuple helper v: the fields in order
                if isinstance(node.value, ast.Name) and node.value.id in objs and len(node.targets) == 1 and isinstance(node.targets[0], (ast.Tuple, ast.List)):
                    ci = objs[node.value.id]
                    fields = [x.target.id for x in ci.node.body if isinstance(x, ast.AnnAssign) and isinstance(x.target, ast.Name)]
                    if len(fields) == len(node.targets[0].elts):
                        node.value = ast.copy_location(ast.Tuple(elts=[ast.Name(id=f"{node.value.id}__{f}", ctx=ast.Load()) for f in fields], ctx=ast.Load()), node.value)
                return self.generic_visit(node)

            def visit_Attribute(self, node):
                self.generic_visit(node)
                if isinstance(node.value, ast.Name) and node.value.id in objs:
                    return ast.copy_location(ast.Name(id=f"{node.value.id}__{node.attr}", ctx=node.ctx), node)
                return node

            def visit_Call(self, node):
                # `__item__(v, k)` (element k of an unpacked NamedTuple helper): field k
                if isinstance(node.func, ast.Name) and node.func.id == "__item__" and len(node.args) == 2 and isinstance(node.args[0], ast.Name) and node.args[0].id in objs \
                        and isinstance(node.args[1], ast.Constant) and isinstance(node.args[1].value, int):
                    ci = objs[node.args[0].id]
                    fields = [x.target.id for x in ci.node.body if isinstance(x, ast.AnnAssign) and isinstance(x.target, ast.Name)]
                    if 0 <= node.args[1].value < len(fields):
                        return ast.copy_location(ast.Name(id=f"{node.args[0].id}__{fields[node.args[1].value]}", ctx=ast.Load()), node)
                return self.generic_visit(node)
        return [ast.fix_missing_locations(T().visit(b)) for b in body]

    def expr_value_of(self, callee) -> Optional[ast.AST]:
        """the helper as one expression of its parameters, if it is expression-like."""
        from .symex import facts_for
        body = _strip_doc(callee.node.body)
        def _plain_target(t):
            return isinstance(t, ast.Name) or (isinstance(t, (ast.Tuple, ast.List)) and all(isinstance(e, ast.Name) for e in t.elts))
        simple = all(isinstance(s, (ast.Assign, ast.AnnAssign, ast.Assert, ast.Expr)) and not (isinstance(s, ast.Assign) and not all(_plain_target(t) for t in s.targets)) for s in body[:-1])
        if not body:
            return None
        ff = facts_for(callee)
        last = body[-1]
        if simple and isinstance(last, ast.Return) and last.value is not None:
            if any(isinstance(s, ast.Expr) and not isinstance(s.value, ast.Constant) for s in body[:-1]):
                return None  # a call for its side effect
            return ff.resolved(last, last.value)
        # for x in IT: if COND: return True  \n return False     ==  any(COND for x in IT)      (and the dual with all / not)
        if len(body) == 2 and isinstance(body[0], ast.For) and not body[0].orelse and isinstance(last, ast.Return) and isinstance(last.value, ast.Constant) \
                and isinstance(last.value.value, bool) and len(body[0].body) == 1 and isinstance(body[0].body[0], ast.If) and not body[0].body[0].orelse \
                and len(body[0].body[0].body) == 1 and isinstance(body[0].body[0].body[0], ast.Return) and isinstance(body[0].body[0].body[0].value, ast.Constant) \
                and body[0].body[0].body[0].value.value is (not last.value.value):
            lp = body[0]
            cond = lp.body[0].test
            gen = ast.GeneratorExp(elt=copy.deepcopy(cond), generators=[ast.comprehension(target=copy.deepcopy(lp.target), iter=copy.deepcopy(lp.iter), ifs=[], is_async=0)])
            if last.value.value is False:
                return ast.Call(func=ast.Name(id="any", ctx=ast.Load()), args=[gen], keywords=[])
            gen.elt = ast.UnaryOp(op=ast.Not(), operand=gen.elt)
            return ast.Call(func=ast.Name(id="all", ctx=ast.Load()), args=[gen], keywords=[])
        # if c: return a  \n return b      |   if c: return a else: return b
        pre = body[:-2] if len(body) >= 2 and isinstance(body[-2], ast.If) else (body[:-1] if isinstance(last, ast.If) else None)
        if pre is None or not all(isinstance(s, (ast.Assign, ast.AnnAssign)) for s in pre):
            return None
        if isinstance(last, ast.If) and last.orelse and len(last.body) == 1 and len(last.orelse) == 1 and isinstance(last.body[0], ast.Return) and isinstance(last.orelse[0], ast.Return):
            i, a, b = last, last.body[0], last.orelse[0]
        elif len(body) >= 2 and isinstance(body[-2], ast.If) and not body[-2].orelse and len(body[-2].body) == 1 and isinstance(body[-2].body[0], ast.Return) and isinstance(last, ast.Return):
            i, a, b = body[-2], body[-2].body[0], last
        else:
            return None
        if a.value is None or b.value is None:
            return None
        return ast.IfExp(test=ff.resolved(i, i.test), body=ff.resolved(a, a.value), orelse=ff.resolved(b, b.value))

    def expand_exprs(self, fi, st: ast.stmt, depth: int) -> ast.stmt:
        inl = self

        class T(ast.NodeTransformer):
            def visit_Call(self, node: ast.Call):
                self.generic_visit(node)
                callee, recv_self = inl._target(fi, node)
                if callee is None or depth > 3:
                    return node
                recv_name = inl._recv_name.get(id(node))
                b = inl._bind(callee, node, recv_self or recv_name is not None)
                if b is None:
                    return node
                if id(node) in inl._cls_recv:
                    b["cls"] = inl._cls_recv[id(node)]
                e = inl.expr_value_of(callee)
                if e is None:
                    return node
                if recv_name is not None:
                    # a method of a dissolved helper object: `self` inside the helper is that local
                    e = _Rename({"self": ast.Name(id=recv_name, ctx=ast.Load())}).visit(copy.deepcopy(e))
                inl.expanded[callee.qualname] = inl.expanded.get(callee.qualname, 0) + 1
                if any(k.startswith("**") for k in b):
                    return node   # pass-through keyword dictionaries are only handled in statement position
                out = _Rename({k: v for k, v in b.items()}).visit(copy.deepcopy(e))
                out = ast.copy_location(out, node)
                # helpers used inside the expanded expression (bounded: helpers are not recursive)
                self.nest = getattr(self, "nest", 0) + 1
                if self.nest <= 4:
                    out = self.generic_visit(out) if not isinstance(out, ast.Call) else self.visit_Call_children(out)
                self.nest -= 1
                return out

            def visit_Call_children(self, node):
                for fld, val in ast.iter_fields(node):
                    if isinstance(val, list):
                        setattr(node, fld, [self.visit(x) if isinstance(x, ast.AST) else x for x in val])
                    elif isinstance(val, ast.AST):
                        setattr(node, fld, self.visit(val))
                return node

            def visit_Attribute(self, node: ast.Attribute):
                self.generic_visit(node)
                # a property of a dissolved helper object (`point.has_cons`): its expression with self := the local
                if isinstance(node.ctx, ast.Load) and isinstance(node.value, ast.Name) and node.value.id in inl.objs and depth <= 3:
                    pm = inl.prog.lookup_method(inl.objs[node.value.id], node.attr)
                    if pm is not None and pm.is_property:
                        e = inl.expr_value_of(pm)
                        if e is not None:
                            inl.expanded[pm.qualname] = inl.expanded.get(pm.qualname, 0) + 1
                            return ast.copy_location(_Rename({"self": ast.Name(id=node.value.id, ctx=ast.Load())}).visit(copy.deepcopy(e)), node)
                # a read of a NEW expression-like property of self (`self._num_slacks`) is replaced by its expression
                if isinstance(node.ctx, ast.Load) and isinstance(node.value, ast.Name) and node.value.id == "self" and depth <= 3:
                    cls = inl.prog.enclosing_class(fi)
                    if cls is not None:
                        ms = inl.prog.dispatch(cls, node.attr)
                        if len(ms) == 1 and ms[0].is_property and ms[0].qualname not in inl.known and ms[0] is not fi \
                                and not any("cached" in d for d in getattr(ms[0], "decorators", [])):
                            e = inl.expr_value_of(ms[0])
                            if e is not None:
                                inl.expanded[ms[0].qualname] = inl.expanded.get(ms[0].qualname, 0) + 1
                                return ast.copy_location(copy.deepcopy(e), node)
                return node

            def visit_FunctionDef(self, node):
                return node

            visit_Lambda = visit_FunctionDef

        # only the statement's own expressions, not nested statement bodies
        if isinstance(st, (ast.If, ast.While)):
            st.test = T().visit(st.test)
        elif isinstance(st, ast.For):
            st.iter = T().visit(st.iter)
        elif isinstance(st, (ast.Try, ast.With, ast.FunctionDef, ast.ClassDef, ast.AsyncFunctionDef)):
            pass
        else:
            st = T().visit(st)
        return ast.fix_missing_locations(st)

    _PURE_CALLS = {"bool", "float", "int", "len", "abs", "str", "tuple", "list"}

    def _hoist(self, fi, st: ast.stmt, depth: int) -> Optional[List[ast.stmt]]:
        """`return f(self._helper(a) <= tol)` with a statement-like NEW helper: evaluate the helper first into a temporary (expanded
        in place), then the statement with the temporary.  Done only when the helper call is the first impure thing the statement
        evaluates (everything evaluated before it is a name, constant, attribute or a pure builtin), so the order of effects is kept."""
        if not isinstance(st, (ast.Return, ast.Assign, ast.Expr, ast.AugAssign, ast.AnnAssign)) or depth > 3:
            return None
        root = st.value if not isinstance(st, ast.AugAssign) else st.value
        if root is None:
            return None
        order: List[ast.AST] = []

        def visit(n):
            # evaluation order: operands left to right, then the node itself
            if isinstance(n, (ast.Lambda, ast.ListComp, ast.SetComp, ast.DictComp, ast.GeneratorExp, ast.IfExp, ast.BoolOp)):
                order.append(n)   # conditional / deferred evaluation inside: treated as opaque
                return
            for c in ast.iter_child_nodes(n):
                visit(c)
            order.append(n)
        visit(root)
        target = None
        for n in order:
            if isinstance(n, ast.Call):
                callee, _ = self._target(fi, n)
                if callee is not None and n is not root and self.expr_value_of(callee) is None:
                    target = n
                    break
                d = n.func.id if isinstance(n.func, ast.Name) else None
                if d in self._PURE_CALLS:
                    continue
                return None   # some other call is evaluated first
            if isinstance(n, (ast.Lambda, ast.ListComp, ast.SetComp, ast.DictComp, ast.GeneratorExp, ast.IfExp, ast.BoolOp, ast.Await, ast.Yield, ast.YieldFrom, ast.NamedExpr)):
                return None
        if target is None:
            return None
        self.counter += 1
        tmp = f"__inl{self.counter}_val"
        asg = ast.copy_location(ast.Assign(targets=[ast.Name(id=tmp, ctx=ast.Store())], value=target), st)
        ast.fix_missing_locations(asg)
        rep = self.expand_stmt(fi, asg, depth)
        if rep is None:
            return None

        class R(ast.NodeTransformer):
            def visit_Call(self, node):
                if node is target:
                    return ast.copy_location(ast.Name(id=tmp, ctx=ast.Load()), node)
                return self.generic_visit(node)
        new_st = R().visit(st)
        ast.fix_missing_locations(new_st)
        return rep + self.expand_block(fi, [new_st], depth + 1)

    def expand_block(self, fi, body: List[ast.stmt], depth: int = 0) -> List[ast.stmt]:
        if depth > 4:
            return body
        out: List[ast.stmt] = []
        for st in body:
            rep = self.expand_stmt(fi, st, depth)
            if rep is not None:
                out += rep
                continue
            h = self._hoist(fi, st, depth)
            if h is not None:
                out += h
                continue
            if isinstance(st, ast.If) and isinstance(st.test, ast.BoolOp) and isinstance(st.test.op, ast.And) and not st.orelse and isinstance(st.test.values[-1], ast.Call):
                # `if a and self._helper(..): body`  ->  `if a: if self._helper(..): body`   (same short-circuit order)
                callee, _ = self._target(fi, st.test.values[-1])
                self._recv_name.pop(id(st.test.values[-1]), None)
                if callee is not None and self.expr_value_of(callee) is None:
                    head = st.test.values[:-1]
                    outer_test = head[0] if len(head) == 1 else ast.copy_location(ast.BoolOp(op=ast.And(), values=head), st.test)
                    inner = ast.copy_location(ast.If(test=st.test.values[-1], body=st.body, orelse=[]), st)
                    st = ast.copy_location(ast.If(test=outer_test, body=[inner], orelse=[]), st)
                    ast.fix_missing_locations(st)
            if isinstance(st, ast.If):
                # `if self._helper(..):` with a statement-like helper: evaluate it first, then test the result
                inner = st.test.operand if isinstance(st.test, ast.UnaryOp) and isinstance(st.test.op, ast.Not) else st.test
                if isinstance(inner, ast.Call):
                    callee, _ = self._target(fi, inner)
                    if callee is not None and self.expr_value_of(callee) is None:
                        self.counter += 1
                        tmp = f"__inl{self.counter}_test"
                        asg = ast.copy_location(ast.Assign(targets=[ast.Name(id=tmp, ctx=ast.Store())], value=inner), st)
                        ast.fix_missing_locations(asg)
                        rep = self.expand_stmt(fi, asg, depth)
                        if rep is not None:
                            out += rep
                            nm = ast.copy_location(ast.Name(id=tmp, ctx=ast.Load()), st.test)
                            st.test = nm if inner is st.test else ast.copy_location(ast.UnaryOp(op=ast.Not(), operand=nm), st.test)
            st = self.expand_exprs(fi, st, depth)
            for fld in ("body", "orelse", "finalbody"):
                sub = getattr(st, fld, None)
                if isinstance(sub, list) and sub and isinstance(sub[0], ast.stmt) and not isinstance(st, (ast.FunctionDef, ast.AsyncFunctionDef, ast.ClassDef)):
                    setattr(st, fld, self.expand_block(fi, sub, depth))
            if isinstance(st, ast.Try):
                for h in st.handlers:
                    h.body = self.expand_block(fi, h.body, depth)
            out.append(st)
        return out

    def run(self) -> None:
        unknown = [q for q in self.prog.functions if q not in self.known and "<locals>" not in q]
        if not unknown:
            return
        for q, fi in list(self.prog.functions.items()):
            if q not in self.known or not isinstance(fi.node, (ast.FunctionDef, ast.AsyncFunctionDef)):
                continue
            # cheap pre-test: does it mention an unknown helper's name at all?
            names = {u.rsplit(".", 1)[-1] for u in unknown} | {u.rsplit(".", 2)[-2] for u in unknown if u.count(".") >= 2}
            if not any((isinstance(n, ast.Attribute) and n.attr in names) or (isinstance(n, ast.Name) and n.id in names) for n in ast.walk(fi.node)):
                continue
            new = copy.deepcopy(fi.node)
            before = ast.dump(new)
            self._current_module = fi.module
            self.objs = {}
            new.body = self.expand_block(fi, new.body, 0)
            # a helper's tuple result that is only splatted into another helper's call (`n = _norms(..); self._f(.., *n)`): spell the
            # call with the elements and expand once more
            from .model import _SplitTupleAssign as _STA, _splat_literal_tuples, _dissolve_records_in as _DRI
            _DRI(ast.Module(body=[new], type_ignores=[]))
            if _splat_literal_tuples(ast.Module(body=[new], type_ignores=[])):
                new.body = self.expand_block(fi, new.body, 0)
            def dissolve_objs():
                _merge_alias_temps(new)
                objs = self._find_objs(fi, new.body)
                if objs:
                    self.objs = objs
                    body2 = self.expand_block(fi, copy.deepcopy(new.body), 0)
                    # only if every method call on the objects could be expanded (no `v.m(..)` call is left) are the fields promoted
                    left = [n for b_ in body2 for n in ast.walk(b_) if isinstance(n, ast.Call) and isinstance(n.func, ast.Attribute) and isinstance(n.func.value, ast.Name)
                            and n.func.value.id in objs and self.prog.lookup_method(objs[n.func.value.id], n.func.attr) is not None]
                    # ... and no property of theirs is still read as an attribute (it would be mistaken for a field)
                    left += [n for b_ in body2 for n in ast.walk(b_) if isinstance(n, ast.Attribute) and isinstance(n.value, ast.Name) and n.value.id in objs
                             and getattr(self.prog.lookup_method(objs[n.value.id], n.attr), "is_property", False)]
                    if not left:
                        new.body = self._fields_to_locals(body2, objs)
                        for ci in objs.values():
                            for m in ci.methods.values():
                                self.expanded[m.qualname] = self.expanded.get(m.qualname, 0) + 1
                    self.objs = {}
            dissolve_objs()
            if ast.dump(new) != before:
                from .model import _SplitTupleAssign, _dissolve_records_in
                _dissolve_records_in(ast.Module(body=[new], type_ignores=[]))
                from .model import _splat_literal_tuples as _slt, _FoldLiteralTests
                _slt(ast.Module(body=[new], type_ignores=[]))
                new = _FoldLiteralTests().visit(new)
                new = _SplitTupleAssign().visit(new)
                _inline_local_procs(new)
                _hoist_common_tails(new)
                _propagate_copies(new)
                _sink_temp_copies(new)
                if _slt(ast.Module(body=[new], type_ignores=[])):       # a tuple result that became literal only now
                    new = _SplitTupleAssign().visit(new)
                # results handed over as (nested) tuples / keyword dicts: split, forward the pieces, splat - twice, as one enables the other
                from .model import _splat_literal_dicts as _sld
                for _ in range(2):
                    d0 = ast.dump(new)
                    _retarget_tuple_defs(new)
                    new = _SplitTupleAssign().visit(new)
                    _propagate_copies(new)
                    _sld(ast.Module(body=[new], type_ignores=[]))
                    _slt(ast.Module(body=[new], type_ignores=[]))
                    if ast.dump(new) == d0:
                        break
                # an object a factory helper built and returned under a temporary name is only now bound to its own name
                if _merge_alias_temps(new):
                    dissolve_objs()
                    new = _SplitTupleAssign().visit(new)
                    _propagate_copies(new)
                from .model import _sink_returns, _unflag_loops, _inline_branch_flags
                _inline_branch_flags(ast.Module(body=[new], type_ignores=[]))
                _sink_returns(ast.Module(body=[new], type_ignores=[]))
                _unflag_loops(ast.Module(body=[new], type_ignores=[]))
                ast.fix_missing_locations(new)
                fi.raw_node = fi.node
                self.prog._by_node.pop(id(fi.node), None)
                fi.node = new
                self.prog._by_node[id(new)] = fi
                fi._assigns = None
                # nested closures were re-created by the deep copy: re-index them; closures that came in with an expanded helper
                # are new nested functions of this function
                for sub in self.prog._nested_defs(new):
                    if isinstance(sub, (ast.FunctionDef, ast.AsyncFunctionDef)) and sub.name in fi.nested:
                        nf = fi.nested[sub.name]
                        nf.node = sub
                        self.prog._by_node[id(sub)] = nf
                    elif isinstance(sub, (ast.FunctionDef, ast.AsyncFunctionDef)):
                        self.prog._index_stmt(fi.module, sub, None, fi)
        # helpers whose every use was expanded are absorbed by their callers: they are not analysed on their own
        changed = True
        while changed:
          changed = False
          for q in unknown:
            h = self.prog.functions[q]
            if getattr(h, "absorbed", False):
                continue
            name = h.name
            used = False
            for q2, f2 in self.prog.functions.items():
                if f2 is h or (q2 not in self.known and q2.startswith(q + ".")):
                    continue
                if getattr(f2, "absorbed", False):
                    # a use inside a helper that itself lives on only in its callers is not a use
                    continue
                for n in ast.walk(f2.node):
                    if isinstance(n, ast.Attribute) and n.attr == name:
                        # a method / property of the helper's class hierarchy, or `module.helper` for a module-level helper
                        if h.cls is not None and (f2.cls is None or not (set(self.prog.mro(f2.cls)) & set(self.prog.mro(h.cls)) or h.cls in self.prog.all_subclasses(f2.cls) or f2.cls in self.prog.all_subclasses(h.cls))):
                            recv_t = self.prog.infer_type(f2, n.value) if hasattr(self.prog, "infer_type") else set()
                            if recv_t and not any(h.cls in self.prog.mro(t_) for t_ in recv_t):
                                continue
                            used = True
                            break
                        if h.cls is not None:
                            used = True
                            break
                        if isinstance(n.value, ast.Name) and n.value.id in f2.module.imports and f2.module.imports[n.value.id][0] == h.module.name:
                            used = True
                            break
                        continue
                    if isinstance(n, ast.Name) and n.id == name and isinstance(n.ctx, ast.Load) and h.cls is None:
                        # the same module, or a module that imports the helper
                        if f2.module is h.module or f2.module.imports.get(name, (None, None))[0] == h.module.name:
                            used = True
                            break
                if used:
                    break
            if not used and self.expanded.get(q):
                h.absorbed = True
                changed = True
                for nf in h.nested.values():
                    nf.absorbed = True
                # the class no longer "has" the method as far as the rules are concerned: its code lives in the callers now
                if h.cls is not None and h.cls.methods.get(h.name) is h:
                    h.cls.absorbed_methods = getattr(h.cls, "absorbed_methods", {})
                    h.cls.absorbed_methods[h.name] = h.cls.methods.pop(h.name)
