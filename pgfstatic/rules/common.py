"""helpers shared by the property rules."""
from __future__ import annotations

import ast
from typing import Dict, Iterable, Iterator, List, Optional, Sequence, Tuple

from ..model import AnalysisError, ClassInfo, FuncInfo, Program, dotted, own_nodes, unparse
from ..symex import FuncFacts, StmtInfo, atoms_of, facts_for, resolve, phi_alternatives, is_call_to, PHI, LOOP

Atom = Tuple[str, str, Optional[str]]


def U(e) -> str:
    return unparse(e) if isinstance(e, ast.AST) else str(e)


def short(stmt: ast.AST, n: int = 100) -> str:
    s = unparse(stmt).split("\n")[0]
    return s if len(s) <= n else s[: n - 3] + "..."


def const_value(e: ast.AST):
    """numeric literal value of e (handles unary minus), else None."""
    if isinstance(e, ast.Constant) and isinstance(e.value, (int, float)) and not isinstance(e.value, bool):
        return e.value
    if isinstance(e, ast.UnaryOp) and isinstance(e.op, ast.USub):
        v = const_value(e.operand)
        return None if v is None else -v
    if isinstance(e, ast.UnaryOp) and isinstance(e.op, ast.UAdd):
        return const_value(e.operand)
    return None


def returns_of(fi: FuncInfo) -> List[ast.Return]:
    return [n for n in own_nodes(fi.node) if isinstance(n, ast.Return)]


def stmts_of(ff: FuncFacts, kind) -> List[StmtInfo]:
    return [s for s in ff.order if isinstance(s.stmt, kind)]


def has_fact(si: StmtInfo, op: str, lhs: str, rhs: Optional[str]) -> bool:
    return (op, lhs, rhs) in si.facts


def find_facts(si: StmtInfo, op: Optional[str] = None, lhs_pred=None, rhs_pred=None) -> List[Atom]:
    out = []
    for a in si.facts:
        if op is not None and a[0] != op:
            continue
        if lhs_pred is not None and not lhs_pred(a[1]):
            continue
        if rhs_pred is not None and (a[2] is None or not rhs_pred(a[2])):
            continue
        out.append(a)
    return out


def enum_member(prog: Program, fi: FuncInfo, e: ast.AST, enum_qualname: str) -> Optional[str]:
    """if e is `<Enum>.<Member>` for the given repo enum class return the member name."""
    if isinstance(e, ast.Attribute):
        tgt = prog.resolve_expr_static(fi.module, e.value)
        if isinstance(tgt, ClassInfo) and tgt.qualname == enum_qualname:
            return e.attr
    return None


def enum_members(prog: Program, enum_qualname: str) -> List[str]:
    ci = prog.cls(enum_qualname)
    out = []
    for st in ci.node.body:
        if isinstance(st, ast.Assign) and len(st.targets) == 1 and isinstance(st.targets[0], ast.Name):
            out.append(st.targets[0].id)
    return out


def all_uses_of_enum_member(prog: Program, enum_qualname: str, member: str):
    """[(FuncInfo|None, module, node, parent_stmt)] for every `<Enum>.<member>` expression in the package."""
    out = []
    for mod in prog.modules.values():
        for fi in [f for f in prog.functions.values() if f.module is mod]:
            for n in own_nodes(fi.node):
                if isinstance(n, ast.Attribute) and n.attr == member and enum_member(prog, fi, n, enum_qualname) == member:
                    out.append((fi, n))
    return out


def parent_map(root: ast.AST) -> Dict[int, ast.AST]:
    pm = {}
    for p in ast.walk(root):
        for c in ast.iter_child_nodes(p):
            pm[id(c)] = p
    return pm


def enclosing_stmt(ff: FuncFacts, node: ast.AST) -> Optional[StmtInfo]:
    return ff.stmt_of(node)


def is_self_attr(e: ast.AST, attr: Optional[str] = None) -> bool:
    return isinstance(e, ast.Attribute) and isinstance(e.value, ast.Name) and e.value.id == "self" and (attr is None or e.attr == attr)


def call_name(c: ast.Call) -> str:
    return dotted(c.func) or unparse(c.func)


def np_call(e: ast.AST, *names: str) -> bool:
    """e is a call np.<name> / numpy.<name> (any of names)."""
    if not isinstance(e, ast.Call):
        return False
    d = dotted(e.func) or ""
    return any(d in (f"np.{n}", f"numpy.{n}", f"np.linalg.{n}", f"numpy.linalg.{n}") for n in names)


def kwarg(c: ast.Call, name: str) -> Optional[ast.AST]:
    for k in c.keywords:
        if k.arg == name:
            return k.value
    return None


def arg_of(c: ast.Call, pos: int, name: Optional[str] = None) -> Optional[ast.AST]:
    if len(c.args) > pos and not any(isinstance(a, ast.Starred) for a in c.args[: pos + 1]):
        return c.args[pos]
    if name is not None:
        return kwarg(c, name)
    return None


def bind_args(callee: FuncInfo, call: ast.Call, skip_self: bool = True) -> Optional[Dict[str, ast.AST]]:
    """map callee parameter names to argument expressions (None if it does not fit)."""
    a = callee.node.args
    names = [x.arg for x in a.posonlyargs + a.args]
    if skip_self and callee.cls is not None and not callee.is_static and names and names[0] in ("self", "cls"):
        names = names[1:]
    out: Dict[str, ast.AST] = {}
    if any(isinstance(x, ast.Starred) for x in call.args) or any(k.arg is None for k in call.keywords):
        return None
    if len(call.args) > len(names) and a.vararg is None:
        return None
    for n, v in zip(names, call.args):
        out[n] = v
    for k in call.keywords:
        if k.arg in out:
            return None
        if k.arg not in names and k.arg not in [x.arg for x in a.kwonlyargs] and a.kwarg is None:
            return None
        out[k.arg] = k.value
    # defaults
    defaults = a.defaults
    pos_names = [x.arg for x in a.posonlyargs + a.args]
    for n, d in zip(pos_names[len(pos_names) - len(defaults):], defaults):
        if n not in out and n in names:
            out[n] = d
    for x, d in zip(a.kwonlyargs, a.kw_defaults):
        if x.arg not in out and d is not None:
            out[x.arg] = d
    missing = [n for n in names if n not in out] + [x.arg for x, d in zip(a.kwonlyargs, a.kw_defaults) if d is None and x.arg not in out]
    if missing:
        return None
    return out


def single_return_expr(fi: FuncInfo) -> Optional[ast.AST]:
    rs = returns_of(fi)
    if len(rs) == 1 and rs[0].value is not None:
        return facts_for(fi).resolved(rs[0], rs[0].value)
    return None


def require(cond, msg: str):
    if not cond:
        raise AnalysisError(msg)


def result_sites(fi, ff):
    """(statement, value expression) pairs at which the function's result is built: the `return <expr>` statements, or - for
    `return <name>` - the assignments of a call to that name (single-exit style).  Facts/environment are taken at that statement."""
    out = []
    for r in returns_of(fi):
        v = r.value
        if isinstance(v, ast.Name):
            defs = [s.stmt for s in ff.order if isinstance(s.stmt, ast.Assign) and len(s.stmt.targets) == 1 and isinstance(s.stmt.targets[0], ast.Name)
                    and s.stmt.targets[0].id == v.id]
            if defs and all(isinstance(d.value, ast.Call) for d in defs) and ff.at(r).index > max(ff.at(d).index for d in defs):
                out.extend((d, d.value) for d in defs)
                continue
        out.append((r, v))
    return out


class UnknownAtom(Exception):
    pass


def fact_holds(fact, atom_value) -> bool:
    """truth of one path fact under a valuation of atoms.  atom_value(atom) -> bool or raises UnknownAtom; compound
    `truthy`/`falsy` facts (disjunctions kept opaque by the fact extractor) are evaluated structurally."""
    try:
        return atom_value(fact)
    except UnknownAtom:
        pass
    op, l, r = fact
    if op in ("truthy", "falsy") and r is None:
        try:
            e = ast.parse(l, mode="eval").body
        except SyntaxError:
            raise UnknownAtom(l)
        v = bool_eval(e, atom_value)
        return v if op == "truthy" else not v
    raise UnknownAtom(str(fact))


def bool_eval(e: ast.AST, atom_value) -> bool:
    if isinstance(e, ast.Constant) and isinstance(e.value, bool):
        return e.value
    if isinstance(e, ast.UnaryOp) and isinstance(e.op, ast.Not):
        return not bool_eval(e.operand, atom_value)
    if isinstance(e, ast.BoolOp):
        if isinstance(e.op, ast.And):
            for v in e.values:          # short-circuit, like the program
                if not bool_eval(v, atom_value):
                    return False
            return True
        for v in e.values:
            if bool_eval(v, atom_value):
                return True
        return False
    if isinstance(e, ast.Call) and dotted(e.func) == "bool" and len(e.args) == 1:
        return bool_eval(e.args[0], atom_value)
    if isinstance(e, ast.IfExp):
        return bool_eval(e.body, atom_value) if bool_eval(e.test, atom_value) else bool_eval(e.orelse, atom_value)
    ats = atoms_of(e, True)
    if len(ats) == 1 and ats[0][0] in ("truthy",) and ats[0][1] == unparse(e):
        return atom_value(ats[0])
    return all(fact_holds(a, atom_value) for a in ats)


class _UnItem(ast.NodeTransformer):
    def visit_Call(self, n):
        self.generic_visit(n)
        if isinstance(n.func, ast.Name) and n.func.id == "__item__" and len(n.args) == 2 and isinstance(n.args[1], ast.Constant):
            return ast.copy_location(ast.Subscript(value=n.args[0], slice=n.args[1], ctx=ast.Load()), n)
        return n


def unitem(e: ast.AST) -> ast.AST:
    """spell tuple-unpacking selections `__item__(X, k)` as the equivalent subscript `X[k]` (so `(_, e) = frexp(v)` and
    `frexp(v)[1]` compare equal)."""
    import copy as _copy
    return ast.fix_missing_locations(_UnItem().visit(_copy.deepcopy(e)))


def value_sites(fi, ff, max_depth: int = 4):
    """(statement, expression) pairs at which the values a function can return are produced: each `return <expr>`, or - for a
    returned local name - the assignments that define it, followed through plain name-to-name copies (single-exit style:
    `status = X` in branches, `return status` at the end).  Facts / environment are to be taken at the returned statement."""
    out = []
    seen = set()

    def expand(stmt, e, depth):
        if isinstance(e, ast.Name) and depth < max_depth:
            lim = ff.at(stmt).index
            defs = [d for d in ff.order if isinstance(d.stmt, (ast.Assign, ast.AnnAssign)) and d.index < lim and getattr(d.stmt, "value", None) is not None
                    and any(isinstance(t, ast.Name) and t.id == e.id for t in (d.stmt.targets if isinstance(d.stmt, ast.Assign) else [d.stmt.target]))]
            if defs:
                for d in defs:
                    if (id(d.stmt), e.id) not in seen:
                        seen.add((id(d.stmt), e.id))
                        expand(d.stmt, d.stmt.value, depth + 1)
                return
        out.append((stmt, e))
    for r in returns_of(fi):
        expand(r, r.value if r.value is not None else ast.Constant(value=None), 0)
    return out


def leaf_stores(ff, name: str, before: Optional[int] = None, depth: int = 0):
    """the assignments that produce the values a local name can hold: its own stores, with plain copies (`a = b`) followed back
    to the stores of `b` (single-exit / inlined-helper style)."""
    out = []
    for s in ff.order:
        if before is not None and s.index >= before:
            continue
        if isinstance(s.stmt, ast.Assign) and any(isinstance(t, ast.Name) and t.id == name for t in s.stmt.targets):
            if isinstance(s.stmt.value, ast.Name) and depth < 4 and s.stmt.value.id != name:
                sub = leaf_stores(ff, s.stmt.value.id, s.index, depth + 1)
                if sub:
                    out += sub
                    continue
            out.append(s)
    return out


def control_result_args(prog, call):
    """fields of a StepControlResult construction, for either spelling: StepControlResult(iterate, lamb, active_set, rcond,
    accepted) or StepControlResult.from_step_result(step_result, lamb, accepted) (iterate / active_set / rcond are then the
    step result's members).  None if `call` is neither."""
    if not isinstance(call, ast.Call):
        return None
    d = dotted(call.func) or ""
    if d == "StepControlResult":
        return bind_args(prog.func("pygradflow.step.step_control.StepControlResult.__init__"), call)
    if d.endswith("StepControlResult.from_step_result"):
        b = bind_args(prog.func("pygradflow.step.step_control.StepControlResult.from_step_result"), call)
        if b is None:
            return None
        sr = b["step_result"]
        out = {"lamb": b["lamb"], "accepted": b["accepted"]}
        for m in ("iterate", "active_set", "rcond"):
            out[m] = ast.copy_location(ast.Attribute(value=sr, attr=m, ctx=ast.Load()), call)
        return out
    return None


def ctor_param_attrs(prog, init, _depth: int = 0):
    """{constructor parameter -> "self.<attr>"} for the parameters an __init__ stores unchanged on the instance, directly
    (`self.params = params`) or by handing them to the base constructor (`super().__init__(problem, params)`); a parameter that
    is reassigned in the constructor is left out.  Inside the constructor `params.rho` then denotes `self.params.rho`."""
    out = {}
    if init is None or _depth > 4:
        return out
    ps = [p for p in init.params if p != "self"]
    reassigned = {t.id for n in own_nodes(init.node) if isinstance(n, (ast.Assign, ast.AugAssign, ast.AnnAssign))
                  for t in (n.targets if isinstance(n, ast.Assign) else [n.target]) if isinstance(t, ast.Name)}
    for n in own_nodes(init.node):
        if isinstance(n, ast.Assign) and len(n.targets) == 1 and is_self_attr(n.targets[0]) and isinstance(n.value, ast.Name) and n.value.id in ps:
            out.setdefault(n.value.id, "self." + n.targets[0].attr)
        if isinstance(n, ast.Call) and isinstance(n.func, ast.Attribute) and n.func.attr == "__init__" and isinstance(n.func.value, ast.Call) \
                and dotted(n.func.value.func) == "super" and init.cls is not None:
            base_init = None
            for b in prog.super_bases(init):
                if "__init__" in b.methods:
                    base_init = b.methods["__init__"]
                    break
            if base_init is None:
                continue
            b_ = bind_args(base_init, n)
            if not b_:
                continue
            inner = ctor_param_attrs(prog, base_init, _depth + 1)
            for bp, attr in inner.items():
                v = b_.get(bp)
                if isinstance(v, ast.Name) and v.id in ps:
                    out.setdefault(v.id, attr)
    return {k: v for k, v in out.items() if k not in reassigned}


def mutation_while_iterating(fi):
    """[(loop, mutating node, container text)]: `for .. in D.items() / D.keys() / D.values() / D` whose body removes from or adds
    to that same container D (del D[k], D.pop, D.clear, D.remove, D.add, D.append ..) without leaving the loop right afterwards.
    For a dict or set the next iteration step raises RuntimeError ("changed size during iteration"); for a list elements are skipped.
    Iterating over a snapshot (list(D.items()), tuple(D), sorted(D), D.copy()) is the accepted idiom and does not match."""
    out = []
    for lp in own_nodes(fi.node):
        if not isinstance(lp, ast.For):
            continue
        it = lp.iter
        if isinstance(it, ast.Call) and isinstance(it.func, ast.Attribute) and it.func.attr in ("items", "keys", "values") and not it.args:
            cont = it.func.value
        elif isinstance(it, (ast.Name, ast.Attribute)):
            cont = it
        else:
            continue
        ctxt = unparse(cont)
        pm = parent_map(lp)
        for n in ast.walk(ast.Module(body=lp.body, type_ignores=[])):
            hit = None
            if isinstance(n, ast.Delete):
                for t in n.targets:
                    if isinstance(t, ast.Subscript) and unparse(t.value) == ctxt:
                        hit = n
            elif isinstance(n, ast.Expr) and isinstance(n.value, ast.Call) and isinstance(n.value.func, ast.Attribute) and unparse(n.value.func.value) == ctxt \
                    and n.value.func.attr in ("pop", "popitem", "clear", "remove", "discard", "add", "append", "insert", "extend", "update", "setdefault"):
                hit = n
            elif isinstance(n, ast.Assign) and isinstance(n.value, ast.Call) and isinstance(n.value.func, ast.Attribute) and unparse(n.value.func.value) == ctxt \
                    and n.value.func.attr in ("pop", "popitem"):
                hit = n
            if hit is None:
                continue
            # leaving the loop right after the mutation is safe
            par = pm.get(id(hit))
            blk = None
            for fld in ("body", "orelse", "finalbody"):
                b = getattr(par, fld, None)
                if isinstance(b, list) and any(x is hit for x in b):
                    blk = b
            if par is None and any(x is hit for x in lp.body):
                blk = lp.body
            nxt = None
            if blk is not None:
                k = [i for i, x in enumerate(blk) if x is hit][0]
                nxt = blk[k + 1] if k + 1 < len(blk) else None
            if isinstance(nxt, (ast.Break, ast.Return, ast.Raise)):
                continue
            out.append((lp, hit, ctxt))
    return out


def mask_eval(e: ast.AST, atom_value) -> bool:
    """truth of an element-wise boolean mask expression (&, |, ~, ^, np.logical_and / _or / _not / _xor) under a valuation of its
    atoms; atom_value(text) -> bool or raises UnknownAtom."""
    if isinstance(e, ast.BinOp) and isinstance(e.op, (ast.BitAnd, ast.BitOr, ast.BitXor)):
        a, b = mask_eval(e.left, atom_value), mask_eval(e.right, atom_value)
        return (a and b) if isinstance(e.op, ast.BitAnd) else ((a or b) if isinstance(e.op, ast.BitOr) else (a != b))
    if isinstance(e, ast.UnaryOp) and isinstance(e.op, (ast.Invert, ast.Not)):
        return not mask_eval(e.operand, atom_value)
    if isinstance(e, ast.Call):
        d = (dotted(e.func) or "").split(".")[-1]
        if d in ("logical_and", "logical_or", "logical_xor") and len(e.args) == 2:
            a, b = mask_eval(e.args[0], atom_value), mask_eval(e.args[1], atom_value)
            return (a and b) if d == "logical_and" else ((a or b) if d == "logical_or" else (a != b))
        if d in ("logical_not", "invert") and len(e.args) == 1:
            return not mask_eval(e.args[0], atom_value)
    return atom_value(unparse(e))


def late_binding_closures(fn: ast.AST):
    """Closures created inside a loop that read a variable the loop re-binds, and that outlive the iteration (appended to /
    stored in a container or attribute, returned, yielded): when they run, the variable holds the value of the LAST iteration for
    all of them.  Returns [(closure node, variable name, escaping statement)].  A closure that binds the variable as a default
    argument (`lambda z, j=j: ..`) or is only called inside the iteration is fine."""
    out = []

    def loop_bound(lp):
        names = set()
        if isinstance(lp, (ast.For, ast.AsyncFor)):
            names |= {x.id for x in ast.walk(lp.target) if isinstance(x, ast.Name)}

        def walk(n):
            for c in ast.iter_child_nodes(n):
                if isinstance(c, (ast.FunctionDef, ast.AsyncFunctionDef, ast.Lambda, ast.ClassDef)):
                    continue
                if isinstance(c, ast.Name) and isinstance(c.ctx, ast.Store):
                    names.add(c.id)
                walk(c)
        for b in lp.body:
            if isinstance(b, ast.Name) and isinstance(b.ctx, ast.Store):
                names.add(b.id)
            walk(b)
        return names

    def free_reads(cl):
        a = cl.args
        params = {x.arg for x in a.posonlyargs + a.args + a.kwonlyargs} | ({a.vararg.arg} if a.vararg else set()) | ({a.kwarg.arg} if a.kwarg else set())
        body = cl.body if isinstance(cl.body, list) else [cl.body]
        local = {x.id for b in body for x in ast.walk(b) if isinstance(x, ast.Name) and isinstance(x.ctx, ast.Store)}
        return {x.id for b in body for x in ast.walk(b) if isinstance(x, ast.Name) and isinstance(x.ctx, ast.Load)} - params - local

    def closures_in(stmts):
        found = []

        def walk(n):
            for c in ast.iter_child_nodes(n):
                if isinstance(c, (ast.FunctionDef, ast.AsyncFunctionDef, ast.Lambda)):
                    found.append(c)
                    continue
                if isinstance(c, ast.ClassDef):
                    continue
                walk(c)
        for s in stmts:
            if isinstance(s, (ast.FunctionDef, ast.AsyncFunctionDef)):
                found.append(s)
            else:
                walk(s)
        return found

    for lp in ast.walk(fn):
        if not isinstance(lp, (ast.For, ast.AsyncFor, ast.While)):
            continue
        bound = loop_bound(lp)
        parents = {}
        for n in ast.walk(lp):
            for c in ast.iter_child_nodes(n):
                parents[id(c)] = n
        for cl in closures_in(lp.body):
            captured = free_reads(cl) & bound
            if isinstance(cl, (ast.FunctionDef, ast.AsyncFunctionDef)):
                captured.discard(cl.name)
            if not captured:
                continue
            esc = None
            if isinstance(cl, ast.Lambda):
                p = parents.get(id(cl))
                # stored: `xs.append(lambda ..)`, `d[k] = lambda ..`, `obj.attr = lambda ..`, returned / yielded
                if isinstance(p, ast.Call) and isinstance(p.func, ast.Attribute) and p.func.attr in ("append", "insert", "add", "setdefault", "extend") and cl in p.args:
                    esc = p
                elif isinstance(p, ast.Assign) and p.value is cl and any(isinstance(t, (ast.Subscript, ast.Attribute)) for t in p.targets):
                    esc = p
                elif isinstance(p, (ast.Return, ast.Yield)):
                    esc = p
            else:
                for n in ast.walk(lp):
                    if isinstance(n, ast.Name) and n.id == cl.name and isinstance(n.ctx, ast.Load):
                        p = parents.get(id(n))
                        if isinstance(p, ast.Call) and p.func is n:
                            continue            # called
                        if isinstance(p, ast.Attribute):
                            continue            # `f.attr = ..` decorations of the function object
                        if isinstance(p, ast.Call) and isinstance(p.func, ast.Attribute) and p.func.attr in ("append", "insert", "add", "extend") and n in p.args:
                            esc = p
                        elif isinstance(p, ast.Assign) and p.value is n and any(isinstance(t, (ast.Subscript, ast.Attribute)) for t in p.targets):
                            esc = p
                        elif isinstance(p, (ast.Return, ast.Yield)):
                            esc = p
            if esc is not None:
                # a container that is itself created afresh in every iteration does not carry the closure out of the iteration
                base = None
                if isinstance(esc, ast.Call):
                    base = esc.func.value
                elif isinstance(esc, ast.Assign):
                    base = next((t.value for t in esc.targets if isinstance(t, (ast.Subscript, ast.Attribute))), None)
                while isinstance(base, (ast.Attribute, ast.Subscript)):
                    base = base.value
                if isinstance(base, ast.Name) and base.id in bound:
                    continue
                out.append((cl, sorted(captured)[0], esc))
    return out
