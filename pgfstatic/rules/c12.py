"""C12 - counters, callbacks and the recorded path tell one story (loop-body flow + def-use)."""
from __future__ import annotations

import ast
from typing import Dict, List, Optional

from ..loopflow import count_in_path, first_index
from ..model import AnalysisError, FuncInfo, Program, dotted, own_nodes, unparse
from ..symex import atoms_of, facts_for, phi_alternatives
from .common import U, bind_args, const_value, enum_member, is_self_attr, kwarg, np_call, returns_of, short
from .solveloop import is_aug, is_method_call, solve_loop

EXPLANATION = (
    "Path enumeration of the main loop body of Solver.solve: every path to the back edge has exactly one _compute_step, then "
    "exactly one ComputedStep announcement, and one `iteration += 1`; the announcement receives the iterate the step started "
    "from, the step's candidate and its acceptance flag.  The acceptance bookkeeping (iterate replacement, accepted_steps, "
    "path, model time, path length) is control-equivalent: every such statement is guarded by exactly the post-veto acceptance "
    "(plus `path is not None` for the two path lists) and there are no other writes.  The model-time increment is the very dt "
    "that was passed to _compute_step (same reaching definition).  The result fields come from the loop counters and from the "
    "last accepted iterate.  dist_factor is path_dist/direct_dist guarded by direct_dist != 0 (else a literal >= 1) after the "
    "assertion path_dist >= direct_dist; its floating-point truth is not decided."
)


def run(prog: Program, rep, tier: str) -> None:
    rep.explanation = EXPLANATION
    from . import c11 as _c11
    _c11.iterate_defensive_copy(prog, rep)    # an iterate's point is its own: nothing outside can move it after construction
    L = solve_loop(prog)
    sv, ff = L.fi, L.ff
    N = L.names()
    for role in ("iterate", "iteration", "accepted", "lamb"):
        if N.get(role) is None:
            raise AnalysisError(f"Solver.solve: cannot identify the variable playing the role '{role}' in the main loop")
    is_step = lambda n: is_method_call(n, "_compute_step")
    is_inc = lambda n: is_aug(n, N["iteration"])

    def is_cb(n):
        return isinstance(n, ast.Call) and U(n.func) == "self.callbacks" and n.args and enum_member(prog, sv, n.args[0], "pygradflow.callbacks.CallbackType") == "ComputedStep"

    # --- 1. exactly once ---------------------------------------------------------------
    bad = None
    nb = 0
    for p in L.paths:
        if p.end not in ("fall", "continue"):
            continue
        nb += 1
        ns, nc, ni = count_in_path(p, is_step), count_in_path(p, is_cb), count_in_path(p, is_inc)
        order_ok = first_index(p, is_step) < first_index(p, is_cb) if ns == 1 and nc == 1 else False
        if (ns, nc, ni) != (1, 1, 1) or not order_ok:
            bad = (p, ns, nc, ni)
            break
    if bad:
        p, ns, nc, ni = bad
        rep.fail("one-step-one-announcement-one-count", sv.qualname, f"path with {ns} steps, {nc} announcements, {ni} increments",
                 f"VIOLATED: a loop iteration can complete with {ns} step computation(s), {nc} ComputedStep announcement(s) and {ni} counter increment(s) "
                 f"(decisions: {[('T' if it[2] else 'F') + ':' + U(it[1])[:40] for it in p.items if it[0] == 'test']})", sv.loc(L.loop))
    else:
        rep.ok("one-step-one-announcement-one-count", sv.short, f"each of the {nb} back-edge paths has one step, then one announcement, and one increment")
    for p in L.paths:
        if p.end in ("break", "return") and count_in_path(p, is_step) > 0:
            rep.fail("one-step-one-announcement-one-count", sv.qualname, "exit after step without announcement", "VIOLATED: the loop can be left after a step computation without announcing it", sv.loc(L.loop))
            break

    # --- 2. announcement arguments --------------------------------------------------------
    sa = L.step_args()
    cps = [p for p in L.compute_step.params if p != "self"]
    itp, dtp = cps[1], cps[3]
    cbs = [n for n in ast.walk(L.loop) if is_cb(n)]
    rep.pin("ComputedStep announcement sites", len(cbs), 1)
    for c in cbs:
        si = L.si(c)
        a = [ff.resolved(si.stmt, x) for x in c.args[1:]]
        ok = len(a) == 3 and U(a[0]) == U(sa[itp]) and U(a[1]).endswith(".iterate") and "_compute_step(" in U(a[1]) and not U(a[1]).startswith("__phi__") \
            and U(a[2]).endswith(".accepted") and "_compute_step(" in U(a[2])
        rep.check(ok, "announcement-arguments", sv.qualname, short(si.stmt),
                  "the announcement carries (iterate the step started from, the step's candidate iterate, the step's acceptance flag)", sv.loc(c))

    # --- 3. acceptance is one block ---------------------------------------------------------------
    base = L.completed_iteration_facts()

    def extra_facts(si):
        return [f for f in si.facts if f not in base]

    groups = {
        "the carried iterate": L.stores_in_loop(N["iterate"]),
        "the accepted-step counter": L.stores_in_loop(N["accepted"]),
    }
    if N.get("path_dist"):
        groups["the accumulated path length"] = L.stores_in_loop(N["path_dist"])
    appends = {"path": [], "times": []}
    for s in ff.order:
        if L.in_loop(s) and isinstance(s.stmt, ast.Expr) and is_method_call(s.stmt.value, "append") and isinstance(s.stmt.value.func.value, ast.Name):
            nm = s.stmt.value.func.value.id
            for role in ("path", "times"):
                if N.get(role) == nm:
                    appends[role].append(s)
    path_names = {N.get("path"), N.get("times")} - {None}
    for s in ff.order:
        if not L.in_loop(s):
            continue
        for n in ast.walk(s.stmt) if not isinstance(s.stmt, (ast.If, ast.While, ast.For, ast.Try, ast.With)) else []:
            if isinstance(n, ast.Call) and isinstance(n.func, ast.Attribute) and isinstance(n.func.value, ast.Name) and n.func.value.id in path_names \
                    and n.func.attr not in ("append",):
                rep.fail("acceptance-one-block", sv.qualname, short(s.stmt), "VIOLATED: the recorded path is modified other than by append", sv.loc(s.stmt))
            if isinstance(n, ast.Name) and isinstance(n.ctx, ast.Store) and n.id in path_names:
                rep.fail("acceptance-one-block", sv.qualname, short(s.stmt), "VIOLATED: the recorded path is rebound inside the loop", sv.loc(s.stmt))
    labelled = list(groups.items()) + [("the recorded path", appends["path"]), ("the recorded model times", appends["times"])]
    for name, ss in labelled:
        is_path = name.startswith("the recorded")
        if not is_path or ss:
            rep.check(len(ss) == 1, "acceptance-one-block", sv.qualname, name, f"{name} is updated at exactly one place in the loop (found {len(ss)})", sv.loc(L.loop))
        for s in ss:
            ex = extra_facts(s)
            leftover = []
            veto_ok = L.post_veto_fact(s)
            for f in ex:
                if f[0] == "truthy" and ".accept" in f[1]:
                    continue
                if f[0] == "<" and f[2] == "self.params.lamb_max":
                    continue
                if f[0] == "flag":
                    continue   # a literal flag: what it stands for has been added as the conditions of its True / False assignments
                if is_path and f[0] == "isnot" and f[2] == "None" and "__phi__" in f[1] and "None" in f[1]:
                    continue
                if is_path and f[0] == "truthy" and f[1].endswith("params.collect_path"):
                    continue
                leftover.append(f)
            rep.check(veto_ok and not leftover, "acceptance-one-block", sv.qualname, short(s.stmt),
                      f"`{short(s.stmt, 50)}` is guarded by exactly the post-veto acceptance" + (" and the path-collection switch" if is_path else "") +
                      (f" (unexpected extra conditions: {[(a[0], a[1][:60], a[2]) for a in leftover]})" if leftover else ""), sv.loc(s.stmt))
    for s in groups["the carried iterate"]:
        v = U(ff.resolved(s.stmt, s.stmt.value))
        rep.check(v.endswith(".iterate") and "_compute_step(" in v, "acceptance-one-block", sv.qualname, short(s.stmt), "the new iterate is the candidate of this trial step", sv.loc(s.stmt))
    for s in groups["the accepted-step counter"]:
        rep.check(isinstance(s.stmt, ast.AugAssign) and isinstance(s.stmt.op, ast.Add) and const_value(s.stmt.value) == 1, "acceptance-one-block", sv.qualname, short(s.stmt),
                  "the accepted-step counter is incremented by one", sv.loc(s.stmt))
    for s in appends["path"]:
        v = U(ff.resolved(s.stmt, s.stmt.value.args[0]))
        rep.check(v.endswith(".iterate.z") and "_compute_step(" in v, "acceptance-one-block", sv.qualname, short(s.stmt), "the path records the accepted candidate's z", sv.loc(s.stmt))
    d = L.last_def_before_loop(N["accepted"])
    rep.check(d is not None and const_value(d.stmt.value) == 0, "acceptance-one-block", sv.qualname, "accepted-step counter = 0", "the accepted-step counter starts at 0", sv.loc())
    # initial path / times are paired
    lists = {}
    for s in ff.order:
        if s.index >= L.loop_si.index or not isinstance(s.stmt, (ast.Assign, ast.AnnAssign)):
            continue
        tg = (s.stmt.targets if isinstance(s.stmt, ast.Assign) else [s.stmt.target])[0]
        if isinstance(tg, ast.Name) and tg.id in path_names and isinstance(s.stmt.value, ast.List) and len(s.stmt.value.elts) == 1:
            from ..symex import simplify_under as _su
            lists[tg.id] = (s, _su(ff.resolved(s.stmt, s.stmt.value.elts[0]), s.facts))    # `z if collect else None` under `if collect:` is z
    ok_init = False
    if N.get("path") in lists and N.get("times") in lists:
        sp, vp = lists[N["path"]]
        st_, vt = lists[N["times"]]
        # the time list may also be initialised unconditionally (it is only read when the path is collected)
        ok_init = all(f in sp.facts for f in st_.facts) and U(vp).endswith(".z") and "create_transformed_iterate" in U(vp) and const_value(vt) == 0
    if appends["path"] or appends["times"]:
        rep.check(ok_init, "path-initialisation", sv.qualname, "path = [initial_iterate.z]; path_times = [0.0]",
                  "the path starts with the transformed start point at model time 0 (both lists initialised together)", sv.loc())

    # --- 4. model time uses the step size that was used ----------------------------------------------
    for s in appends["times"]:
        v = ff.resolved(s.stmt, s.stmt.value.args[0])
        inc = None
        if isinstance(v, ast.BinOp) and isinstance(v.op, ast.Add):
            for a, b in ((v.left, v.right), (v.right, v.left)):
                if U(a).endswith("[-1]"):
                    inc = b
        rep.check(inc is not None and U(inc) == U(sa[dtp]), "model-time-increment", sv.qualname, short(s.stmt),
                  f"model time advances by the dt that was passed to _compute_step in this iteration (increment {U(inc) if inc is not None else None}; dt argument {U(sa[dtp])})", sv.loc(s.stmt))
    rep.pin("model-time append sites", len(appends["times"]), 1)

    # --- 5. result fields --------------------------------------------------------------------------------
    res = [n for n in own_nodes(sv.node) if isinstance(n, ast.Call) and dotted(n.func) == "SolverResult"]
    if len(res) != 1:
        raise AnalysisError("Solver.solve builds not exactly one SolverResult")
    si = ff.stmt_of(res[0])
    r_init = prog.func("pygradflow.result.SolverResult.__init__")
    b = bind_args(r_init, res[0])
    if b is None:
        raise AnalysisError("cannot bind SolverResult arguments")
    rv = {k: U(ff.resolved(si.stmt, v)) for k, v in b.items() if isinstance(v, ast.AST)}
    IT = f"__loop__('{N['iterate']}'"
    rep.check(rv.get("iterations", "").startswith(f"__loop__('{N['iteration']}'"), "result-fields", sv.qualname, "iterations", "result.iterations is the loop counter", sv.loc(res[0]))
    rep.check(rv.get("num_accepted_steps", "").startswith(f"__loop__('{N['accepted']}'"), "result-fields", sv.qualname, "num_accepted_steps", "result.num_accepted_steps is the acceptance counter", sv.loc(res[0]))
    want_restore = f"self.transform.restore_sol({IT}"
    for k, idx in (("x", 0), ("y", 1), ("d", 2)):
        t = rv.get(k, "")
        ok = t.startswith(f"__item__({want_restore}") and t.endswith(f", {idx})") and "_compute_step(" not in t
        rep.check(ok, "result-fields", sv.qualname, k, f"result.{k} is component {idx} of restore_sol applied to the last accepted iterate", sv.loc(res[0]))
    rs_calls = [n for n in own_nodes(sv.node) if is_method_call(n, "restore_sol")]
    for c in rs_calls:
        s2 = ff.stmt_of(c)
        a = [U(ff.resolved(s2.stmt, x)) for x in c.args]
        ok = len(a) == 3 and a[0].endswith(".x") and a[1].endswith(".y") and a[2].endswith(".bounds_dual") and all(x.startswith(IT) for x in a)
        rep.check(ok, "result-fields", sv.qualname, short(s2.stmt), "restore_sol receives (iterate.x, iterate.y, iterate.bounds_dual) of the last accepted iterate", sv.loc(c))
    sp_calls = [n for n in own_nodes(sv.node) if is_method_call(n, "_set_path")]
    for c in sp_calls:
        if N.get("path") is None or N.get("times") is None:
            break   # path recording not in the recognised form: decided (as an analysis error) by L.path_lists() below
        s2 = ff.stmt_of(c)
        from ..symex import simplify_under
        pv = U(simplify_under(ff.resolved(s2.stmt, ast.Name(id=N["path"] or "path", ctx=ast.Load())), s2.facts))
        tv = U(simplify_under(ff.resolved(s2.stmt, ast.Name(id=N["times"] or "path_times", ctx=ast.Load())), s2.facts))
        a = [U(simplify_under(ff.resolved(s2.stmt, x), s2.facts)) for x in c.args]
        ok = len(a) == 2 and a[0] == f"np.vstack({pv}).T" and a[1] == f"np.hstack({tv})"
        rep.check(ok, "result-fields", sv.qualname, short(s2.stmt), "_set_path receives the stacked path (one column per point) and the stacked model times", sv.loc(c))
    path_shape_dims(prog, rep, rv.get("problem"), sv, res[0])
    dist_factor(prog, rep, L, res[0], si)
    pass_through(prog, rep)
    registry(prog, rep)
    L.path_lists()   # analysis error (after everything that could be decided) if the path recording left the recognised form
    # announcements go to this solver's own registry
    init = prog.func("pygradflow.solver.Solver.__init__")
    cb = [n for n in own_nodes(init.node) if isinstance(n, ast.Assign) and any(U(t) == "self.callbacks" for t in n.targets)]
    ok = len(cb) == 1 and isinstance(cb[0].value, ast.Call) and dotted(cb[0].value.func) == "Callbacks" and not cb[0].value.args
    rep.check(ok, "own-callback-registry", init.qualname, short(cb[0]) if cb else "self.callbacks", "every Solver creates its own callback registry (announcements cannot leak between solvers)", init.loc())


def registry(prog, rep) -> None:
    """every announcement reaches every registered callback: the registry is a per-type list, register appends a fresh handle,
    unregister removes exactly that handle, and __call__ invokes each stored handle unconditionally with the arguments given.
    Any other container discipline (keys, indices, weak references) is not understood -> analysis error, not a verdict."""
    c = prog.cls("pygradflow.callbacks.Callbacks")
    reg, unreg, call = c.methods.get("register"), c.methods.get("unregister"), c.methods.get("__call__")
    if reg is None or unreg is None or call is None:
        raise AnalysisError("Callbacks no longer has register / unregister / __call__")
    fr = facts_for(reg)
    tp, cb = [p for p in reg.params if p != "self"][:2]
    apps = [n for n in own_nodes(reg.node) if isinstance(n, ast.Call) and isinstance(n.func, ast.Attribute) and n.func.attr == "append"]
    stores = [n for n in own_nodes(reg.node) if isinstance(n, ast.Subscript) and isinstance(n.ctx, ast.Store)]
    if len(apps) != 1 or stores:
        raise AnalysisError("Callbacks.register does not append to a per-type list (registry not in a recognised form)")
    si = fr.stmt_of(apps[0])
    recv = U(fr.resolved(si.stmt, apps[0].func.value))
    arg = U(fr.resolved(si.stmt, apps[0].args[0])) if apps[0].args else ""
    ok = recv == f"self._callbacks[{tp}]" and arg == f"CallbackHandle({tp}, {cb})" and not [f for f in si.facts]
    rets = returns_of(reg)
    ok = ok and len(rets) == 1 and U(fr.resolved(rets[0], rets[0].value)) == arg
    rep.check(ok, "registry-delivers-to-all", reg.qualname, short(si.stmt), "register appends a fresh handle for (type, callback) to that type's list, unconditionally, and returns it", reg.loc(apps[0]))
    fc = facts_for(call)
    ctp = [p for p in call.params if p != "self"][0]
    loops = [x for x in fc.order if isinstance(x.stmt, ast.For)]
    ok = False
    if len(loops) == 1 and isinstance(loops[0].stmt.target, ast.Name):
        lp = loops[0].stmt
        it = U(fc.resolved(lp, lp.iter))
        src_ok = it in (f"self._callbacks[{ctp}]", f"list(self._callbacks[{ctp}])", f"tuple(self._callbacks[{ctp}])", f"self._callbacks[{ctp}][:]")
        body = [b for b in lp.body if not (isinstance(b, ast.Expr) and isinstance(b.value, ast.Constant))]
        inv = len(body) == 1 and isinstance(body[0], ast.Expr) and isinstance(body[0].value, ast.Call) and U(body[0].value.func) == lp.target.id \
            and [U(a) for a in body[0].value.args] == [f"*{call.node.args.vararg.arg}" if call.node.args.vararg else "?"] \
            and [k.arg for k in body[0].value.keywords] == [None]
        ok = src_ok and inv and not loops[0].facts and not lp.orelse
    rep.check(ok, "registry-delivers-to-all", call.qualname, short(loops[0].stmt) if loops else "__call__",
              "an announcement invokes every handle stored for its type, unconditionally, with the announced arguments", call.loc())
    fu = facts_for(unreg)
    hp = [p for p in unreg.params if p != "self"][0]
    rm = [n for n in own_nodes(unreg.node) if isinstance(n, ast.Call) and isinstance(n.func, ast.Attribute) and n.func.attr in ("remove", "pop", "clear") or isinstance(n, ast.Delete)]
    ok = False
    if len(rm) == 1 and isinstance(rm[0], ast.Call) and rm[0].func.attr == "remove":
        s_rm = fu.stmt_of(rm[0])
        ok = U(fu.resolved(s_rm.stmt, rm[0].func.value)) == f"self._callbacks[{hp}.callback_type]" and [U(fu.resolved(s_rm.stmt, a)) for a in rm[0].args] == [hp] and not s_rm.facts
    rep.check(ok, "registry-delivers-to-all", unreg.qualname, U(rm[0])[:80] if rm else "unregister", "unregister removes exactly the given handle (no other callback loses its registration)", unreg.loc())


def path_shape_rule(prog, rep) -> None:
    """entry point for C06 (the _set_path assertion must be unreachable)."""
    sv = prog.func("pygradflow.solver.Solver.solve")
    ff = facts_for(sv)
    res = [n for n in own_nodes(sv.node) if isinstance(n, ast.Call) and dotted(n.func) == "SolverResult"]
    if len(res) != 1:
        raise AnalysisError("Solver.solve builds not exactly one SolverResult")
    b = bind_args(prog.func("pygradflow.result.SolverResult.__init__"), res[0])
    if b is None or "problem" not in b:
        raise AnalysisError("cannot bind SolverResult arguments")
    path_shape_dims(prog, rep, U(ff.resolved(ff.stmt_of(res[0]).stmt, b["problem"])), sv, res[0])


def path_shape_dims(prog, rep, problem_arg, sv, res_call) -> None:
    """_set_path asserts path.shape == (num_vars + num_cons, #times); the recorded columns are the z = (x, y) of iterates of
    the TRANSFORMED problem (slacks included), so the two dimensions must be read off the transformed problem the solver
    passes - not off the restored x / y, whose slack block is stripped."""
    sr = prog.cls("pygradflow.result.SolverResult")
    sp_ = sr.methods.get("_set_path")
    if sp_ is None:
        raise AnalysisError("SolverResult._set_path not found")
    ff = facts_for(sp_)
    pth = [p for p in sp_.params if p != "self"][0]
    dims = None
    for s in ff.order:
        if isinstance(s.stmt, ast.Assert):
            t = ff.resolved(s.stmt, s.stmt.test)
            if isinstance(t, ast.Compare) and len(t.ops) == 1 and isinstance(t.ops[0], ast.Eq):
                for a, b in ((t.left, t.comparators[0]), (t.comparators[0], t.left)):
                    if U(a) == f"{pth}.shape" and isinstance(b, ast.Tuple) and len(b.elts) == 2:
                        dims = b.elts[0]
    if dims is None:
        rep.note("SolverResult._set_path asserts nothing about the number of rows of the path")
        return
    attrs = sorted({U(n) for n in ast.walk(dims) if isinstance(n, ast.Attribute) and isinstance(n.value, ast.Name) and n.value.id == "self"})
    init = sr.methods["__init__"]
    fi_ = facts_for(init)
    pr = [p for p in init.params if p != "self"][0]
    srcs = {}
    for s in fi_.order:
        if isinstance(s.stmt, (ast.Assign, ast.AnnAssign)):
            tgs = s.stmt.targets if isinstance(s.stmt, ast.Assign) else [s.stmt.target]
            for t in tgs:
                for el in (t.elts if isinstance(t, ast.Tuple) else [t]):
                    if U(el) in attrs:
                        srcs.setdefault(U(el), []).append(U(fi_.resolved(s.stmt, s.stmt.value)) if not isinstance(t, ast.Tuple) else "unpack:" + U(fi_.resolved(s.stmt, s.stmt.value)))
    want = {f"{pr}.num_vars", f"{pr}.num_cons"}
    got = {v for vs in srcs.values() for v in vs}
    ok = isinstance(dims, ast.BinOp) and isinstance(dims.op, ast.Add) and len(attrs) == 2 and got == want and all(len(v) == 1 for v in srcs.values())
    rep.check(ok, "path-shape-dims", init.qualname, "self.num_vars / self.num_cons",
              f"the row count _set_path asserts, {U(dims)}, is num_vars + num_cons of the problem object handed to the result (sources found: {sorted(got)})", init.loc())
    sinit = prog.func("pygradflow.solver.Solver.__init__")
    fs = facts_for(sinit)
    st = [s for s in fs.order if isinstance(s.stmt, ast.Assign) and any(U(t) == "self.problem" for t in s.stmt.targets)]
    ok2 = problem_arg == "self.problem" and len(st) == 1 and U(fs.resolved(st[0].stmt, st[0].stmt.value)).endswith(".trans_problem")
    rep.check(ok2, "path-shape-dims", sv.qualname, "SolverResult(problem, ...)",
              f"the result is built for the transformed problem, whose iterates form the path (argument: {problem_arg})", sv.loc(res_call))


def pass_through(prog, rep) -> None:
    """the step size (and iterate, penalty) the solver hands to a trial is the one the controller's step() receives."""
    for q, callee_attr in (("pygradflow.solver.Solver._compute_step", "compute_step"), ("pygradflow.step.step_control.StepController.compute_step", "step")):
        f = prog.func(q)
        ff = facts_for(f)
        calls = [n for n in own_nodes(f.node) if is_method_call(n, callee_attr)]
        if len(calls) != 1:
            raise AnalysisError(f"{f.short}: expected one call of {callee_attr}")
        si = ff.stmt_of(calls[0])
        ps = [p for p in f.params if p != "self"]
        want = [p for p in ps if p != "controller"]
        got = [U(ff.resolved(si.stmt, a)) for a in calls[0].args]
        kw_ok = not calls[0].keywords
        if calls[0].keywords:
            # keyword spelling: order the arguments by the callee's parameters
            tg = [t for t in prog.resolve_call_target(f, calls[0]) if isinstance(t, FuncInfo)]
            if not tg:
                base = prog.cls("pygradflow.step.step_control.StepController")
                tg = [base.methods[callee_attr]] if callee_attr in base.methods else []
            b_ = bind_args(tg[0], calls[0]) if tg else None
            if b_ is not None:
                cps = [p for p in tg[0].params if p != "self"]
                if all(p in b_ and isinstance(b_[p], ast.AST) for p in cps[:len(want)]):
                    got = [U(ff.resolved(si.stmt, b_[p])) for p in cps[:len(want)]]
                    kw_ok = len(b_) >= len(want)
        rep.check(got == want and kw_ok, "trial-uses-given-step-size", f.qualname, short(si.stmt),
                  f"{f.name} hands its own (iterate, rho, dt, display, timer) unchanged to {callee_attr} (found {got})", f.loc(calls[0]))


def dist_factor(prog, rep, L, res_call, res_si) -> None:
    """result.dist_factor is P / D guarded by D != 0 (else a literal >= 1), D the distance between the final and the initial
    iterate, after `assert P >= D (or close)`; accepted in the conditional-expression and in the if/else form."""
    sv, ff = L.fi, L.ff
    v = kwarg(res_call, "dist_factor")
    if v is None:
        rep.fail("dist-factor-shape", sv.qualname, "SolverResult(...)", "VIOLATED: SolverResult receives no dist_factor", sv.loc(res_call))
        return
    val = ff.resolved(res_si.stmt, v)
    alts = phi_alternatives(val)
    divs = [a for a in alts if isinstance(a, ast.BinOp) and isinstance(a.op, ast.Div)]
    consts = [a for a in alts if const_value(a) is not None]
    if len(alts) == 1 and len(divs) == 1:
        rep.fail("dist-factor-shape", sv.qualname, "dist_factor", f"VIOLATED: dist_factor is the bare quotient {U(val)[:80]} with no special case for a run that ends where it started "
                 f"(zero displacement must give a factor of at least one)", sv.loc(res_call))
        return
    if len(alts) != 2 or len(divs) != 1 or len(consts) != 1:
        raise AnalysisError(f"dist_factor is not in a recognised form (quotient / constant alternatives): {U(val)[:120]}")
    P, D = U(divs[0].left), U(divs[0].right)
    ok_shape = D.endswith(")") and ".dist(" in D and "create_transformed_iterate" in D and const_value(consts[0]) >= 1
    # the guard
    guard = False
    if isinstance(val, ast.IfExp):
        at = atoms_of(val.test, True)
        guard = (at == [("!=", D, "0.0")] or at == [("!=", D, "0")]) and val.body is not None and U(val.body) == U(divs[0])
        if not guard:
            at = atoms_of(val.test, True)
            guard = at in ([("==", D, "0.0")], [("==", D, "0")]) and U(val.orelse) == U(divs[0])
    else:
        # if/else statement form: find the two stores
        raw = v
        if isinstance(raw, ast.Name):
            def leaf_stores(nm, depth=0):
                out_ = []
                for s in ff.order:
                    if isinstance(s.stmt, ast.Assign) and any(isinstance(t, ast.Name) and t.id == nm for t in s.stmt.targets):
                        if isinstance(s.stmt.value, ast.Name) and depth < 4:
                            out_ += leaf_stores(s.stmt.value.id, depth + 1)     # a plain copy: follow it
                        else:
                            out_.append(s)
                return out_
            stores = leaf_stores(raw.id)
            g1 = g2 = False
            for s in stores:
                rvv = ff.resolved(s.stmt, s.stmt.value)
                if U(rvv) == U(divs[0]):
                    g1 = ("!=", D, "0.0") in s.facts or ("!=", D, "0") in s.facts
                elif const_value(rvv) is not None:
                    g2 = ("==", D, "0.0") in s.facts or ("==", D, "0") in s.facts
            guard = g1 and g2
    asserted = False
    for q in ff.order:
        if isinstance(q.stmt, ast.Assert) and q.index < res_si.index:
            t = U(ff.resolved(q.stmt, q.stmt.test))
            if f"{D} <= {P}" in t:
                asserted = True
            # split form: `if not P >= D: assert np.isclose(P, D)`
            if ("<", P, D) in q.facts and t in (f"np.isclose({P}, {D})", f"np.isclose({D}, {P})"):
                asserted = True
    rep.check(ok_shape and guard and asserted, "dist-factor-shape", sv.qualname, "dist_factor",
              f"dist_factor is path_length/direct_distance where the distance is non-zero and a literal >= 1 otherwise, after asserting path_length >= direct_distance "
              f"(quotient {P[:40]} / {D[:60]}; guard ok: {guard}; asserted: {asserted})", sv.loc(res_call))
