"""C12 - counters, callbacks and the recorded path tell one story (loop-body flow + def-use)."""
from __future__ import annotations

import ast
from typing import Dict, List, Optional

from ..loopflow import count_in_path, first_index
from ..model import AnalysisError, FuncInfo, Program, dotted, own_nodes, unparse
from ..symex import atoms_of, facts_for
from .common import U, bind_args, const_value, enum_member, is_self_attr, kwarg, np_call, returns_of, short
from .solveloop import is_aug, is_method_call, solve_loop

EXPLANATION = (
    "Path enumeration of the main loop body of Solver.solve: every path to the back edge has exactly one _compute_step, then "
    "exactly one ComputedStep announcement, and one `iteration += 1`; the announcement receives the iterate the step started "
    "from, the step's candidate and its acceptance flag.  The acceptance bookkeeping (iterate replacement, accepted_steps, "
    "path, model time, path length) is control-equivalent: every such statement is guarded by exactly the post-veto acceptance "
    "(plus `path is not None` for the two path lists) and there are no other writes.  The model-time increment is the very dt "
    "that was passed to _compute_step (same reaching definition).  The result fields come from the loop counters and from the "
    "last accepted iterate.  dist_factor is path_dist/direct_dist guarded by direct_dist != 0 (else a literal >= 1) after the "
    "assertion path_dist >= direct_dist; its floating-point truth is not decided."
)


def run(prog: Program, rep, tier: str) -> None:
    rep.explanation = EXPLANATION
    L = solve_loop(prog)
    sv, ff = L.fi, L.ff
    is_step = lambda n: is_method_call(n, "_compute_step")
    is_inc = lambda n: is_aug(n, "iteration")

    def is_cb(n):
        return isinstance(n, ast.Call) and U(n.func) == "self.callbacks" and n.args and enum_member(prog, sv, n.args[0], "pygradflow.callbacks.CallbackType") == "ComputedStep"

    # --- 1. exactly once ---------------------------------------------------------------
    bad = None
    nb = 0
    for p in L.paths:
        if p.end not in ("fall", "continue"):
            continue
        nb += 1
        ns, nc, ni = count_in_path(p, is_step), count_in_path(p, is_cb), count_in_path(p, is_inc)
        order_ok = first_index(p, is_step) < first_index(p, is_cb) if ns == 1 and nc == 1 else False
        if (ns, nc, ni) != (1, 1, 1) or not order_ok:
            bad = (p, ns, nc, ni)
            break
    if bad:
        p, ns, nc, ni = bad
        rep.fail("one-step-one-announcement-one-count", sv.qualname, f"path with {ns} steps, {nc} announcements, {ni} increments",
                 f"VIOLATED: a loop iteration can complete with {ns} step computation(s), {nc} ComputedStep announcement(s) and {ni} counter increment(s) "
                 f"(decisions: {[('T' if it[2] else 'F') + ':' + U(it[1])[:40] for it in p.items if it[0] == 'test']})", sv.loc(L.loop))
    else:
        rep.ok("one-step-one-announcement-one-count", sv.short, f"each of the {nb} back-edge paths has one step, then one announcement, and one increment")
    # after the step, the only other exit is the lamb_max raise
    for p in L.paths:
        if p.end in ("break", "return") and count_in_path(p, is_step) > 0:
            rep.fail("one-step-one-announcement-one-count", sv.qualname, "exit after step without announcement", "VIOLATED: the loop can be left after a step computation without announcing it", sv.loc(L.loop))
            break

    # --- 2. announcement arguments --------------------------------------------------------
    sa = L.step_args()
    itp = [p for p in L.compute_step.params if p != "self"][1]
    cbs = [n for n in ast.walk(L.loop) if is_cb(n)]
    rep.pin("ComputedStep announcement sites", len(cbs), 1)
    for c in cbs:
        si = L.si(c)
        a = [ff.resolved(si.stmt, x) for x in c.args[1:]]
        ok = len(a) == 3 and U(a[0]) == U(sa[itp]) and U(a[1]).endswith(".iterate") and "_compute_step(" in U(a[1]) and not U(a[1]).startswith("__phi__") \
            and U(a[2]).endswith(".accepted") and "_compute_step(" in U(a[2])
        rep.check(ok, "announcement-arguments", sv.qualname, short(si.stmt),
                  "the announcement carries (iterate the step started from, the step's candidate iterate, the step's acceptance flag)", sv.loc(c))

    # --- 3. acceptance is one block ---------------------------------------------------------------
    incs = [q for q in ff.order if L.in_loop(q) and is_inc(q.stmt)]
    base = list(incs[-1].facts) if incs else L.loop_base_facts()  # what every completed iteration satisfies

    def extra_facts(si):
        return [f for f in si.facts if f not in base]

    groups = {
        "iterate": [s for s in L.stores_in_loop("iterate")],
        "accepted_steps": L.stores_in_loop("accepted_steps"),
        "path_dist": L.stores_in_loop("path_dist"),
    }
    appends = {"path": [], "path_times": []}
    for s in ff.order:
        if L.in_loop(s) and isinstance(s.stmt, ast.Expr) and is_method_call(s.stmt.value, "append") and isinstance(s.stmt.value.func.value, ast.Name) \
                and s.stmt.value.func.value.id in appends:
            appends[s.stmt.value.func.value.id].append(s)
    # any other mutation of the path lists in the loop
    for s in ff.order:
        if not L.in_loop(s):
            continue
        for n in ast.walk(s.stmt) if not isinstance(s.stmt, (ast.If, ast.While, ast.For, ast.Try, ast.With)) else []:
            if isinstance(n, ast.Call) and isinstance(n.func, ast.Attribute) and isinstance(n.func.value, ast.Name) and n.func.value.id in ("path", "path_times") \
                    and n.func.attr not in ("append",):
                rep.fail("acceptance-one-block", sv.qualname, short(s.stmt), "VIOLATED: the recorded path is modified other than by append", sv.loc(s.stmt))
            if isinstance(n, ast.Name) and isinstance(n.ctx, ast.Store) and n.id in ("path", "path_times"):
                rep.fail("acceptance-one-block", sv.qualname, short(s.stmt), "VIOLATED: the recorded path is rebound inside the loop", sv.loc(s.stmt))
    for name, ss in list(groups.items()) + list(appends.items()):
        if name in ("iterate", "accepted_steps") or ss:
            rep.check(len(ss) == 1, "acceptance-one-block", sv.qualname, name, f"`{name}` is updated at exactly one place in the loop (found {len(ss)})", sv.loc(L.loop))
        for s in ss:
            ex = extra_facts(s)
            # allowed: the post-veto acceptance, the lamb_max guard having passed, and `path is not None` for the path lists
            allowed = []
            veto_ok = L.post_veto_fact(s)
            for f in ex:
                if f[0] == "truthy" and ".accept" in f[1]:
                    continue
                if f[0] == "<" and f[2] == "self.params.lamb_max":
                    continue
                if name in appends and f[0] == "isnot" and f[2] == "None" and "__phi__" in f[1] and "None" in f[1]:
                    continue
                allowed.append(f)
            rep.check(veto_ok and not allowed, "acceptance-one-block", sv.qualname, short(s.stmt),
                      f"`{short(s.stmt, 50)}` is guarded by exactly the post-veto acceptance" + (" and `path is not None`" if name in appends else "") +
                      (f" (unexpected extra conditions: {[(a[0], a[1][:60], a[2]) for a in allowed]})" if allowed else ""), sv.loc(s.stmt))
    # values
    for s in groups["iterate"]:
        v = U(ff.resolved(s.stmt, s.stmt.value))
        rep.check(v.endswith(".iterate") and "_compute_step(" in v, "acceptance-one-block", sv.qualname, short(s.stmt), "the new iterate is the candidate of this trial step", sv.loc(s.stmt))
    for s in groups["accepted_steps"]:
        rep.check(isinstance(s.stmt, ast.AugAssign) and isinstance(s.stmt.op, ast.Add) and const_value(s.stmt.value) == 1, "acceptance-one-block", sv.qualname, short(s.stmt),
                  "accepted_steps is incremented by one", sv.loc(s.stmt))
    for s in appends["path"]:
        v = U(ff.resolved(s.stmt, s.stmt.value.args[0]))
        rep.check(v.endswith(".iterate.z") and "_compute_step(" in v, "acceptance-one-block", sv.qualname, short(s.stmt), "the path records the accepted candidate's z", sv.loc(s.stmt))
    d = L.last_def_before_loop("accepted_steps")
    rep.check(d is not None and const_value(d.stmt.value) == 0, "acceptance-one-block", sv.qualname, "accepted_steps = 0", "accepted_steps starts at 0", sv.loc())
    # initial path / times are paired
    p0 = L.last_def_before_loop("path")
    t0 = L.last_def_before_loop("path_times")
    inits = [s for s in ff.order if s.index < L.loop_si.index and isinstance(s.stmt, (ast.Assign, ast.AnnAssign)) and
             any(isinstance(t, ast.Name) and t.id in ("path", "path_times") for t in (s.stmt.targets if isinstance(s.stmt, ast.Assign) else [s.stmt.target]))]
    ok_init = False
    lists = {}
    for s in inits:
        tg = (s.stmt.targets if isinstance(s.stmt, ast.Assign) else [s.stmt.target])[0].id
        if isinstance(s.stmt.value, ast.List) and len(s.stmt.value.elts) == 1:
            lists[tg] = (s, ff.resolved(s.stmt, s.stmt.value.elts[0]))
    if "path" in lists and "path_times" in lists:
        sp, vp = lists["path"]
        st_, vt = lists["path_times"]
        ok_init = sp.facts == st_.facts and ("truthy", "self.params.collect_path", None) in sp.facts and U(vp).endswith(".z") and "create_transformed_iterate" in U(vp) and const_value(vt) == 0
    rep.check(ok_init, "path-initialisation", sv.qualname, "path = [initial_iterate.z]; path_times = [0.0]",
              "with collect_path the path starts with the transformed start point at model time 0", sv.loc())

    # --- 4. model time uses the step size that was used ----------------------------------------------
    dtp = [p for p in L.compute_step.params if p != "self"][3]
    for s in appends["path_times"]:
        v = ff.resolved(s.stmt, s.stmt.value.args[0])
        ok = isinstance(v, ast.BinOp) and isinstance(v.op, ast.Add)
        inc = None
        if ok:
            for a, b in ((v.left, v.right), (v.right, v.left)):
                if U(a) == "path_times[-1]" or U(a).endswith("[-1]"):
                    inc = b
        rep.check(inc is not None and U(inc) == U(sa[dtp]), "model-time-increment", sv.qualname, short(s.stmt),
                  f"model time advances by the dt that was passed to _compute_step in this iteration (increment {U(inc) if inc is not None else None}; dt argument {U(sa[dtp])})", sv.loc(s.stmt))
    rep.pin("model-time append sites", len(appends["path_times"]), 1)

    # --- 5. result fields --------------------------------------------------------------------------------
    res = [n for n in own_nodes(sv.node) if isinstance(n, ast.Call) and dotted(n.func) == "SolverResult"]
    if len(res) != 1:
        raise AnalysisError("Solver.solve builds not exactly one SolverResult")
    si = ff.stmt_of(res[0])
    r_init = prog.func("pygradflow.result.SolverResult.__init__")
    b = bind_args(r_init, res[0])
    if b is None:
        raise AnalysisError("cannot bind SolverResult arguments")
    rv = {k: U(ff.resolved(si.stmt, v)) for k, v in b.items() if isinstance(v, ast.AST)}
    rep.check(rv.get("iterations", "").startswith("__loop__('iteration'"), "result-fields", sv.qualname, "iterations", "result.iterations is the loop counter", sv.loc(res[0]))
    rep.check(rv.get("num_accepted_steps", "").startswith("__loop__('accepted_steps'"), "result-fields", sv.qualname, "num_accepted_steps", "result.num_accepted_steps is the acceptance counter", sv.loc(res[0]))
    want_restore = "self.transform.restore_sol(__loop__('iterate'"
    for k, idx in (("x", 0), ("y", 1), ("d", 2)):
        t = rv.get(k, "")
        ok = t.startswith(f"__item__({want_restore}") and t.endswith(f", {idx})") and "_compute_step(" not in t
        rep.check(ok, "result-fields", sv.qualname, k, f"result.{k} is component {idx} of restore_sol applied to the last accepted iterate", sv.loc(res[0]))
    rs_calls = [n for n in own_nodes(sv.node) if is_method_call(n, "restore_sol")]
    for c in rs_calls:
        s2 = ff.stmt_of(c)
        a = [U(ff.resolved(s2.stmt, x)) for x in c.args]
        ok = len(a) == 3 and a[0].startswith("__loop__('iterate'") and a[0].endswith(".x") and a[1].endswith(".y") and a[2].endswith(".bounds_dual") \
            and all(x.startswith("__loop__('iterate'") for x in a)
        rep.check(ok, "result-fields", sv.qualname, short(s2.stmt), "restore_sol receives (iterate.x, iterate.y, iterate.bounds_dual) of the last accepted iterate", sv.loc(c))
    sp_calls = [n for n in own_nodes(sv.node) if is_method_call(n, "_set_path")]
    for c in sp_calls:
        s2 = ff.stmt_of(c)
        a = [U(ff.resolved(s2.stmt, x)) for x in c.args]
        pv = U(ff.resolved(s2.stmt, ast.Name(id="path", ctx=ast.Load())))
        tv = U(ff.resolved(s2.stmt, ast.Name(id="path_times", ctx=ast.Load())))
        ok = len(a) == 2 and a[0] == f"np.vstack({pv}).T" and a[1] == f"np.hstack({tv})"
        rep.check(ok, "result-fields", sv.qualname, short(s2.stmt), "_set_path receives the stacked path (one column per point) and the stacked model times", sv.loc(c))
    # dist_factor
    df = [s for s in ff.order if isinstance(s.stmt, ast.Assign) and any(isinstance(t, ast.Name) and t.id == "dist_factor" for t in s.stmt.targets)]
    for s in df:
        v = s.stmt.value
        ok = isinstance(v, ast.IfExp) and atoms_of(v.test, True) in ([("!=", "direct_dist", "0.0")], [("!=", "direct_dist", "0")]) and \
            U(v.body) == "path_dist / direct_dist" and (const_value(v.orelse) or 0) >= 1
        asserted = any(isinstance(q.stmt, ast.Assert) and q.index < s.index and "path_dist >= direct_dist" in U(q.stmt.test) for q in ff.order)
        rep.check(ok and asserted, "dist-factor-shape", sv.qualname, short(s.stmt),
                  "dist_factor is path_dist/direct_dist for direct_dist != 0 and a literal >= 1 otherwise, after asserting path_dist >= direct_dist", sv.loc(s.stmt))
    rep.check(rv.get("dist_factor", "") != "", "result-fields", sv.qualname, "dist_factor", "result.dist_factor is passed", sv.loc(res[0]))
