"""C15 - step-size control: rejected steps shrink the step and keep the point."""
from __future__ import annotations

import ast
from typing import Dict, List, Optional

from ..excflow import ExcFlow
from ..loopflow import count_in_path, first_index
from ..model import AnalysisError, FuncInfo, Program, dotted, own_nodes, unparse
from ..symex import atoms_of, facts_for, phi_alternatives
from .common import control_result_args, leaf_stores, U, bind_args, const_value, is_self_attr, kwarg, np_call, returns_of, short
from .solveloop import is_method_call, solve_loop
from . import c07, c08

CONTROLLERS = {
    "Exact": "pygradflow.step.exact_control.ExactController",
    "Fixed": "pygradflow.step.fixed_control.FixedStepSizeController",
    "ResiduumRatio": "pygradflow.step.residuum_ratio_control.ResiduumRatioController",
    "DistanceRatio": "pygradflow.step.distance_ratio_control.DistanceRatioController",
}

EXPLANATION = (
    "(1) failure path: the handlers of compute_step return the unchanged parameter iterate, accepted=False and "
    "update_stepsize_after_fail(1/dt) = k/dt with literal k>1 (shared with C07); (2) rejection path: in each in-scope "
    "controller every result whose acceptance flag can be false carries, on those paths, lamb = k*(1/dt) with literal k>1 or "
    "(1/dt)*params.lamb_inc; (3) lambda chaining in Solver.solve: the dt argument of _compute_step is 1/lamb, the definitions "
    "of lamb are params.lamb_init and step_result.lamb (once on every path), and every path from that definition to the next "
    "step passes the test lamb >= params.lamb_max whose branch raises, with no further condition; (4) the iterate changes "
    "only on acceptance (C08); (5) the exact controller returns accepted=True only under ||F(X)|| <= params.newton_tol with F the "
    "unscaled ImplicitFunc of the call's own (problem, iterate, dt) and X the returned iterate; (6) accepted steps stay in the "
    "box (C05's clamp rule).  Premise: params.lamb_inc > 1.  Attaining the Newton tolerance is not decided."
)


def run(prog: Program, rep, tier: str) -> None:
    rep.explanation = EXPLANATION
    rep.assumptions += ["params.lamb_inc > 1 (default 2.0; not validated by Params)"]
    x = ExcFlow(prog)
    c07.containment(prog, rep, x)      # the failure path is only taken if the failure arrives there
    c07.failure_result(prog, rep, x)
    n = 0
    n_ctrl = 0
    for name, q in CONTROLLERS.items():
        k = rejection_paths(prog, rep, name, prog.func(q + ".step"))
        if k == 0:
            raise AnalysisError(f"{q}.step: no StepControlResult construction recognised")
        n += k
        n_ctrl += 1
    rep.pin("controller step methods whose every result construction was examined", n_ctrl, 4)
    rep.note(f"StepControlResult construction sites examined: {n}")
    chaining(prog, rep)
    c08.only_accepted_carried(prog, rep)
    exact_gate(prog, rep)
    clamp(prog, rep)


def _inv_dt(e: ast.AST, dt: str) -> bool:
    return isinstance(e, ast.BinOp) and isinstance(e.op, ast.Div) and const_value(e.left) == 1 and isinstance(e.right, ast.Name) and e.right.id == dt


def shrink_form(e: ast.AST, dt: str) -> Optional[str]:
    """description if e is k*(1/dt) (k>1 literal) or (1/dt)*params.lamb_inc."""
    if isinstance(e, ast.BinOp) and isinstance(e.op, ast.Mult):
        for a, b in ((e.left, e.right), (e.right, e.left)):
            if _inv_dt(a, dt):
                k = const_value(b)
                if k is not None and k > 1:
                    return f"{k}*lambda"
                if U(b) == "self.params.lamb_inc":
                    return "lambda*lamb_inc"
    return None


def rejection_paths(prog: Program, rep, cname: str, step: FuncInfo) -> int:
    ff = facts_for(step)
    params = [p for p in step.params if p != "self"]
    dt = params[2]
    scr = prog.func("pygradflow.step.step_control.StepControlResult.__init__")
    fsr = prog.func("pygradflow.step.step_control.StepControlResult.from_step_result")
    n = 0
    for r in returns_of(step):
        if r.value is None or not isinstance(r.value, ast.Call):
            rep.fail("rejection-shrinks", step.qualname, short(r), "VIOLATED: controller step returns something that is not a StepControlResult construction", step.loc(r))
            continue
        d = dotted(r.value.func) or ""
        if d == "StepControlResult":
            b = bind_args(scr, r.value)
        elif d.endswith("from_step_result"):
            b = bind_args(fsr, r.value)
        else:
            rep.fail("rejection-shrinks", step.qualname, short(r), "VIOLATED: controller step returns something that is not a StepControlResult construction", step.loc(r))
            continue
        if b is None:
            raise AnalysisError(f"cannot bind result construction in {step.short}")
        n += 1
        si = ff.at(r)
        acc = b["accepted"]
        lam = b["lamb"]
        if isinstance(acc, ast.Constant) and acc.value is True:
            rep.ok("rejection-shrinks", step.short, f"{short(r, 60)}: accepted result (no obligation on lambda)", nontrivial=False)
            continue
        if isinstance(acc, ast.Constant) and acc.value is False:
            v = ff.resolved(r, lam)
            sf = shrink_form(v, dt)
            rep.check(sf is not None, "rejection-shrinks", step.qualname, short(r),
                      f"a rejected result carries a strictly larger inverse step size k*(1/dt), k>1 (found {U(v)[:80]})", step.loc(r))
            continue
        # acceptance decided by an expression: find the stores of the lambda variable on the rejecting branch.  The flag may be
        # defined in several places (`accepted = True` on an early-success branch, `accepted = <test>` elsewhere); every definition
        # d contributes (facts of d, value of d) and a lambda store belongs to d when it lies in d's region (facts of d hold there).
        acc_res = ff.resolved(r, acc)
        if not isinstance(lam, ast.Name):
            rep.fail("rejection-shrinks", step.qualname, short(r), "VIOLATED: lambda of a conditionally accepted result is not a variable assigned per branch", step.loc(r))
            continue
        if isinstance(acc, ast.Name):
            flag_defs = [(q.facts, ff.resolved(q.stmt, q.stmt.value), q) for q in ff.order if isinstance(q.stmt, ast.Assign) and len(q.stmt.targets) == 1
                         and isinstance(q.stmt.targets[0], ast.Name) and q.stmt.targets[0].id == acc.id and q.index < si.index]
            if not flag_defs:
                raise AnalysisError(f"{step.short}: the acceptance flag `{acc.id}` has no definition before the return")
        else:
            flag_defs = [(si.facts, acc_res, si)]
        stores = leaf_stores(ff, lam.id, si.index)
        rejecting, accepting = [], []
        for s in stores:
            for dfacts, dval, dq in flag_defs:
                if not all(f in s.facts for f in dfacts):
                    continue
                if isinstance(dval, ast.Constant) and dval.value is True:
                    accepting.append(s)
                elif isinstance(dval, ast.Constant) and dval.value is False:
                    rejecting.append(s)
                else:
                    if all(a in s.facts for a in atoms_of(dval, False)):
                        rejecting.append(s)
                    elif all(a in s.facts for a in atoms_of(dval, True)):
                        accepting.append(s)
        nonconst = [d for d in flag_defs if not isinstance(d[1], ast.Constant)]
        unguarded = [s for s in stores if s not in rejecting and s not in accepting and s.facts == si.facts]
        rep.check((bool(rejecting) or not nonconst) and not unguarded, "rejection-shrinks", step.qualname, short(r),
                  f"the lambda of a conditionally accepted result is assigned separately on the rejecting branch (not {U(acc_res)[:60]})", step.loc(r))
        for s in rejecting:
            v = ff.resolved(s.stmt, s.stmt.value)
            sf = shrink_form(v, dt)
            rep.check(sf is not None, "rejection-shrinks", step.qualname, short(s.stmt),
                      f"on the rejecting branch lambda becomes k*(1/dt) (k>1) or (1/dt)*params.lamb_inc (found {U(v)[:80]})", step.loc(s.stmt))
        # the acceptance flag is the same test that selects the branch: it must not be re-assigned in between
    if cname == "Fixed":
        rep.note("FixedStepSizeController has no rejecting path (every result is accepted=True)")
    return n


def chaining(prog: Program, rep) -> None:
    L = solve_loop(prog)
    sv, ff = L.fi, L.ff
    sa = L.step_args()
    lam = L.names()["lamb"]
    dtp = [p for p in L.compute_step.params if p != "self"][3]
    v = sa[dtp]
    ok = lam is not None and isinstance(v, ast.BinOp) and isinstance(v.op, ast.Div) and const_value(v.left) == 1 and U(v.right).startswith(f"__loop__('{lam}'")
    rep.check(ok, "lambda-chaining", sv.qualname, "dt argument of _compute_step", f"the trial uses dt = 1/lamb of the carried lamb (found {U(v)[:80]})", sv.loc(L.step_calls[0]))
    if lam is None:
        return
    d0 = L.last_def_before_loop(lam)
    rep.check(d0 is not None and U(ff.resolved(d0.stmt, d0.stmt.value)) == "self.params.lamb_init", "lambda-chaining", sv.qualname, short(d0.stmt) if d0 else "",
              "lamb starts at params.lamb_init", sv.loc(d0.stmt) if d0 else sv.loc())
    stores = L.stores_in_loop(lam)
    ok1 = len(stores) == 1
    rep.check(ok1, "lambda-chaining", sv.qualname, "lamb = ...", f"lamb has exactly one definition inside the loop (found {len(stores)})", sv.loc(L.loop))
    if not ok1:
        return
    s = stores[0]
    val = U(ff.resolved(s.stmt, s.stmt.value))
    rep.check(val.endswith(".lamb") and "_compute_step(" in val and "__phi__" not in val, "lambda-chaining", sv.qualname, short(s.stmt),
              "the next lamb is exactly the value returned by this trial", sv.loc(s.stmt))

    def is_cap_test(item):
        if item[0] != "test":
            return False
        at = atoms_of(item[1], True)
        if len(at) != 1 or item[2] is not False:
            # mirrored form `params.lamb_max <= lamb` negated, or nested: accept either polarity that leaves `lamb < lamb_max` on the path
            at2 = atoms_of(item[1], item[2])
            return len(at2) == 1 and at2[0][0] == "<" and at2[0][1] == lam and at2[0][2].endswith("lamb_max")
        return at[0][0] == "<=" and at[0][1].endswith("lamb_max") and at[0][2] == lam
    bad = None
    for p in L.paths:
        if p.end not in ("fall", "continue"):
            continue
        idx = [i for i, it in enumerate(p.items) if it[0] == "stmt" and it[1] is s.stmt]
        if len(idx) != 1:
            bad = f"lamb defined {len(idx)} times on a path"
            break
        caps = [i for i, it in enumerate(p.items) if is_cap_test(it) and i > idx[0]]
        if not caps:
            # the test may come first, on the very value that is then stored: `v = result.lamb; if v >= lamb_max: raise ..; lamb = v`
            for i, it in enumerate(p.items[:idx[0]]):
                if it[0] != "test":
                    continue
                try:
                    rt = ff.resolved(ff.stmt_of(it[1]).stmt, it[1])
                except Exception:
                    continue
                at2 = atoms_of(rt, it[2])
                if len(at2) == 1 and at2[0][0] == "<" and at2[0][1] == val and at2[0][2].endswith("lamb_max"):
                    caps.append(i)
        if not caps:
            bad = "a path from the new lamb to the next trial does not pass the lamb_max test"
            break
    rep.check(bad is None, "lambda-cap", sv.qualname, short(s.stmt), "every completed iteration defines lamb once and then passes the test `lamb >= params.lamb_max`" + (f" ({bad})" if bad else ""), sv.loc(s.stmt))
    raises = [q for q in ff.order if L.in_loop(q) and isinstance(q.stmt, ast.Raise)]
    cap = [q for q in raises if any(f[0] == "<=" and f[1] == "self.params.lamb_max" for f in q.facts)]
    rep.check(len(cap) == 1, "lambda-cap", sv.qualname, "raise", f"the loop has exactly one lamb_max abort (found {len(cap)})", sv.loc(L.loop))
    for q in cap:
        base = ff.at(s.stmt).facts
        extra = [f for f in q.facts if f not in base]
        okc = len(extra) == 1 and extra[0][0] == "<=" and extra[0][1] == "self.params.lamb_max" and extra[0][2] == val
        msg_ok = isinstance(q.stmt.exc, ast.Call) and dotted(q.stmt.exc.func) == "Exception" and q.stmt.exc.args
        rep.check(okc and msg_ok, "lambda-cap", sv.qualname, short(q.stmt),
                  f"the abort is raised whenever the returned lamb >= params.lamb_max, with no further condition (conditions: {[(e[0], e[1][:40], (e[2] or '')[:40]) for e in extra]})", sv.loc(q.stmt))


def exact_gate(prog: Program, rep) -> None:
    step = prog.func(CONTROLLERS["Exact"] + ".step")
    ff = facts_for(step)
    params = [p for p in step.params if p != "self"]
    itp, rhop, dtp = params[0], params[1], params[2]
    scr = prog.func("pygradflow.step.step_control.StepControlResult.__init__")
    n = 0
    for r in returns_of(step):
        b = control_result_args(prog, r.value)
        if b is None or not (isinstance(b["accepted"], ast.Constant) and b["accepted"].value is True):
            if b is not None and not isinstance(b["accepted"], ast.Constant):
                rep.fail("exact-acceptance-gate", step.qualname, short(r), "VIOLATED: exact controller decides acceptance by something other than the literal gate", step.loc(r))
            continue
        n += 1
        si = ff.at(r)
        X = U(ff.resolved(r, b["iterate"]))
        # the gate: np.linalg.norm(ImplicitFunc(self.problem, iterate, dt).value_at(X, rho)) <= self.params.newton_tol
        want = f"np.linalg.norm(ImplicitFunc(self.problem, {itp}, {dtp}).value_at({X}, {rhop}))"
        gate = [(f[0], _inline_nested(step, ff, r, f[1]), f[2]) for f in si.facts if f[0] == "<=" and f[2] == "self.params.newton_tol"]
        ok = any(f[1] == want for f in gate)
        rep.check(ok, "exact-acceptance-gate", step.qualname, short(r),
                  f"accepted=True only under ||ImplicitFunc(problem, iterate, dt).value_at(<returned iterate>, rho)|| <= params.newton_tol "
                  f"(gates found: {[g[1][:110] for g in gate]})", step.loc(r))
    rep.pin("accepting results of the exact controller", n, 1)
    # ImplicitFunc here is the unscaled residual function
    tgt = prog.resolve_symbol(step.module, "ImplicitFunc")
    rep.check(tgt is not None and getattr(tgt, "qualname", "") == "pygradflow.implicit_func.ImplicitFunc", "exact-acceptance-gate", step.qualname, "ImplicitFunc",
              "the residual of the gate is the unscaled implicit-Euler function", step.loc())


def _inline_nested(fi: FuncInfo, ff, at_stmt, text: str) -> str:
    """inline a call to a nested helper (closure) such as func_val(it) -> its return expression."""
    import copy
    from ..symex import resolve
    try:
        e = ast.parse(text, mode="eval").body
    except SyntaxError:
        return text
    if isinstance(e, ast.Call) and isinstance(e.func, ast.Name) and e.func.id in fi.nested and not e.keywords:
        nf = fi.nested[e.func.id]
        rs = returns_of(nf)
        if len(rs) == 1 and len(nf.params) == len(e.args):
            env = dict(ff.at(at_stmt).env)
            for p_, a in zip(nf.params, e.args):
                env[p_] = a
            body = facts_for(nf).resolved(rs[0], rs[0].value)
            return U(resolve(body, env))
    return text


def clamp(prog: Program, rep) -> None:
    """StepResult._compute_xn clamps the new point into [var_lb, var_ub] (two-sided) on every path."""
    # the method of StepResult that stores the new point (by role: `_compute_xn` on the pinned tree; its body may have moved)
    sr_cls = prog.cls("pygradflow.step.solver.step_solver.StepResult")
    cand = [m_ for m_ in sr_cls.methods.values() if any(isinstance(n_, ast.Attribute) and isinstance(n_.ctx, ast.Store) and U(n_) == "self.xn" for n_ in own_nodes(m_.node))]
    if len(cand) != 1:
        raise AnalysisError(f"StepResult: expected one method storing self.xn, found {[c_.name for c_ in cand]}")
    m = cand[0]
    ff = facts_for(m)
    xn_stores = []
    for s in ff.order:
        if isinstance(s.stmt, ast.Assign) and len(s.stmt.targets) == 1:
            t, v_ = s.stmt.targets[0], s.stmt.value
            pairs = list(zip(t.elts, v_.elts)) if isinstance(t, ast.Tuple) and isinstance(v_, ast.Tuple) and len(t.elts) == len(v_.elts) else [(t, v_)]
            for tt, vv in pairs:
                if U(tt) == "self.xn":
                    xn_stores.append((s, vv))
    if not xn_stores:
        raise AnalysisError("StepResult: no store to self.xn")
    # the originating iterate: self.orig_iterate, or (inside __init__) the parameter it is stored from
    oi = "self.orig_iterate"
    for s in ff.order:
        if isinstance(s.stmt, ast.Assign) and any(U(t) == "self.orig_iterate" for t in s.stmt.targets) and isinstance(s.stmt.value, ast.Name) and s.stmt.value.id in m.params:
            oi = s.stmt.value.id
    lbq, ubq = f"{oi}.problem.var_lb", f"{oi}.problem.var_ub"
    for xs, var in xn_stores:
        if not isinstance(var, ast.Name):
            v = ff.resolved(xs.stmt, var)
            ok = np_call(v, "clip") and len(v.args) == 3 and U(v.args[1]) == lbq and U(v.args[2]) == ubq
            if not ok and np_call(v, "minimum") and len(v.args) == 2 and np_call(v.args[0], "maximum") and len(v.args[0].args) == 2:
                ok = U(v.args[1]) == ubq and U(v.args[0].args[1]) == lbq
            rep.check(ok, "accepted-step-in-box", m.qualname, short(xs.stmt),
                      f"the new point is the component-wise clamp of x - dx into [var_lb, var_ub] (found {U(v)[:100]})", m.loc(xs.stmt))
            continue
        name = var.id
        # follow plain copies (also element-wise tuple copies) back to the array that is clamped
        for _ in range(4):
            root = None
            for s in ff.order:
                if s.index >= xs.index:
                    break
                st = s.stmt
                if isinstance(st, ast.Assign) and len(st.targets) == 1:
                    t, v_ = st.targets[0], st.value
                    pairs = list(zip(t.elts, v_.elts)) if isinstance(t, ast.Tuple) and isinstance(v_, ast.Tuple) and len(t.elts) == len(v_.elts) else [(t, v_)]
                    for tt, vv in pairs:
                        if isinstance(tt, ast.Name) and tt.id == name and isinstance(vv, ast.Name):
                            root = vv.id
            if root is None:
                break
            name = root
        base = None
        clamps = {"lower": False, "upper": False}
        for s in ff.order:
            if s.index >= xs.index:
                break
            st = s.stmt
            if isinstance(st, ast.Assign) and len(st.targets) == 1:
                t = st.targets[0]
                if isinstance(t, ast.Name) and t.id == name:
                    base = ff.resolved(st, st.value)
                    clamps = {"lower": False, "upper": False}
                if isinstance(t, ast.Subscript) and U(t.value) == name and all(f in xs.facts for f in s.facts):
                    idx = ff.resolved(st, t.slice)
                    val = ff.resolved(st, st.value)
                    it = U(idx)
                    for side, bnd in (("lower", lbq), ("upper", ubq)):
                        at = atoms_of(idx, True)
                        if len(at) == 1:
                            a = at[0]
                            hit = (side == "lower" and a[0] == "<" and a[2] == bnd) or (side == "upper" and a[0] == "<" and a[1] == bnd)
                            if hit and U(val) == f"{bnd}[{it}]":
                                clamps[side] = True
        rep.check(clamps["lower"] and clamps["upper"], "accepted-step-in-box", m.qualname, short(xs.stmt),
                  f"on every path the point stored as the new x was clamped on both sides against the problem's var_lb / var_ub before (found {clamps})", m.loc(xs.stmt))
        rep.check(base is not None and U(base).startswith(f"{oi}.x - ") and U(base)[len(f"{oi}.x - "):] in m.params, "accepted-step-in-box", m.qualname, "xn = iterate.x - dx",
                  "the clamped point is x - dx of the originating iterate", m.loc())
