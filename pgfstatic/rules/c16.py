"""C16 - the penalty parameter is positive and never decreases (monotone-update analysis)."""
from __future__ import annotations

import ast
from typing import List, Optional

from ..model import AnalysisError, ClassInfo, FuncInfo, Program, dotted, own_nodes, unparse
from ..symex import facts_for, phi_alternatives, is_call_to, PHI
from .common import ctor_param_attrs, result_sites, U, const_value, is_self_attr, returns_of, short, np_call, kwarg
from . import c18

PS = "pygradflow.penalty.PenaltyStrategy"

EXPLANATION = (
    "Every store to a policy's rho and every penalty value a policy returns is evaluated in an order domain relative to "
    "old = self.rho at entry: old*k (literal k>=1), max(..) with one argument >= old, min(..) with all arguments >= old, "
    "phi nodes (all alternatives), and values X for which a dominating test/assert gives old < X, old <= X or k*old <= X. "
    "Obligation: each is >= old.  The solver's own rho is written only by the -1 sentinel, initial() and the accepted "
    "update, and every trial step receives self.rho.  Constant policy: no attribute store, returns params.rho.  "
    "Dual-norm: the stored value is min(.., ||y_candidate||_inf, .., k*old) with k <= 10, so it is bounded by the candidate's "
    "multiplier norm and by ten times the old value.  Positivity follows from the premise params.rho > 0."
)


def _is_old(e: ast.AST) -> bool:
    return U(e) == "self.rho"


def _times_old(e: ast.AST) -> Optional[float]:
    """k if e is k*self.rho / self.rho*k with literal k."""
    if _is_old(e):
        return 1.0
    if isinstance(e, ast.BinOp) and isinstance(e.op, ast.Mult):
        for a, b in ((e.left, e.right), (e.right, e.left)):
            k = const_value(b)
            if k is not None:
                inner = _times_old(a)
                if inner is not None:
                    return inner * k
    return None


def geq_old(e: ast.AST, facts, depth=0, blessed=()) -> bool:
    if depth > 8:
        return False
    k = _times_old(e)
    if k is not None:
        return k >= 1.0
    if U(e) in blessed:
        return True
    if _fact_geq(e, facts):
        return True
    if isinstance(e, ast.Call) and isinstance(e.func, ast.Name):
        if e.func.id == "max" and e.args:
            return any(geq_old(a, facts, depth + 1, blessed) for a in e.args)
        if e.func.id == "min" and e.args:
            return all(geq_old(a, facts, depth + 1, blessed) for a in e.args)
        if e.func.id == PHI:
            return all(geq_old(a, facts, depth + 1, blessed) for a in e.args)
        if e.func.id == "float" and len(e.args) == 1:
            return geq_old(e.args[0], facts, depth + 1, blessed)
    return False


def _fact_geq(e: ast.AST, facts) -> bool:
    t = U(e)
    for op, l, r in facts:
        if r is None:
            continue
        if op in ("<", "<=") and r == t:
            try:
                le = ast.parse(l, mode="eval").body
            except SyntaxError:
                continue
            kk = _times_old(le)
            if kk is not None and kk >= 1.0:
                return True
    return False


def strategies_with_state(prog: Program):
    """the penalty policies that keep a rho of their own (some method of the class hierarchy stores self.rho)"""
    base = prog.cls(PS)
    out = []
    for c in prog.all_subclasses(base, include_self=False):
        if c.subclasses:
            continue
        stores = any(isinstance(n, ast.Attribute) and isinstance(n.ctx, ast.Store) and n.attr == "rho" and is_self_attr(n)
                     for k in prog.mro(c) for m in k.methods.values() for n in own_nodes(m.node))
        upd = prog.lookup_method(c, "update")
        reads = upd is not None and any(isinstance(n, ast.Attribute) and isinstance(n.ctx, ast.Load) and n.attr == "rho" and is_self_attr(n) for n in own_nodes(upd.node))
        if stores and reads:
            out.append(c)
    return out


def run(prog: Program, rep, tier: str) -> None:
    rep.explanation = EXPLANATION
    rep.assumptions += ["params.rho > 0 (asserted by newton_method/step_solver before every step)",
                        "asserts are enabled (a failing `assert next_rho > self.rho` aborts instead of decreasing)"]
    base = prog.cls(PS)
    # intermediate template classes that did not exist on the pinned tree (a shared `update` skeleton with a hook per policy) are
    # analysed through their concrete subclasses, each of which reads the skeleton with ITS hook expanded
    from ..inline import known_functions
    known_cls = {q.rsplit(".", 1)[0] for q in known_functions()}
    strategies = [c for c in prog.all_subclasses(base, include_self=False) if not (c.subclasses and c.qualname not in known_cls)]
    concrete = [c for c in strategies if c.subclasses == [] or True]
    n_stores = 0
    for c in strategies:
        upd = prog.lookup_method(c, "update")
        ini = prog.lookup_method(c, "initial")
        # --- initial -------------------------------------------------------
        if ini.cls is c or c.bases[0] is base:
            ff = facts_for(ini)
            for r in returns_of(ini):
                v = ff.resolved(r, r.value)
                rep.check(U(v) == "self.params.rho", "penalty-initial", ini.qualname, short(r),
                          f"initial() returns params.rho (found {U(v)})", ini.loc(r))
        if upd is None or upd.cls is base:
            continue
        if upd.cls is not c:
            continue  # inherited; checked at the defining class
        ff = facts_for(upd)
        blessed = set()  # values proven >= old at the point where they were stored
        # --- stores ----------------------------------------------------------
        for si in ff.order:
            st = si.stmt
            tgs = st.targets if isinstance(st, ast.Assign) else ([st.target] if isinstance(st, (ast.AugAssign, ast.AnnAssign)) else [])
            if not any(is_self_attr(t, "rho") for t in tgs):
                continue
            n_stores += 1
            if isinstance(st, ast.AugAssign):
                val = ast.BinOp(left=ff.resolved(st, ast.parse("self.rho", mode="eval").body), op=st.op, right=ff.resolved(st, st.value))
            else:
                val = ff.resolved(st, st.value)
            good = geq_old(val, si.facts, blessed=blessed)
            if good:
                blessed.add(U(val))
            rep.check(good, "penalty-monotone-store", upd.qualname, short(st),
                      f"the value stored to the policy's rho is >= the old one (value: {U(val)[:120]})", upd.loc(st))
        # --- returned penalties ------------------------------------------------------
        for r, v in result_sites(upd, ff):
            nm = dotted(v.func) if isinstance(v, ast.Call) else None
            if not (nm and (nm.endswith("accept_with_penalty") or nm.endswith("reject_with_penalty") or nm.endswith("PenaltyResult"))):
                rep.fail("penalty-result-form", upd.qualname, short(r), "VIOLATED: update() returns something other than a PenaltyResult factory call", upd.loc(r))
                continue
            arg = ff.resolved(r, v.args[0]) if v.args else None
            si = ff.at(r)
            if c.name == "ConstantPenalty":
                rep.check(arg is not None and U(arg) == "self.params.rho", "penalty-constant", upd.qualname, short(r),
                          "the constant policy returns params.rho", upd.loc(r))
            else:
                rep.check(arg is not None and geq_old(arg, si.facts, blessed=blessed), "penalty-monotone-return", upd.qualname, short(r),
                          f"the penalty handed back to the solver is >= the policy's old rho (value: {U(arg)[:120] if arg is not None else None})", upd.loc(r))
        # stores outside update/initial/__init__
    # who writes <strategy>.rho
    for c in [base] + strategies:
        for name, m in c.methods.items():
            for n in own_nodes(m.node):
                if isinstance(n, ast.Attribute) and isinstance(n.ctx, ast.Store) and n.attr == "rho" and is_self_attr(n):
                    if c.name == "ConstantPenalty":
                        rep.fail("penalty-constant-stateless", m.qualname, U(n), "VIOLATED: the constant policy keeps penalty state", m.loc(n))
                    elif name not in ("__init__", "initial", "update"):
                        rep.fail("penalty-writers", m.qualname, U(n), "VIOLATED: policy rho written outside __init__/initial/update", m.loc(n))
                    elif name in ("__init__", "initial"):
                        st = facts_for(m).stmt_of(n)
                        v = facts_for(m).resolved(st.stmt, st.stmt.value) if isinstance(st.stmt, ast.Assign) else None
                        # inside the constructor the parameter stored as self.params is self.params
                        okv = v is not None and (U(v) == "self.params.rho" or (name == "__init__" and U(v) in {f"{p_}.rho" for p_, a_ in ctor_param_attrs(prog, m).items() if a_ == "self.params"}))
                        rep.check(okv, "penalty-initial", m.qualname, short(st.stmt),
                                  "the policy's rho starts at params.rho", m.loc(n))
    cp = prog.cls("pygradflow.penalty.ConstantPenalty")
    stores = [n for m in cp.methods.values() for n in own_nodes(m.node) if isinstance(n, ast.Attribute) and isinstance(n.ctx, ast.Store)]
    rep.check(not stores, "penalty-constant-stateless", cp.qualname, U(stores[0]) if stores else "", "ConstantPenalty has no attribute store (stateless)",
              f"{cp.module.relpath}:{cp.node.lineno}")

    # --- dual norm bounds -------------------------------------------------------------
    dn = prog.func("pygradflow.penalty.DualNormUpdate.update")
    ff = facts_for(dn)
    params = [p for p in dn.params if p != "self"]
    cand = params[1]
    dn_stores = [si for si in ff.order if isinstance(si.stmt, (ast.Assign, ast.AugAssign)) and
                 any(is_self_attr(t, "rho") for t in (si.stmt.targets if isinstance(si.stmt, ast.Assign) else [si.stmt.target]))]
    for si in dn_stores:
        st = si.stmt
        val = ff.resolved(st, st.value) if isinstance(st, ast.Assign) else None
        bounded_y = bounded_10 = False
        if val is not None and isinstance(val, ast.Call) and isinstance(val.func, ast.Name) and val.func.id == "min":
            for a in val.args:
                k = _times_old(a)
                if k is not None and k <= 10.0:
                    bounded_10 = True
                inner = a.args[0] if isinstance(a, ast.Call) and isinstance(a.func, ast.Name) and a.func.id == "float" and a.args else a
                if np_call(inner, "norm") and inner.args and U(inner.args[0]) == f"{cand}.y":
                    o = kwarg(inner, "ord") or (inner.args[1] if len(inner.args) > 1 else None)
                    if o is not None and U(o) in ("np.inf", "numpy.inf", "inf"):
                        bounded_y = True
        rep.check(bounded_y, "penalty-dualnorm-bound-y", dn.qualname, short(st),
                  "the new rho is bounded by the inf-norm of the multipliers of the accepted candidate (second argument of update)", dn.loc(st))
        rep.check(bounded_10, "penalty-dualnorm-bound-10", dn.qualname, short(st),
                  "the new rho is bounded by ten times the old rho", dn.loc(st))
    rep.pin("DualNormUpdate rho stores", len(dn_stores), 1)

    # --- the solver side ------------------------------------------------------------
    solver_side(prog, rep)
    c18.veto(prog, rep, "penalty-veto")
    rep.pin("policy classes", len(strategies), 7)
    rep.pin("policy rho stores in update()", n_stores, 4)


def sv_loop_member(q) -> bool:
    return bool(q.loops)


def _is_policy_next_rho(val: ast.AST) -> bool:
    alts = phi_alternatives(val)
    real = [a for a in alts if not (is_call_to(a, "__loop__") or isinstance(a, ast.Name))]
    stale = [a for a in alts if a not in real]
    if len(real) != 1:
        return False
    for a in stale:
        nm = a.id if isinstance(a, ast.Name) else (a.args[0].value if a.args and isinstance(a.args[0], ast.Constant) else None)
        if nm != "next_rho":
            return False
    v = real[0]
    return isinstance(v, ast.Attribute) and v.attr == "next_rho" and isinstance(v.value, ast.Call) and isinstance(v.value.func, ast.Attribute) \
        and v.value.func.attr == "update" and "penalty_strategy" in U(v.value.func.value)


def solver_side(prog: Program, rep) -> None:
    sv = prog.func("pygradflow.solver.Solver.solve")
    ff = facts_for(sv)
    scls = prog.cls("pygradflow.solver.Solver")
    stores = []
    for m in scls.methods.values():
        mf = facts_for(m)
        for si in mf.order:
            st = si.stmt
            tgs = st.targets if isinstance(st, ast.Assign) else ([st.target] if isinstance(st, (ast.AugAssign, ast.AnnAssign)) else [])
            if any(is_self_attr(t, "rho") for t in tgs):
                stores.append((m, mf, si))
    kinds = []
    for m, mf, si in stores:
        st = si.stmt
        if m is not sv or isinstance(st, ast.AugAssign):
            rep.fail("solver-rho-writers", m.qualname, short(st), "VIOLATED: Solver.rho written outside the three sanctioned places in solve()", m.loc(st))
            continue
        val = mf.resolved(st, st.value)
        t = U(val)
        if const_value(val) == -1.0 and not si.loops:
            kinds.append("sentinel")
            rep.ok("solver-rho-writers", m.qualname, "rho = -1.0 sentinel before the penalty policy is consulted")
        elif isinstance(val, ast.Call) and isinstance(val.func, ast.Attribute) and val.func.attr == "initial" and "penalty_strategy" in U(val.func.value) and not si.loops:
            kinds.append("initial")
            rep.ok("solver-rho-writers", m.qualname, "rho = penalty_strategy.initial(iterate)")
        elif si.loops and _is_policy_next_rho(val):
            # idiom: next_rho is bound under `if accept:` and read under the second `if accept:`;
            # the stale alternative (loop-carried / unbound name) is infeasible there because the
            # second test can only succeed when the first branch ran (checked by the veto rule)
            val = [a for a in phi_alternatives(val) if not (is_call_to(a, "__loop__") or isinstance(a, ast.Name))][0]
            kinds.append("update")
            # under the post-veto accept
            guarded = any(f[0] == "truthy" and ".accept" in f[1] and "update(" in f[1] for f in si.facts)
            rep.check(guarded, "solver-rho-adopt-on-accept", m.qualname, short(st),
                      "the solver adopts the policy's rho only when the step is accepted after the policy's veto", m.loc(st))
            # ... and always then: the only further condition allowed is the exact test `next_rho != self.rho`
            from .solveloop import solve_loop
            base = solve_loop(prog).completed_iteration_facts()
            extra = [f for f in si.facts if f not in base and not (f[0] == "truthy" and ".accept" in f[1])]
            exact = all(f[0] == "!=" and "next_rho" in (f[1] + (f[2] or "")) or (f[0] == "!=" and U(val) in (f[1], f[2]) and "self.rho" in (f[1], f[2]) or
                        (f[0] == "!=" and "__loop__('self.rho'" in (f[1] + (f[2] or "")))) for f in extra)
            rep.check(exact, "solver-rho-adopt-exact", m.qualname, short(st),
                      f"on an accepted step the policy's rho is adopted whenever it differs from the solver's (no tolerance or other condition; extra conditions: {[(f[0], f[1][:50], (f[2] or '')[:40]) for f in extra]})", m.loc(st))
            # arguments of update: (current iterate, candidate)
            call = val.value
            from .solveloop import solve_loop
            itn = solve_loop(prog).names()["iterate"]
            a_ok = len(call.args) == 2 and U(call.args[0]).startswith(f"__loop__('{itn}'") and U(call.args[1]).endswith(".iterate") and "_compute_step(" in U(call.args[1])
            rep.check(a_ok, "solver-rho-update-args", m.qualname, short(st),
                      "penalty_strategy.update receives (current iterate, candidate iterate of this trial)", m.loc(st))
        else:
            rep.fail("solver-rho-writers", m.qualname, short(st), f"VIOLATED: unrecognised write to Solver.rho (value {t[:100]})", m.loc(st))
    rep.check(sorted(kinds) == ["initial", "sentinel", "update"], "solver-rho-writers", sv.qualname, "self.rho = ...",
              f"Solver.rho has exactly the three writes sentinel / initial / accepted update (found {sorted(kinds)})", sv.loc())
    # external writers
    for f in prog.iter_functions():
        if f.cls is scls or not prog.in_scope(f):
            continue
        for n in own_nodes(f.node):
            if isinstance(n, ast.Attribute) and isinstance(n.ctx, ast.Store) and n.attr == "rho":
                ts = prog.infer_type(f, n.value)
                if scls in ts:
                    rep.fail("solver-rho-writers", f.qualname, U(n), "VIOLATED: Solver.rho written from outside the solver", f.loc(n))
    # the policy's own rho starts at params.rho in EVERY solve: the policy object is built inside solve() before the loop, or
    # - if it outlives a solve - its initial() resets the stored rho (otherwise the second solve of a Solver starts its first
    # accepted step from the previous solve's penalty: an unbounded jump, and above what this solve's multipliers justify)
    pcalls = [n for n in own_nodes(sv.node) if isinstance(n, ast.Call) and dotted(n.func) == "penalty_strategy"]
    fresh = bool(pcalls) and all(not ff.stmt_of(c).loops for c in pcalls)
    for c in strategies_with_state(prog):
        ini = prog.lookup_method(c, "initial")
        resets = False
        if ini is not None:
            fi_ = facts_for(ini)
            for n in own_nodes(ini.node):
                if isinstance(n, ast.Assign) and any(is_self_attr(t, "rho") for t in n.targets) and U(fi_.resolved(n, n.value)) == "self.params.rho":
                    resets = True
        rep.check(fresh or resets, "penalty-fresh-per-solve", c.qualname, "rho at the start of a solve",
                  f"{c.name}'s stored rho starts at params.rho in every solve (policy constructed inside solve(): {fresh}; initial() resets it: {resets})",
                  f"{c.module.relpath}:{c.node.lineno}")
    # rho argument of every trial step
    calls = [n for n in own_nodes(sv.node) if isinstance(n, ast.Call) and isinstance(n.func, ast.Attribute) and n.func.attr == "_compute_step"]
    for c in calls:
        si = ff.stmt_of(c)
        cs = prog.func("pygradflow.solver.Solver._compute_step")
        from .common import bind_args
        b = bind_args(cs, c)
        rho_arg = b.get("rho") if b else None
        rep.check(rho_arg is not None and U(rho_arg) == "self.rho", "solver-rho-passed", sv.qualname, short(si.stmt),
                  "every trial step is computed with the solver's current rho", sv.loc(c))
    rep.pin("_compute_step call sites in solve", len(calls), 1)
