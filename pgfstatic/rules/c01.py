"""C01 - Optimal status implies first-order optimality of the user's own problem (structural necessary conditions)."""
from __future__ import annotations

import ast
from typing import Dict, List, Optional, Tuple

from ..algebra import CannotNormalise, Poly, Rational, Value, veq, vrepr
from ..model import AnalysisError, ClassInfo, FuncInfo, Program, dotted, own_nodes, unparse
from ..symex import atoms_of, facts_for, phi_alternatives, resolve
from .common import U, bind_args, const_value, enum_member, is_self_attr, kwarg, np_call, parent_map, returns_of, short
from .formulas import Ctx, oracle, value_of_function
from . import c04, c13

STATUS = "pygradflow.status.SolverStatus"
ISTATUS = "pygradflow.integration.integration_solver.IntegrationStatus"
ERT = "pygradflow.integration.events.EventResultType"
TT = "pygradflow.integration.problem_switches.TriggerType"

EXPLANATION = (
    "That a returned point satisfies the KKT conditions to tolerance is numerical and NOT decided.  Five necessary conditions are "
    "visible in the code and are decided: (1) gate dominance - every place that produces SolverStatus.Optimal is dominated by "
    "total_res <= opt_tol (homotopy solver), by residuum(curr_z) <= opt_tol, or by IntegrationStatus.Converged, which can only come "
    "from a ConvergedResult, which is only built for a TriggerType.CONVERGED event, whose event function is residuum(z) - opt_tol; "
    "no other site produces Optimal; (2) residual completeness - total_res is the max of exactly cons_violation, bound_violation, "
    "stat_res; stat_res is ||g + J'y + d||_inf; the restricted-flow residuum is the norm of (filter*-(g + J'y), c) at rho = 0 "
    "(normal forms); the filter marks exactly the variables at a bound with outward flow, and every pinned variable that is not "
    "fixed by equal bounds gets a sign-change event; (3) unscale exponents - x: -v, y: c-o, d: v-o as dictated by the change of "
    "variables (shared with C04); (4) restore wiring - slacks are dropped first, then x, y, d are unscaled slot by slot, and both "
    "solvers feed (iterate.x, iterate.y, iterate.bounds_dual) of the final iterate; (5) multiplier signs - d is max(r,0) at an "
    "upper, min(r,0) at a lower and r at a fixed variable for r = -(g + J'y), with mutually exclusive masks (shared with C13)."
)


def value_uses_of_enum(prog: Program, enum_q: str, member: str):
    """[(fi, node, parent)] uses of Enum.member that are NOT operands of a comparison and not inside the enum's own module helpers."""
    out = []
    for fi in prog.iter_functions():
        if not prog.in_scope(fi):
            continue
        pm = None
        for n in own_nodes(fi.node):
            if isinstance(n, ast.Attribute) and n.attr == member and enum_member(prog, fi, n, enum_q) == member:
                pm = pm or parent_map(fi.node)
                par = pm.get(id(n))
                if isinstance(par, ast.Compare):
                    continue
                if isinstance(par, ast.Dict) and any(n is k for k in par.keys):
                    continue  # name / description tables keyed by the status
                out.append((fi, n, par))
    return out


def run(prog: Program, rep, tier: str) -> None:
    rep.explanation = EXPLANATION
    from . import c19 as _c19
    _c19.evaluator_memoryless(prog, rep)    # the evaluator answers every request with the value at the requested point
    rep.assumptions += ["scipy.integrate.solve_ivp reports a terminal event at a root of the event function",
                        "numpy / scipy kernels compute what their names say"]
    gates(prog, rep)
    closures(prog, rep)
    residuals(prog, rep)
    # every quantity this property speaks about is computed from the user's callback values: the wrapper problems (scaling,
    # slacks) must hand them on without writing into the objects the callbacks returned (C04 / C11's rule on those constructs)
    from . import c04 as _c04
    _c04.callback_results_kept(prog, rep)
    # (3) + (4): exponents, inverse pairs, restore wiring, slack layout  (C04's rules on the same constructs)
    # the slack embedding is what turns the sign of the bound multiplier of slack i into the sign condition on y_i
    # (d/ds_i: -y_i + d_si = 0), so its agreement rules are necessary conditions here as well
    sub = _SubReport(rep, keep=("scaling-exponents", "inverse-pairs", "restore-wiring", "slack-layout", "pipeline-order", "slack-jacobian", "slack-padding",
                                "slack-bounds", "slack-cons", "slack-rows", "slack-offsets"))
    c04.run_scaling_only(prog, sub)
    c04.slack_embedding(prog, sub)
    c04.pipeline(prog, sub)
    # the KKT residual is computed from the SCALED problem's values: each entry of its gradient / Jacobian / Hessian must carry the
    # exponent of its own row and column (C04's rule on ScaledProblem), or the test certifies a point of another problem
    c04.run(prog, _SubReport(rep, keep=("scaled-problem-exponents", "exact-data-path")), "quick")
    feeds(prog, rep)
    # "variable bounds hold exactly": every accepted point is the component-wise clamp onto the bounds themselves (C15 / C05's rule)
    from . import c15
    c15.clamp(prog, rep)
    # (5) multiplier signs
    it = prog.cls("pygradflow.iterate.Iterate")
    c13.sign_table(prog, rep, it.methods["bounds_dual"], "-(self.obj_grad + self.cons_jac.T.dot(self.y))",
                   {"at_upper": "maximum", "at_lower": "minimum", "at_both": "identity"}, "bounds-dual-signs", init_zero=True)
    c13.active_set_masks(prog, rep)
    bd = it.methods["bounds_dual"]
    fb = facts_for(bd)
    r = returns_of(bd)
    inits = [s for s in fb.order if isinstance(s.stmt, ast.Assign) and len(r) == 1 and U(s.stmt.targets[0]) == U(r[0].value) and np_call(s.stmt.value, "zeros_like", "zeros")]
    rep.check(len(inits) == 1, "bounds-dual-signs", bd.qualname, "d = np.zeros_like(self.x)", "d is zero away from the active bounds", bd.loc())


class _SubReport:
    """forwards only the named rules of another property's rule set into this report."""

    def __init__(self, rep, keep):
        self.rep, self.keep = rep, keep
        self.extra = rep.extra
        self.assumptions = []
        self.explanation = ""

    def _k(self, rule):
        return any(rule.startswith(k) for k in self.keep)

    def ok(self, rule, *a, **k):
        if self._k(rule):
            self.rep.ok(rule, *a, **k)

    def fail(self, rule, *a, **k):
        if self._k(rule):
            self.rep.fail(rule, *a, **k)

    def check(self, cond, rule, *a, **k):
        if self._k(rule):
            return self.rep.check(cond, rule, *a, **k)
        return cond

    def note(self, t):
        pass

    def pin(self, *a):
        pass


def closures(prog: Program, rep) -> None:
    """event functions, lazy display entries and callbacks are closures; one created in a loop must bind the loop's value when it is
    created (a default argument), not read the variable when it finally runs - otherwise every closure of the loop watches the
    LAST index / iterate."""
    from .common import late_binding_closures
    canary = ast.parse("def f(idx, g):\n    evs = []\n    for j in idx:\n        def ev(z):\n            return g(z)[j]\n        evs.append(ev)\n    return evs\n"
                       "def ok(idx, g):\n    evs = []\n    for j in idx:\n        def ev(z, j=j):\n            return g(z)[j]\n        evs.append(ev)\n    return evs\n")
    if [len(late_binding_closures(f)) for f in canary.body] != [1, 0]:
        raise AnalysisError("late-binding closure canary failed")
    n = 0
    for fi in prog.iter_functions():
        if not prog.in_scope(fi) or not isinstance(fi.node, (ast.FunctionDef, ast.AsyncFunctionDef)) or getattr(fi, "parent", None) is not None:
            continue
        n += 1
        for cl, var, esc in late_binding_closures(fi.node):
            rep.fail("closure-binds-loop-value", fi.qualname, U(esc)[:80],
                     f"VIOLATED: a closure created in a loop reads the loop's variable `{var}` when it runs, and it outlives the iteration (`{U(esc)[:60]}`): "
                     f"all closures of the loop see the value of the last iteration", fi.loc(esc))
    rep.ok("closure-binds-loop-value", "package", f"{n} functions: no closure that outlives its loop iteration reads a variable the loop re-binds")
    rep.pin("functions examined for late-binding closures", n, 300)


def gates(prog: Program, rep) -> None:
    ct = prog.func("pygradflow.solver.Solver._check_terminate")
    ff = facts_for(ct)
    itp = [p for p in ct.params if p != "self"][0]
    sites = value_uses_of_enum(prog, STATUS, "Optimal")
    n = 0
    for fi, node, par in sites:
        if fi.module.name == "pygradflow.status":
            continue
        n += 1
        f2 = facts_for(fi)
        si = f2.stmt_of(node)
        facts = si.facts
        if fi is ct:
            from .common import value_sites
            is_site = isinstance(si.stmt, ast.Return) or any(st_ is si.stmt for st_, _ in value_sites(ct, ff))
            ok = ("<=", f"{itp}.total_res", "self.params.opt_tol") in facts and is_site
            rep.check(ok, "optimal-gate", fi.qualname, short(si.stmt), "`return Optimal` is dominated by iterate.total_res <= params.opt_tol", fi.loc(node))
        elif fi.qualname == "pygradflow.integration.integration_solver.IntegrationSolver.solve":
            g1 = any(f[0] == "<=" and f[2] == "self.params.opt_tol" and _is_restricted_residuum(f[1]) for f in facts)
            g2 = any(f[0] == "==" and "IntegrationStatus.Converged" in (f[1], f[2]) and ".status" in (f[1] + (f[2] or "")) and "perform_integration(" in (f[1] + (f[2] or "")) for f in facts)
            rep.check(g1 or g2, "optimal-gate", fi.qualname, short(si.stmt),
                      "Optimal is set only under residuum(curr_z) <= opt_tol of the restricted flow, or when the integration reported Converged", fi.loc(node))
        else:
            rep.fail("optimal-gate", fi.qualname, short(si.stmt), "VIOLATED: SolverStatus.Optimal is produced at a site that is not one of the gated termination tests", fi.loc(node))
    # module-level status tables: `{IntegrationStatus.Converged: SolverStatus.Optimal, ..}` looked up with the integration's status
    for mod in prog.modules.values():
        if not prog.in_scope(mod):
            continue
        for st in mod.tree.body:
            val = st.value if isinstance(st, (ast.Assign, ast.AnnAssign)) else None
            tg = (st.targets[0] if isinstance(st, ast.Assign) and len(st.targets) == 1 else getattr(st, "target", None)) if val is not None else None
            if not (isinstance(val, ast.Dict) and isinstance(tg, ast.Name)):
                continue
            for k_, v_ in zip(val.keys, val.values):
                tgt = prog.resolve_expr_static(mod, v_.value) if isinstance(v_, ast.Attribute) else None
                if not (isinstance(v_, ast.Attribute) and v_.attr == "Optimal" and tgt is not None and getattr(tgt, "qualname", None) == STATUS):
                    continue
                n += 1
                loc = f"{mod.relpath}:{st.lineno}"
                ktgt = prog.resolve_expr_static(mod, k_.value) if isinstance(k_, ast.Attribute) else None
                key_ok = isinstance(k_, ast.Attribute) and k_.attr == "Converged" and getattr(ktgt, "qualname", "").endswith("IntegrationStatus")
                uses_ok, n_uses = True, 0
                for fi in prog.functions.values():
                    if fi.module is not mod:
                        continue
                    pm = None
                    for nd in own_nodes(fi.node):
                        if isinstance(nd, ast.Name) and nd.id == tg.id and isinstance(nd.ctx, ast.Load):
                            n_uses += 1
                            pm = pm or parent_map(fi.node)
                            par = pm.get(id(nd))
                            arg = None
                            if isinstance(par, ast.Attribute) and par.attr == "get" and isinstance(pm.get(id(par)), ast.Call) and len(pm[id(par)].args) == 1:
                                arg = pm[id(par)].args[0]
                            elif isinstance(par, ast.Subscript) and par.value is nd:
                                arg = par.slice
                            f2 = facts_for(fi)
                            si = f2.stmt_of(nd)
                            at = U(f2.resolved(si.stmt, arg)) if arg is not None and si is not None else ""
                            uses_ok = uses_ok and at.endswith(".status") and "perform_integration(" in at
                rep.check(key_ok and uses_ok and n_uses >= 1, "optimal-gate", f"{mod.name}.{tg.id}", U(k_) + ": Optimal",
                          "a status table yields Optimal only for IntegrationStatus.Converged, and is only looked up with the status the integration reported", loc)
    rep.pin("sites producing SolverStatus.Optimal", n, 3)
    # the integration solver returns the state the gate looked at
    isv = prog.func("pygradflow.integration.integration_solver.IntegrationSolver.solve")
    fi_ = facts_for(isv)
    # link 1: IntegrationStatus.Converged only from a CONVERGED event result
    for fi, node, par in value_uses_of_enum(prog, ISTATUS, "Converged"):
        si = facts_for(fi).stmt_of(node)
        ok = fi.name == "perform_integration" and any(f[0] == "==" and "EventResultType.CONVERGED" in (f[1], f[2]) and ".type" in (f[1] + (f[2] or "")) for f in si.facts)
        rep.check(ok, "converged-chain", fi.qualname, short(si.stmt), "IntegrationStatus.Converged is produced only for an event result of type CONVERGED", fi.loc(node))
    # link 2: EventResultType.CONVERGED only as the type of ConvergedResult
    for fi, node, par in value_uses_of_enum(prog, ERT, "CONVERGED"):
        ok = fi.qualname == "pygradflow.integration.events.ConvergedResult.__init__" and isinstance(par, ast.Assign) and U(par.targets[0]) == "self.type"
        rep.check(ok, "converged-chain", fi.qualname, U(par) if par is not None else "", "EventResultType.CONVERGED is the type of ConvergedResult only", fi.loc(node))
    # link 3: ConvergedResult built only for a CONVERGED trigger
    cr = prog.cls("pygradflow.integration.events.ConvergedResult")
    n3 = 0
    for fi in prog.iter_functions():
        if not prog.in_scope(fi):
            continue
        for node in own_nodes(fi.node):
            if isinstance(node, ast.Call) and prog.resolve_symbol(fi.module, dotted(node.func) or "") is cr:
                n3 += 1
                si = facts_for(fi).stmt_of(node)
                ok = any(f[0] == "==" and "TriggerType.CONVERGED" in (f[1], f[2]) and ".type" in (f[1] + (f[2] or "")) for f in si.facts)
                args_ok = len(node.args) == 2 and U(node.args[1]).endswith("state") or "z_event" in U(node.args[1]) if len(node.args) == 2 else False
                rep.check(ok and args_ok, "converged-chain", fi.qualname, short(si.stmt), "a ConvergedResult is built only for an event whose trigger type is CONVERGED, at that event's state", fi.loc(node))
    rep.pin("ConvergedResult construction sites", n3, 1)
    # link 4: TriggerType.CONVERGED is attached only to residuum(z) - opt_tol
    for fi, node, par in value_uses_of_enum(prog, TT, "CONVERGED"):
        ok = False
        if isinstance(par, ast.Assign) and isinstance(par.targets[0], ast.Attribute) and par.targets[0].attr == "type" and isinstance(par.targets[0].value, ast.Name):
            ev = fi.nested.get(par.targets[0].value.id)
            if ev is not None:
                rs = returns_of(ev)
                if len(rs) == 1:
                    v = facts_for(ev).resolved(rs[0], rs[0].value)
                    zp = ev.params[-1]
                    # closure variable params = self.params
                    penv = facts_for(fi).at(par).env
                    v = resolve(v, {k: w for k, w in penv.items() if k not in ev.params})
                    ok = isinstance(v, ast.BinOp) and isinstance(v.op, ast.Sub) and U(v.left) == f"self.restricted_flow.residuum({zp})" and U(v.right) == "self.params.opt_tol"
        rep.check(ok, "converged-chain", fi.qualname, U(par) if par is not None else "", "the CONVERGED trigger is the event function residuum(z) - params.opt_tol", fi.loc(node))


def _is_restricted_residuum(text: str) -> bool:
    """RestrictedFlow(<flow>, <current filter>).residuum(<current state>)"""
    try:
        e = ast.parse(text, mode="eval").body
    except SyntaxError:
        return False
    if not (isinstance(e, ast.Call) and isinstance(e.func, ast.Attribute) and e.func.attr == "residuum" and len(e.args) == 1):
        return False
    recv = e.func.value
    return isinstance(recv, ast.Call) and dotted(recv.func) == "RestrictedFlow" and len(recv.args) == 2 and U(recv.args[1]).startswith("__loop__('curr_filter'") \
        and U(e.args[0]).startswith("__loop__('curr_z'") and U(recv.args[0]).startswith("Flow(")


def _flow_hook(e: ast.AST, ctx):
    t = U(e)
    if isinstance(e, ast.Call) and isinstance(e.func, ast.Attribute) and U(e.func.value) in ("self.eval", "self.flow.eval", "eval"):
        if e.func.attr == "obj_grad":
            return Poly.atom("g", "vec")
        if e.func.attr == "cons_jac":
            return Poly.atom("J", "mat")
        if e.func.attr == "cons":
            return Poly.atom("c", "vec")
    if t.startswith("__item__(self.split_states(") or t.startswith("__item__(self.flow.split_states("):
        return Poly.atom("x" if t.endswith(", 0)") else "y", "vec")
    if t in ("self.filter",):
        return Poly.scalar("filter")
    if isinstance(e, ast.Call) and dotted(e.func) == PHI_NAME:
        # c = eval.cons(x) if c is None else c
        vals = [ctx.value(a) for a in e.args]
        if all(veq(vals[0], w) for w in vals[1:]):
            return vals[0]
    return None


PHI_NAME = "__phi__"


def residuals(prog: Program, rep) -> None:
    it = prog.cls("pygradflow.iterate.Iterate")
    # total_res / stat_res (same oracles as C13)
    sr = it.methods["stat_res"]
    hook = c13._member_atoms({"bounds_dual": "vec"})
    got = value_of_function(prog, sr, {}, self_tag="it:self", attr_hook=hook)
    want = oracle(prog, "np.linalg.norm(self.obj_grad + self.cons_jac.T.dot(self.y) + self.bounds_dual, np.inf)", sr, {}, self_tag="it:self", attr_hook=hook)
    rep.check(veq(got, want), "residual-complete", sr.qualname, "stat_res", f"stat_res = ||g + J'y + d||_inf (found {vrepr(got)[:120]})", sr.loc())
    tr_ = it.methods["total_res"]
    hook = c13._member_atoms({"cons_violation": "scalar", "bound_violation": "scalar", "stat_res": "scalar"})
    got = value_of_function(prog, tr_, {}, self_tag="it:self", attr_hook=hook)
    want = oracle(prog, "max(self.cons_violation, self.bound_violation, self.stat_res)", tr_, {}, self_tag="it:self", attr_hook=hook)
    rep.check(veq(got, want), "residual-complete", tr_.qualname, "total_res", f"total_res = max(cons_violation, bound_violation, stat_res) (found {vrepr(got)[:120]})", tr_.loc())
    # restricted flow
    fl = prog.cls("pygradflow.integration.flow.Flow")
    rf = prog.cls("pygradflow.integration.restricted_flow.RestrictedFlow")
    ad = fl.methods["aug_lag_deriv_x"]
    fa = facts_for(ad)
    zp, rp, cp_ = [p for p in ad.params if p != "self"][:3]
    rs = returns_of(ad)
    ctx = Ctx(prog, ad, {rp: Poly.scalar("rho"), cp_: Poly.atom("c", "vec")}, {}, attr_hook=_flow_hook)
    try:
        got = ctx.value(fa.resolved(rs[0], rs[0].value))
    except CannotNormalise as ex:
        raise AnalysisError(f"Flow.aug_lag_deriv_x: {ex}")
    want = Poly.atom("g", "vec") + Poly.atom("J'", "mat") * (Poly.scalar("rho") * Poly.atom("c", "vec") + Poly.atom("y", "vec"))
    rep.check(veq(got, want), "residual-complete", ad.qualname, short(rs[0]), f"Flow.aug_lag_deriv_x = g + J'(rho c + y) (found {vrepr(got)[:120]})", ad.loc())
    nd = fl.methods["neg_aug_lag_deriv_x"]
    r = returns_of(nd)
    ok = len(r) == 1 and U(r[0].value) == f"-self.aug_lag_deriv_x({', '.join(p for p in nd.params if p != 'self')})"
    rep.check(ok, "residual-complete", nd.qualname, short(r[0]) if r else "", "neg_aug_lag_deriv_x is the negated gradient of the augmented Lagrangian (same arguments)", nd.loc())
    rh = rf.methods["rhs"]
    fr = facts_for(rh)
    zq, rq, cq = [p for p in rh.params if p != "self"][:3]
    r = returns_of(rh)

    def rhook(e, ctx):
        t = U(e)
        if isinstance(e, ast.Call) and U(e.func) == "self.flow.neg_aug_lag_deriv_x":
            return Poly.atom("negL", "vec")
        return _flow_hook(e, ctx)

    ctx = Ctx(prog, rh, {rq: Poly.scalar("rho"), cq: Poly.atom("c", "vec")}, {}, attr_hook=rhook)
    try:
        got = ctx.value(fr.resolved(r[0], r[0].value))
    except CannotNormalise as ex:
        raise AnalysisError(f"RestrictedFlow.rhs: {ex}")
    want = ("block", (Poly.scalar("filter") * Poly.atom("negL", "vec"), Poly.atom("c", "vec")))
    rep.check(veq(got, want), "residual-complete", rh.qualname, short(r[0]), f"RestrictedFlow.rhs = (filter * -grad_x L, c) (found {vrepr(got)[:120]})", rh.loc())
    calls = [n for n in own_nodes(rh.node) if isinstance(n, ast.Call) and U(n.func) == "self.flow.neg_aug_lag_deriv_x"]
    okc = len(calls) == 1 and [U(a) for a in calls[0].args][:2] == [zq, rq]
    rep.check(okc, "residual-complete", rh.qualname, "neg_aug_lag_deriv_x(z, rho, c)", "the gradient is taken at the same state and penalty", rh.loc())
    rs_ = rf.methods["residuum"]
    r = returns_of(rs_)
    zz = [p for p in rs_.params if p != "self"][0]
    v = r[0].value if len(r) == 1 else None
    ok = v is not None and np_call(v, "norm") and len(v.args) == 1 and isinstance(v.args[0], ast.Call) and U(v.args[0].func) == "self.rhs" and U(v.args[0].args[0]) == zz \
        and const_value(kwarg(v.args[0], "rho") or (v.args[0].args[1] if len(v.args[0].args) > 1 else ast.Constant(None))) == 0
    rep.check(ok, "residual-complete", rs_.qualname, short(r[0]) if r else "", "residuum(z) = ||rhs(z, rho=0)|| - the penalty term is switched off, leaving the KKT residual of the free variables", rs_.loc())
    # the filter: pinned = at a bound with outward flow
    cf = prog.func("pygradflow.integration.integration_solver.IntegrationSolver.create_filter")
    fc = facts_for(cf)
    want_l = "np.logical_and(Flow.isclose(__item__SLICE, self.problem.var_lb), self.flow.neg_aug_lag_deriv_x(z, rho) < 0)"
    defs = {}
    for s in fc.order:
        if isinstance(s.stmt, ast.Assign) and len(s.stmt.targets) == 1 and isinstance(s.stmt.targets[0], ast.Name) and not s.loops:
            defs.setdefault(s.stmt.targets[0].id, U(fc.resolved(s.stmt, s.stmt.value)))
    zc, rc = [p for p in cf.params if p != "self"][:2]
    xs = f"{zc}[:self.problem.num_vars]"
    dx = f"self.flow.neg_aug_lag_deriv_x({zc}, {rc})"
    lo = f"np.logical_and(Flow.isclose({xs}, self.problem.var_lb), {dx} < 0)"
    up = f"np.logical_and(Flow.isclose({xs}, self.problem.var_ub), 0 < {dx})"
    ok = defs.get("active_lower") == lo and defs.get("active_upper") == up and defs.get("fixed_indices") == f"np.logical_or({lo}, {up})"
    rep.check(ok, "filter-sign-table", cf.qualname, "active_lower / active_upper",
              "a variable is pinned iff it sits at its lower bound with negative flow (-grad L < 0) or at its upper bound with positive flow", cf.loc())
    early = [r_ for r_ in returns_of(cf)]
    ok = all(U(fc.resolved(r_, r_.value)).startswith("np.logical_not(") for r_ in early)
    rep.check(ok, "filter-sign-table", cf.qualname, "return np.logical_not(fixed_indices)", "the filter marks the complement of the pinned set", cf.loc())
    # every pinned, non-fixed variable is watched for a sign change of its gradient
    ce = prog.func("pygradflow.integration.problem_switches.ProblemSwitches.create_event_triggers")
    fe = facts_for(ce)
    conts = [s for s in fe.order if isinstance(s.stmt, ast.Continue)]
    n = 0
    for s in conts:
        n += 1
        truthy = [f[1] for f in s.facts if f[0] == "truthy"]
        both = any(t.startswith("self.flow.isclose(") and "var_lb" in t for t in truthy) and any(t.startswith("self.flow.isclose(") and "var_ub" in t for t in truthy)
        rep.check(both, "pinned-variables-watched", ce.qualname, "continue",
                  "a pinned variable is left without a sign-change event only if it sits at BOTH bounds (fixed variable)", ce.loc(s.stmt))
    apps = [s for s in fe.order if isinstance(s.stmt, ast.Expr) and isinstance(s.stmt.value, ast.Call) and U(s.stmt.value.func) == "grad_fixed_events.append"]
    ok = len(apps) == 1 and any(f[0] == "falsy" and "[" in f[1] for f in apps[0].facts)
    rep.check(ok, "pinned-variables-watched", ce.qualname, "grad_fixed_events.append(event)", "every other pinned variable gets a gradient sign-change event", ce.loc())
    ev = [s for s in fe.order if isinstance(s.stmt, ast.Assign) and U(s.stmt.targets[0]) == "events"]
    ok = len(ev) == 1 and all(k in U(ev[0].stmt.value) for k in ("*lb_events", "*ub_events", "*grad_fixed_events", "self.converged_event()", "self.unbounded_event()", "self.penalty_event("))
    rep.check(ok, "pinned-variables-watched", ce.qualname, "events = [...]", "all event families (bounds, pinned gradients, convergence, unboundedness, penalty) are handed to the integrator", ce.loc())
    rep.pin("pinned-variable skip sites", n, 1)
    # event functions and crossing directions
    sw = prog.cls("pygradflow.integration.problem_switches.ProblemSwitches")

    def event_of(mname):
        if mname not in sw.methods:
            raise AnalysisError(f"ProblemSwitches.{mname} has vanished (the event factories are not in the recognised form)")
        m = sw.methods[mname]
        inner = list(m.nested.values())
        if len(inner) != 1:
            raise AnalysisError(f"ProblemSwitches.{mname}: expected one event closure")
        ev = inner[0]
        rs = returns_of(ev)
        fm = facts_for(m)
        last = fm.order[-1]
        body = facts_for(ev).resolved(rs[0], rs[0].value) if len(rs) == 1 else None
        if body is not None:
            body = resolve(body, {k: w for k, w in last.env.items() if k not in ev.params})
        dirs = [(U(s.stmt.value), s.facts) for s in fm.order if isinstance(s.stmt, ast.Assign) and isinstance(s.stmt.targets[0], ast.Attribute)
                and s.stmt.targets[0].attr == "direction" and U(s.stmt.targets[0].value) == ev.name]
        return m, ev, body, dirs

    m, ev, body, dirs = event_of("lb_event")
    zp = ev.params[-1]
    j = [p for p in m.params if p != "self"][0]
    ok = body is not None and U(body) == f"__item__(self.flow.split_states({zp}), 0)[{j}] - self.problem.var_lb[{j}]" and [d for d, _ in dirs] == ["-1.0"]
    rep.check(ok, "event-sign-table", m.qualname, "x[j] - lb[j], direction -1", "the lower-bound event is x_j - lb_j crossing downwards", m.loc())
    m, ev, body, dirs = event_of("ub_event")
    zp = ev.params[-1]
    ok = body is not None and U(body) == f"__item__(self.flow.split_states({zp}), 0)[{j}] - self.problem.var_ub[{j}]" and [d for d, _ in dirs] == ["1.0"]
    rep.check(ok, "event-sign-table", m.qualname, "x[j] - ub[j], direction +1", "the upper-bound event is x_j - ub_j crossing upwards", m.loc())
    m, ev, body, dirs = event_of("grad_fixed_event")
    zp = ev.params[-1]
    jj, rr, al = [p for p in m.params if p != "self"][:3]
    okb = body is not None and U(body) == f"self.flow.neg_aug_lag_deriv_x({zp}, {rr})[{jj}]"
    dd = {}
    for d, facts in dirs:
        key = "lb" if ("truthy", al, None) in facts else ("ub" if ("falsy", al, None) in facts else "?")
        dd[key] = d
    rep.check(okb and dd == {"lb": "1.0", "ub": "-1.0"}, "event-sign-table", m.qualname, "flow_j, direction +1 at lb / -1 at ub",
              f"a variable pinned at its lower bound is released when its flow -grad_j L crosses zero upwards, at its upper bound downwards (found body {U(body)[:60] if body is not None else None}, directions {dd})", m.loc())


def feeds(prog: Program, rep) -> None:
    """both solvers hand (iterate.x, iterate.y, iterate.bounds_dual) of the final iterate to restore_sol, in that order."""
    for q in ("pygradflow.solver.Solver.solve", "pygradflow.integration.integration_solver.IntegrationSolver.solve"):
        fi = prog.func(q)
        ff = facts_for(fi)
        calls = [n for n in own_nodes(fi.node) if isinstance(n, ast.Call) and isinstance(n.func, ast.Attribute) and n.func.attr == "restore_sol"]
        if len(calls) != 1:
            raise AnalysisError(f"{fi.short}: restore_sol not called exactly once")
        si = ff.stmt_of(calls[0])
        a = [U(ff.resolved(si.stmt, z)) for z in calls[0].args]
        ok = len(a) == 3 and a[0].endswith(".x") and a[1].endswith(".y") and a[2].endswith(".bounds_dual") and a[0][:-2] == a[1][:-2] == a[2][: -len(".bounds_dual")]
        if q.endswith("Solver.solve") and "integration" not in q:
            # the variable carried by the main loop, whatever it is called (the loop may have come in with an expanded helper)
            from .solveloop import solve_loop
            carried = solve_loop(prog).names().get("iterate") or "iterate"
            ok = ok and a[0].startswith(f"__loop__('{carried}'")
        else:
            ok = ok and a[0].startswith("Iterate(") and "__loop__('curr_z'" in a[0] and "perform_integration" not in a[0]
        rep.check(ok, "restore-feeds", fi.qualname, short(si.stmt), "restore_sol receives (x, y, bounds_dual) of one and the same final iterate, in that order", fi.loc(calls[0]))
        res = [n for n in own_nodes(fi.node) if isinstance(n, ast.Call) and dotted(n.func) == "SolverResult"]
        r_init = prog.func("pygradflow.result.SolverResult.__init__")
        for c in res:
            s2 = ff.stmt_of(c)
            b = bind_args(r_init, c)
            okr = b is not None
            if okr:
                for k, idx in (("x", 0), ("y", 1), ("d", 2)):
                    t = U(ff.resolved(s2.stmt, b[k]))
                    okr = okr and t.startswith("__item__(") and ".restore_sol(" in t.split("Iterate(")[0] and t.endswith(f", {idx})")
            rep.check(okr, "restore-feeds", fi.qualname, short(s2.stmt), "SolverResult receives the three components of restore_sol in the order x, y, d", fi.loc(c))
        rp = prog.func("pygradflow.result.SolverResult.__init__")
    st = {U(t): U(n.value) for n in own_nodes(rp.node) if isinstance(n, ast.Assign) for t in n.targets}
    rep.check(st.get("self._x") == "x" and st.get("self._y") == "y" and st.get("self._d") == "d", "restore-feeds", rp.qualname, "self._x, self._y, self._d", "SolverResult stores x, y, d in their own slots", rp.loc())
    for nm in ("x", "y", "d"):
        m = prog.func(f"pygradflow.result.SolverResult.{nm}")
        r = returns_of(m)
        rep.check(len(r) == 1 and U(r[0].value) == f"self._{nm}", "restore-feeds", m.qualname, nm, f"result.{nm} returns the stored {nm}", m.loc())
