"""C11 - caller-owned data is never modified (ownership / alias-mutation analysis, E4)."""
from __future__ import annotations

import ast
from typing import Dict, List, Optional

from ..model import AnalysisError, FuncInfo, Program, dotted, own_nodes, unparse
from ..own import Ownership, Sink
from .common import U, short

EXPLANATION = (
    "Alias analysis over resolved expressions with an interprocedural fixed point (tokens reaching parameters, returned by "
    "functions, stored in attributes).  Sources: x0/y0 of the three entry points, the bound arrays of a Problem, the scaling "
    "arrays of Params/Scaling, and every value returned by problem.obj_grad/cons/cons_jac/lag_hess where the receiver may be "
    "the user's Problem.  Sinks: subscript and data-attribute stores, augmented assignment on dense values (`+=` on a scipy "
    "sparse matrix is a rebind), out= arguments, in-place methods and numpy in-place functions.  Obligation: no sink is "
    "reached by a value carrying a caller-owned token.  Aliasing facts of the transfer table (tocoo() of a COO matrix is the "
    "object itself, of a CSR matrix shares data; coo_matrix((data,..)) shares data; copy.copy of a sparse matrix is shallow; "
    "basic slices are views, mask/fancy indexing copies; eval.astype returns its argument for equal dtypes) were checked "
    "against numpy 2.5 / scipy 1.18.  Stores to flags.writeable are metadata and are listed as notes, not obligations."
)


def iterate_defensive_copy(prog: Program, rep, ow=None) -> None:
    """an Iterate owns its point: x and y are copies made by the constructor (shared by C12 / C13: the recorded and the evaluated point)"""
    from ..symex import facts_for
    if ow is None:
        ow = Ownership(prog)
    # defensive copies that the property's anchors name
    itn = prog.func("pygradflow.iterate.Iterate.__init__")
    fi_ = facts_for(itn)
    for attr in ("x", "y"):
        st = [s for s in fi_.order if isinstance(s.stmt, ast.Assign) and any(U(t) == f"self.{attr}" for t in s.stmt.targets)]
        ok = bool(st) and not Ownership.protected(ow.val(itn, fi_, fi_.resolved(st[0].stmt, st[0].stmt.value)))
        hp = Ownership.protected(ow.H.get(("pygradflow.iterate.Iterate", attr), set()))
        # Iterate is constructed by users as well (it is what callbacks and helpers hand around): on every path the stored array
        # is a copy made here, never the constructor's own argument - whatever flags that argument carries (a read-only VIEW of a
        # buffer the caller keeps writing to is still the caller's storage)
        bare = []
        for s_ in st:
            from ..symex import phi_alternatives as _alts
            for a in _alts(fi_.resolved(s_.stmt, s_.stmt.value)):
                while isinstance(a, ast.Call) and (dotted(a.func) or "").split(".")[-1] in ("_read_only", "asarray", "asanyarray", "ascontiguousarray", "atleast_1d") and a.args:
                    a = a.args[0]     # these hand back their argument (or may)
                if isinstance(a, ast.Name) and a.id in itn.params:
                    bare.append((s_, a.id))
        rep.check(ok and not hp and not bare, "defensive-copy", itn.qualname, short(st[0].stmt) if st else attr,
                  f"Iterate.{attr} never aliases caller-owned storage (copied on construction)" + (f"; on some path the argument `{bare[0][1]}` itself is stored" if bare else ""), itn.loc())


def problem_bounds_copied(prog: Program, rep) -> None:
    """Problem.var_lb / var_ub are copies made by the constructor: the box the solver clips to and evaluates in is the box that was
    declared, whatever the caller does with the arrays afterwards (np.asarray / astype(copy=False) hand the caller's array back)."""
    from ..symex import facts_for, phi_alternatives as _alts
    init = prog.func("pygradflow.problem.Problem.__init__")
    ff = facts_for(init)
    n = 0
    for attr in ("var_lb", "var_ub"):
        sts = [s for s in ff.order if isinstance(s.stmt, (ast.Assign, ast.AnnAssign)) and getattr(s.stmt, "value", None) is not None
               and any(U(t) == f"self.{attr}" for t in (s.stmt.targets if isinstance(s.stmt, ast.Assign) else [s.stmt.target]))]
        if not sts:
            raise AnalysisError(f"Problem.__init__ does not store self.{attr}")
        for s_ in sts:
            for a in _alts(ff.resolved(s_.stmt, s_.stmt.value)):
                n += 1
                e = a
                copied = False
                # walk through the calls that may hand back their argument until a copying call or the bare argument is reached
                while isinstance(e, ast.Call):
                    d = (dotted(e.func) or "")
                    last = d.split(".")[-1]
                    if last in ("copy", "array") and not any(kw.arg == "copy" and isinstance(kw.value, ast.Constant) and kw.value.value is False for kw in e.keywords):
                        copied = True
                        break
                    if last == "astype" and isinstance(e.func, ast.Attribute):
                        if not any(kw.arg == "copy" and isinstance(kw.value, ast.Constant) and kw.value.value is False for kw in e.keywords):
                            copied = True
                            break
                        e = e.func.value
                        continue
                    if last in ("asarray", "asanyarray", "ascontiguousarray", "atleast_1d", "asfarray", "_read_only", "require") and e.args:
                        e = e.args[0]
                        continue
                    break
                aliases = not copied and isinstance(e, ast.Name) and e.id in init.params
                rep.check(not aliases, "bounds-are-private-copies", init.qualname, short(s_.stmt),
                          f"Problem.{attr} is a copy made at construction" + (f" (the argument `{e.id}` itself may be stored: `{U(a)[:60]}`)" if aliases else ""), init.loc(s_.stmt))
    rep.pin("stores of the variable bounds in Problem.__init__", n, 2)


def run(prog: Program, rep, tier: str) -> None:
    rep.explanation = EXPLANATION
    rep.assumptions += ["scipy/numpy do not modify their inputs beyond what the transfer table states",
                        "user callbacks do not rely on writing into arrays they returned earlier (a frozen writeable flag is metadata)"]
    ow = Ownership(prog)
    rep.extra["fixed_point_rounds"] = ow.rounds
    n_sinks = 0
    n_protected_values = 0
    meta = []
    for fi in ow.funcs:
        for s in ow.sinks(fi):
            n_sinks += 1
            toks = ow.sink_tokens(s)
            prot = Ownership.protected(toks)
            where = fi.short
            if s.kind == "flag:writeable":
                if prot:
                    meta.append(f"{fi.loc(s.node)}: {short(s.si.stmt, 70)} may freeze {prot}")
                continue
            if prot:
                chain = []
                for t in prot[:3]:
                    chain += ow.explain(fi, t, 4)
                rep.fail("no-write-to-caller-owned", fi.qualname, short(s.si.stmt),
                         f"VIOLATED: in-place {s.kind} on `{U(s.target)}`, which may alias caller-owned data {prot}", fi.loc(s.node), chain)
            else:
                rep.ok("no-write-to-caller-owned", where, f"{s.kind} on `{U(s.target)[:50]}` reaches only fresh / internal storage", nontrivial=bool(toks - {'k:dense', 'k:sparse'}) or True)
    rep.note("metadata-freeze sites (writeable flag cleared on an array that may be the user's; values unchanged): " + "; ".join(meta[:6]))
    rep.pin("mutation sinks examined", n_sinks, 60)
    # the analysis must see the callback results at all: positive control on the live tree
    cp = prog.func("pygradflow.cons_problem.ConstrainedProblem.cons")
    from ..symex import facts_for
    ff = facts_for(cp)
    seen_user = False
    for n in own_nodes(cp.node):
        if isinstance(n, ast.Call) and isinstance(n.func, ast.Attribute) and n.func.attr == "cons":
            si = ff.stmt_of(n)
            if "user:cons" in ow.val(cp, ff, ff.resolved(si.stmt, n)):
                seen_user = True
    if not seen_user:
        raise AnalysisError("ownership analysis no longer sees the wrapped problem's cons() result as caller-owned (source table out of date)")
    iterate_defensive_copy(prog, rep, ow)
    problem_bounds_copied(prog, rep)
    itn = prog.func("pygradflow.iterate.Iterate.__init__")
    rep.extra["tokens_reaching_Iterate_init_x"] = sorted(ow.param_tokens(itn, "x"))
