"""C13 - residuals and augmented-Lagrangian derivatives match their definitions
(algebraic identity of normal forms, not floating point)."""
from __future__ import annotations

import ast
from typing import Dict, List, Optional

from ..algebra import CannotNormalise, Poly, Rational, Value, veq, vrepr
from ..model import AnalysisError, FuncInfo, Program, dotted, own_nodes, unparse
from ..symex import facts_for, phi_alternatives
from .common import U, arg_of, bind_args, const_value, is_self_attr, kwarg, np_call, returns_of, short
from .formulas import Ctx, SpecialCaseMismatch, oracle, positional_vals, value_of_function

IT = "pygradflow.iterate.Iterate"

EXPLANATION = (
    "Each closed-form quantity is normalised (expand, collect, commuting scalars sorted, J, J', H(m) non-commuting, dot() a "
    "symmetric bilinear form, Iterate members inlined down to x, y, f, g, c, J, H(.)) and compared with the definition entered "
    "once as a formula in the same syntax: aug_lag, aug_lag_violation, aug_lag_dual, aug_lag_deriv_x/_y/_xy/_xx (with the rho==0 "
    "special case proved equal to the general one), stat_res, total_res, cons_violation, bound_violation, the operand and sign "
    "table of bounds_dual and locally_infeasible, ImplicitFunc.projection_initial (plain and tau variants), value_at, deriv, the "
    "ScaledImplicitFunc siblings as lambda times the unscaled ones under lambda*dt = 1, the projection shape of project_box, the "
    "row filter of apply_project_deriv/keep_rows and the ActiveSet masks.  Formula methods must be pure (no memoised instance "
    "state).  Nothing is said about rounding."
)

P = {f"P{i}": Poly.scalar(f"P{i}") for i in range(4)}

ITERATE_FORMULAS = {
    # method: (kinds of positional params, oracle)
    "aug_lag": ({0: "scalar"}, "self.obj + P0 / 2 * np.dot(self.cons, self.cons) + np.dot(self.cons, self.y)"),
    "aug_lag_violation": ({0: "scalar"}, "P0 / 2 * np.dot(self.cons, self.cons)"),
    "aug_lag_dual": ({}, "np.dot(self.cons, self.y)"),
    "aug_lag_deriv_x": ({0: "scalar"}, "self.obj_grad + self.cons_jac.T.dot(P0 * self.cons + self.y)"),
    "aug_lag_deriv_y": ({}, "self.cons"),
    "aug_lag_deriv_xy": ({}, "self.cons_jac"),
    "aug_lag_deriv_xx": ({0: "scalar"}, "self.lag_hess(self.y + P0 * self.cons) + P0 * np.dot(self.cons_jac.T, self.cons_jac)"),
}


def _member_atoms(names):
    def hook(e, ctx):
        if isinstance(e, ast.Attribute) and isinstance(e.value, ast.Name) and e.value.id == "self" and e.attr in names:
            typ = names[e.attr]
            return Poly.scalar(f"{e.attr}[self]") if typ == "scalar" else Poly.atom(f"{e.attr}[self]", typ)
        return None
    return hook


def _cmp(rep, rule, fi: FuncInfo, got: Value, want: Value, what: str, stmt: str = "", loc=None):
    rep.check(veq(got, want), rule, fi.qualname, stmt or what, f"{what}: normal form equals the definition  (found {vrepr(got)[:160]}; definition {vrepr(want)[:160]})",
              loc or fi.loc())


def run(prog: Program, rep, tier: str) -> None:
    rep.explanation = EXPLANATION
    from . import c11 as _c11
    _c11.iterate_defensive_copy(prog, rep)    # an iterate's point is its own: nothing outside can move it after construction
    from . import c19 as _c19
    _c19.evaluator_memoryless(prog, rep)    # the evaluator answers every request with the value at the requested point
    it = prog.cls(IT)
    n = 0
    # ---------------- rule 1: Iterate formulas -----------------------------------
    for name, (kinds, text) in ITERATE_FORMULAS.items():
        m = it.methods.get(name)
        if m is None:
            raise AnalysisError(f"Iterate.{name} has vanished")
        vals = positional_vals(m, kinds)
        # purity: parameterised formulas keep no instance state
        stores = [s for s in own_nodes(m.node) if isinstance(s, ast.Attribute) and isinstance(s.ctx, ast.Store) and is_self_attr(s)]
        rep.check(not stores, "formula-pure", m.qualname, U(stores[0]) if stores else name,
                  f"Iterate.{name} keeps no memoised instance state (a cache not keyed on its arguments would return stale values)",
                  m.loc(stores[0]) if stores else m.loc())
        if stores:
            continue
        try:
            got = value_of_function(prog, m, vals, self_tag="it:self")
        except SpecialCaseMismatch as ex:
            rep.fail("formula-" + name, m.qualname, short(ex.ret), f"VIOLATED: the special-case return of {name} ({ex.special[:120]}) differs from the general "
                     f"formula under its own guard ({ex.general[:120]})", m.loc(ex.ret))
            continue
        want = oracle(prog, text, m, P, self_tag="it:self")
        _cmp(rep, "formula-" + name, m, got, want, f"Iterate.{name}")
        n += 1
    # special case of aug_lag_deriv_xx must be guarded by rho == 0
    xx = it.methods["aug_lag_deriv_xx"]
    fx = facts_for(xx)
    rho = [p for p in xx.params if p != "self"][0]
    for r in returns_of(xx):
        facts = fx.at(r).facts
        if any(f[0] == "==" for f in facts):
            rep.check(("==", rho, "0.0") in facts or ("==", rho, "0") in facts, "formula-aug_lag_deriv_xx", xx.qualname, short(r),
                      "the Hessian-only branch is taken only for rho == 0", xx.loc(r))

    # stat_res / total_res ----------------------------------------------------------
    sr = it.methods["stat_res"]
    got = value_of_function(prog, sr, {}, self_tag="it:self", attr_hook=_member_atoms({"bounds_dual": "vec"}))
    want = oracle(prog, "np.linalg.norm(self.obj_grad + self.cons_jac.T.dot(self.y) + self.bounds_dual, np.inf)", sr, {}, self_tag="it:self",
                  attr_hook=_member_atoms({"bounds_dual": "vec"}))
    _cmp(rep, "formula-stat_res", sr, got, want, "Iterate.stat_res")
    tr_ = it.methods["total_res"]
    hook = _member_atoms({"cons_violation": "scalar", "bound_violation": "scalar", "stat_res": "scalar"})
    got = value_of_function(prog, tr_, {}, self_tag="it:self", attr_hook=hook)
    want = oracle(prog, "max(self.cons_violation, self.bound_violation, self.stat_res)", tr_, {}, self_tag="it:self", attr_hook=hook)
    _cmp(rep, "formula-total_res", tr_, got, want, "Iterate.total_res")
    n += 2

    # cons_violation ---------------------------------------------------------------------
    cv = it.methods["cons_violation"]
    fc = facts_for(cv)
    ctx = Ctx(prog, cv, {}, {}, self_tag="it:self")
    want = oracle(prog, "np.linalg.norm(self.cons, np.inf)", cv, {}, self_tag="it:self")
    seen_general = False
    for r in returns_of(cv):
        facts = fc.at(r).facts
        v = ctx.value(fc.resolved(r, r.value))
        sizes = ("self.cons.size", "len(self.cons)", "__item__(self.cons.shape, 0)", "self.problem.num_cons")
        empty = any(f in facts for S in sizes for f in (("==", S, "0"), ("<=", S, "0"), ("falsy", S, None), ("<", S, "1")))
        if empty:
            rep.check(isinstance(v, Poly) and v.is_const() == 0, "formula-cons_violation", cv.qualname, short(r), "cons_violation is 0 for m == 0", cv.loc(r))
        else:
            seen_general = True
            _cmp(rep, "formula-cons_violation", cv, v, want, "Iterate.cons_violation", short(r), cv.loc(r))
    rep.check(seen_general, "formula-cons_violation", cv.qualname, "return", "cons_violation has a general return", cv.loc())
    n += 1

    # bound_violation -----------------------------------------------------------------------
    bv = it.methods["bound_violation"]

    def bhook(e, ctx):
        t = U(e)
        if t == "self.problem.var_lb":
            return Poly.atom("lb", "vec")
        if t == "self.problem.var_ub":
            return Poly.atom("ub", "vec")
        if np_call(e, "maximum") and len(e.args) == 2 and const_value(e.args[1]) == 0:
            return Poly.atom(f"pos({ctx.value(e.args[0])!r})", "vec")
        if np_call(e, "maximum") and len(e.args) == 2 and const_value(e.args[0]) == 0:
            return Poly.atom(f"pos({ctx.value(e.args[1])!r})", "vec")
        return None

    got = value_of_function(prog, bv, {}, self_tag="it:self", attr_hook=bhook)
    want = oracle(prog, "max(np.linalg.norm(np.maximum(self.problem.var_lb - self.x, 0.0), np.inf), np.linalg.norm(np.maximum(self.x - self.problem.var_ub, 0.0), np.inf))",
                  bv, {}, self_tag="it:self", attr_hook=bhook)
    _cmp(rep, "formula-bound_violation", bv, got, want, "Iterate.bound_violation")
    n += 1

    # is_feasible ------------------------------------------------------------------------------
    is_feasible_rule(prog, rep, "formula-is_feasible")

    # sign tables ---------------------------------------------------------------------------------
    sign_table(prog, rep, it.methods["bounds_dual"], "-(self.obj_grad + self.cons_jac.T.dot(self.y))",
               {"at_upper": "maximum", "at_lower": "minimum", "at_both": "identity"}, "bounds-dual-signs", init_zero=True)
    sign_table(prog, rep, it.methods["locally_infeasible"], "self.cons_jac.T.dot(self.cons)",
               {"at_lower": "minimum", "at_upper": "maximum"}, "infeasibility-projection-signs", init_zero=False)
    active_set_masks(prog, rep)
    evaluations_not_corrupted(prog, rep)
    formula_classes_pure(prog, rep)
    implicit_funcs(prog, rep)
    projection_shape(prog, rep)
    rep.pin("closed-form formulas compared", n + rep.extra.get("implicit_formulas", 0), 17)


def formula_classes_pure(prog: Program, rep, with_iterate: bool = False) -> None:
    """the classes whose methods are formulas keep no state that depends on the arguments of an earlier call"""
    if with_iterate:
        it = prog.cls(IT)
        for name in ITERATE_FORMULAS:
            m = it.methods.get(name)
            if m is None:
                raise AnalysisError(f"Iterate.{name} has vanished")
            stores = [s_ for s_ in own_nodes(m.node) if isinstance(s_, ast.Attribute) and isinstance(s_.ctx, ast.Store) and is_self_attr(s_)]
            rep.check(not stores, "formula-pure", m.qualname, U(stores[0]) if stores else name,
                      f"Iterate.{name} keeps no memoised instance state (a cache not keyed on its arguments would return stale values)",
                      m.loc(stores[0]) if stores else m.loc())
    from . import c10
    for q in ("pygradflow.eval.Evaluator", "pygradflow.eval.SimpleEvaluator", "pygradflow.eval.ValidatingEvaluator"):
        ci = prog.cls(q)
        bad = c10.class_is_immutable_after_init(prog, ci, {"num_evals": "counter"})
        rep.check(not bad, "formula-pure", bad[0][0].qualname if bad else ci.qualname, U(bad[0][1])[:60] if bad else ci.name,
                  f"{ci.name} keeps no state besides its evaluation counter (a memo that ignores an argument would hand back a stale function value)",
                  bad[0][0].loc(bad[0][1]) if bad else "")
    for q in ("pygradflow.implicit_func.StepFunc", "pygradflow.implicit_func.ImplicitFunc", "pygradflow.implicit_func.ScaledImplicitFunc",
              "pygradflow.active_set.ActiveSet"):
        ci = prog.cls(q)
        bad = c10.class_is_immutable_after_init(prog, ci, {})
        rep.check(not bad, "formula-pure", bad[0][0].qualname if bad else ci.qualname, U(bad[0][1])[:60] if bad else ci.name,
                  f"{ci.name} is immutable after construction: value_at / deriv_at / compute_active_set are functions of their arguments and the constructor's "
                  f"(problem, iterate, dt) only (a memo keyed on fewer arguments than the method takes would return a stale active set or value)",
                  bad[0][0].loc(bad[0][1]) if bad else "")


def is_feasible_rule(prog: Program, rep, rule: str) -> None:
    """is_feasible(tol) is true exactly when cons_violation <= tol and bound_violation <= tol.  The method touches the two
    violations only through comparisons with tol, so it is a boolean function of A = (cons_violation <= tol) and
    B = (bound_violation <= tol); its truth table is computed from the return statements (path facts select the return taken)
    and compared with A and B."""
    from ..symex import atoms_of
    it = prog.cls(IT)
    isf = it.methods["is_feasible"]
    ff = facts_for(isf)
    tol = [p for p in isf.params if p != "self"][0]
    A = ("<=", "self.cons_violation", tol)
    B = ("<=", "self.bound_violation", tol)
    NA = ("<", tol, "self.cons_violation")
    NB = ("<", tol, "self.bound_violation")

    class Unknown(Exception):
        pass

    def atom_val(at, asg):
        if at == A:
            return asg[0]
        if at == NA:
            return not asg[0]
        if at == B:
            return asg[1]
        if at == NB:
            return not asg[1]
        op, l, r = at
        if op in ("truthy", "falsy") and r is None:
            try:
                e = ast.parse(l, mode="eval").body
            except SyntaxError:
                raise Unknown(l)
            v = ev(e, asg)
            return v if op == "truthy" else not v
        raise Unknown(str(at))

    def ev(e, asg):
        if isinstance(e, ast.Constant) and isinstance(e.value, bool):
            return e.value
        if isinstance(e, ast.UnaryOp) and isinstance(e.op, ast.Not):
            return not ev(e.operand, asg)
        if isinstance(e, ast.BoolOp):
            vals = [ev(v, asg) for v in e.values]
            return all(vals) if isinstance(e.op, ast.And) else any(vals)
        if isinstance(e, ast.Call) and dotted(e.func) == "bool" and len(e.args) == 1:
            return ev(e.args[0], asg)
        if isinstance(e, ast.IfExp):
            return ev(e.body, asg) if ev(e.test, asg) else ev(e.orelse, asg)
        if isinstance(e, ast.Compare):
            ats = atoms_of(e, True)
            return all(atom_val(a, asg) for a in ats)
        raise Unknown(U(e))

    rs = returns_of(isf)
    ok = bool(rs)
    table = {}
    try:
        for asg in ((a, b) for a in (True, False) for b in (True, False)):
            taken = [r for r in rs if all(atom_val(f, asg) for f in ff.at(r).facts)]
            if len(taken) != 1:
                raise AnalysisError(f"Iterate.is_feasible: {len(taken)} return statements are reachable for (cons ok, bounds ok) = {asg}")
            vals = {ev(alt, asg) for alt in phi_alternatives(ff.resolved(taken[0], taken[0].value))}
            if len(vals) != 1:
                raise Unknown("ambiguous value")
            table[asg] = vals.pop()
            ok = ok and table[asg] == (asg[0] and asg[1])
    except Unknown as e:
        raise AnalysisError(f"Iterate.is_feasible is not a boolean function of the two comparisons with tol: `{e}`")
    rep.check(ok, rule, isf.qualname, short(rs[0]) if rs else "is_feasible",
              f"is_feasible(tol) is cons_violation <= tol and bound_violation <= tol (truth table over (cons ok, bounds ok): {sorted(table.items())})", isf.loc())


def evaluations_not_corrupted(prog: Program, rep) -> None:
    """the functions that compute these quantities never write into a (cached) evaluation of an iterate: a formula that is right
    when first evaluated is still right afterwards."""
    from ..own import Ownership
    ow = Ownership(prog)
    n = 0
    for fi in ow.funcs:
        if fi.module.name not in ("pygradflow.implicit_func", "pygradflow.iterate", "pygradflow.util", "pygradflow.active_set"):
            continue
        for sk in ow.sinks(fi):
            if sk.kind == "flag:writeable":
                continue
            n += 1
            prot = Ownership.protected(ow.sink_tokens(sk))
            rep.check(not prot, "evaluations-not-corrupted", fi.qualname, short(sk.si.stmt),
                      f"in-place {sk.kind} on `{U(sk.target)[:40]}` does not reach a callback result held by an iterate ({prot})", fi.loc(sk.node))
    rep.pin("in-place operations in the formula modules", n, 5)


def sign_table(prog: Program, rep, m: FuncInfo, operand_text: str, table: Dict[str, str], rule: str, init_zero: bool) -> None:
    """stores of the form  target[<active_set>.<mask>] = np.{maximum,minimum}(operand[<mask>], 0)  / operand[<mask>]."""
    ff = facts_for(m)
    ctx = Ctx(prog, m, {}, {}, self_tag="it:self")
    want = oracle(prog, operand_text, m, {}, self_tag="it:self")
    found: Dict[str, str] = {}
    operand_ok = True
    for si in ff.order:
        st = si.stmt
        if not (isinstance(st, ast.Assign) and len(st.targets) == 1 and isinstance(st.targets[0], ast.Subscript)):
            continue
        tgt = st.targets[0]
        idx = ff.resolved(st, tgt.slice)
        it_ = U(idx)
        mask = None
        for k in ("at_upper", "at_lower", "at_both", "at_either"):
            if it_ == f"self.active_set.{k}":
                mask = k
        if mask is None:
            continue
        val = st.value
        if isinstance(val, ast.Name):
            # the projected part computed into a temporary first (`lower = np.minimum(g[at_lower], 0.0); g[at_lower] = lower`)
            ds_ = [q for q in ff.order if q.index < si.index and isinstance(q.stmt, ast.Assign) and len(q.stmt.targets) == 1 and U(q.stmt.targets[0]) == val.id]
            if len(ds_) == 1:
                val = ds_[0].stmt.value
        if isinstance(val, ast.Call) and isinstance(val.func, ast.Name):
            # the projection may be held in a local (`clamp = np.minimum`)
            fr_ = ff.resolved(st, val.func)
            if isinstance(fr_, (ast.Attribute, ast.Name)):
                val = ast.copy_location(ast.Call(func=fr_, args=val.args, keywords=val.keywords), val)
        kind = None
        src = None
        if np_call(val, "maximum", "minimum") and len(val.args) == 2 and const_value(val.args[1]) == 0:
            kind = "maximum" if np_call(val, "maximum") else "minimum"
            src = val.args[0]
        elif np_call(val, "maximum", "minimum") and len(val.args) == 2 and const_value(val.args[0]) == 0:
            kind = "maximum" if np_call(val, "maximum") else "minimum"
            src = val.args[1]
        elif isinstance(val, ast.Subscript):
            kind, src = "identity", val
        if kind is None or not isinstance(src, ast.Subscript) or U(ff.resolved(st, src.slice)) != it_:
            rep.fail(rule, m.qualname, short(st), f"VIOLATED: store on mask {mask} is not max/min/identity of the operand restricted to the same mask", m.loc(st))
            continue
        # operand: value of the subscripted base *before* any masked store (its defining expression)
        base = src.value
        base_def = ff.resolved(st, base)
        try:
            bval = ctx.value(base_def)
        except CannotNormalise:
            # the operand variable itself is being overwritten in place (locally_infeasible): use its first definition
            bval = None
            if isinstance(base, ast.Name):
                for s2 in ff.order:
                    if isinstance(s2.stmt, ast.Assign) and any(isinstance(t, ast.Name) and t.id == base.id for t in s2.stmt.targets):
                        bval = ctx.value(ff.resolved(s2.stmt, s2.stmt.value))
                        break
        if bval is None or not veq(bval, want):
            operand_ok = False
            rep.fail(rule + "-operand", m.qualname, short(st), f"VIOLATED: projected operand is {vrepr(bval) if bval is not None else '?'}, definition {vrepr(want)}", m.loc(st))
        if mask in found:
            rep.fail(rule, m.qualname, short(st), f"VIOLATED: mask {mask} is stored twice", m.loc(st))
        found[mask] = kind
    rep.check(found == table, rule, m.qualname, m.name,
              f"{m.name}: sign table (mask -> projection) is {table} on the operand {operand_text} (found {found})", m.loc())
    if operand_ok and found:
        rep.ok(rule + "-operand", m.short, f"operand equals {operand_text}")


def active_set_masks(prog: Program, rep) -> None:
    m = prog.func("pygradflow.active_set.ActiveSet.__init__")
    ff = facts_for(m)
    last = ff.order[-1]
    env = dict(last.env)
    # final values of the attributes
    from ..symex import resolve
    def final(attr):
        v = env.get(f"self.{attr}")
        if v is None:
            # assigned by the last statement
            st = last.stmt
            if isinstance(st, ast.Assign) and any(U(t) == f"self.{attr}" for t in st.targets):
                return ff.resolved(st, st.value)
        return v
    itn = [p for p in m.params if p != "self"][0]
    lo = f"np.absolute({itn}.x - {itn}.problem.var_lb) <= {itn}.params.active_tol"
    up = f"np.absolute({itn}.problem.var_ub - {itn}.x) <= {itn}.params.active_tol"
    up2 = f"np.absolute({itn}.x - {itn}.problem.var_ub) <= {itn}.params.active_tol"
    def canon(e):
        t = U(e).replace("np.abs(", "np.absolute(")
        return t
    both = final("at_both")
    lower = final("at_lower")
    upper = final("at_upper")
    # the three masks as boolean functions of L = (|x-lb| <= tol) and U = (|ub-x| <= tol), compared on all four valuations
    from .common import UnknownAtom, mask_eval

    def table(e):
        if e is None:
            return None
        out = []
        for L_ in (False, True):
            for U_ in (False, True):
                def av(t):
                    k = _tol_atom(t)
                    if k == _tol_atom(lo):
                        return L_
                    if k == _tol_atom(up):
                        return U_
                    raise UnknownAtom(t)
                out.append(mask_eval(e, av))
        return out
    try:
        tb, tl, tu = table(both), table(lower), table(upper)
    except UnknownAtom as ex:
        # the masks are DEFINED as functions of these two tests: a mask that depends on anything else is another function
        rep.fail("active-set-masks", m.qualname, "masks", f"VIOLATED: an active-set mask is built from `{str(ex)[:90]}`, which is neither |x-lb| <= active_tol nor |ub-x| <= active_tol", m.loc())
        return
    # valuations in the order (L,U) = FF, FT, TF, TT
    rep.check(tb == [False, False, False, True], "active-set-masks", m.qualname, "self.at_both", "at_both = (|x-lb| <= tol) and (|ub-x| <= tol)", m.loc())
    rep.check(tl == [False, False, True, False], "active-set-masks", m.qualname, "self.at_lower", "at_lower = (|x-lb| <= tol) and not at_both (masks are mutually exclusive)", m.loc())
    rep.check(tu == [False, True, False, False], "active-set-masks", m.qualname, "self.at_upper", "at_upper = (|ub-x| <= tol) and not at_both (masks are mutually exclusive)", m.loc())


def _tol_atom(text: str):
    """canonical key of a test `|a - b| <= tol` in any of its spellings (np.abs / np.absolute, operands of the difference swapped,
    mirrored comparison `tol >= |..|`, np.isclose(a, b, rtol=0, atol=tol)); the text itself for anything else."""
    try:
        e = ast.parse(text, mode="eval").body
    except SyntaxError:
        return text
    if isinstance(e, ast.Compare) and len(e.ops) == 1 and isinstance(e.ops[0], (ast.LtE, ast.GtE)):
        l, r = (e.left, e.comparators[0]) if isinstance(e.ops[0], ast.LtE) else (e.comparators[0], e.left)
        if np_call(l, "abs", "absolute") and len(l.args) == 1 and isinstance(l.args[0], ast.BinOp) and isinstance(l.args[0].op, ast.Sub):
            return ("abs<=", frozenset((U(l.args[0].left), U(l.args[0].right))), U(r))
    if np_call(e, "isclose") and len(e.args) == 2:
        rt = kwarg(e, "rtol")
        at = kwarg(e, "atol")
        if rt is not None and const_value(rt) == 0 and at is not None:
            return ("abs<=", frozenset((U(e.args[0]), U(e.args[1]))), U(at))
    return text


def implicit_funcs(prog: Program, rep) -> None:
    imf = prog.cls("pygradflow.implicit_func.ImplicitFunc")
    sif = prog.cls("pygradflow.implicit_func.ScaledImplicitFunc")
    n = 0

    def hook_for(cls_name):
        def hook(e, ctx):
            t = U(e)
            if t == "self.dt":
                return Poly.scalar("dt")
            if t == "self.lamb":
                return Rational(Poly.const(1), Poly.scalar("dt"))
            if t in ("self.n", "self.m"):
                return Poly.scalar(t[-1])
            if isinstance(e, ast.Call):
                d = dotted(e.func) or ""
                if isinstance(e.func, ast.Attribute) and e.func.attr == "projection_initial" and U(e.func.value) == "self":
                    cls_ = imf if cls_name == imf.name else sif
                    pm = cls_.methods["projection_initial"]
                    b = bind_args(pm, e)
                    if b is None:
                        raise CannotNormalise("cannot bind projection_initial call")
                    pit, prho, ptau = [q for q in pm.params if q != "self"][:3]
                    if not (isinstance(b[ptau], ast.Constant) and b[ptau].value is None):
                        raise CannotNormalise("projection_initial called with a tau inside a residual formula")
                    pf = facts_for(pm)
                    sel = [r for r in returns_of(pm) if ("isnot", ptau, "None") not in pf.at(r).facts]
                    if len(sel) != 1:
                        raise CannotNormalise("projection_initial: no unique plain return")
                    tagv = ctx.tag_of(b[pit]) or ("it:" + U(b[pit]))
                    sub = Ctx(prog, pm, {prho: ctx.value(b[prho])}, {pit: tagv}, attr_hook=hook)
                    return sub.value(pf.resolved(sel[0], sel[0].value))
                if isinstance(e.func, ast.Attribute) and e.func.attr == "project" and U(e.func.value) in ("self", "super()") and len(e.args) == 2:
                    v = ctx.value(e.args[0])
                    return Poly.atom(f"proj({vrepr(v)}|{U(e.args[1])})", "vec")
                if isinstance(e.func, ast.Attribute) and e.func.attr == "apply_project_deriv" and len(e.args) == 2:
                    v = ctx.value(e.args[0])
                    return Poly.atom(f"PD({vrepr(v)}|{U(e.args[1])})", "mat")
                if d in ("sp.sparse.eye", "scipy.sparse.eye") and e.args:
                    return Poly.atom(f"I_{U(e.args[0])}", "mat")
                if d in ("sp.sparse.diags", "scipy.sparse.diags") and e.args and isinstance(e.args[0], ast.List) and len(e.args[0].elts) == 1:
                    sh = kwarg(e, "shape")
                    dim = U(sh.elts[0]) if isinstance(sh, ast.Tuple) else "?"
                    return ctx.tr._mul(ctx.value(e.args[0].elts[0]), Poly.atom(f"I_{dim}", "mat"))
                if d in ("sp.sparse.bmat", "scipy.sparse.bmat") and e.args and isinstance(e.args[0], ast.List):
                    rows = []
                    for row in e.args[0].elts:
                        rows.append(("block", tuple(ctx.value(x) for x in row.elts)))
                    return ("block", tuple(rows))
            if isinstance(e, ast.Name) and e.id in ("n", "m"):
                return Poly.scalar(e.id)
            return None
        return hook

    # the local aliases n = self.n etc. are resolved by symex; dt = self.dt as well
    def values(cls, mname, kinds, by_fact=None):
        m = cls.methods[mname]
        ff = facts_for(m)
        vals = positional_vals(m, kinds)
        out = []
        for r in returns_of(m):
            ctx = Ctx(prog, m, dict(vals), {}, attr_hook=hook_for(cls.name))
            out.append((r, ff.at(r).facts, ctx.value(ff.resolved(r, r.value))))
        return m, out

    def orc(cls, mname, text):
        m = cls.methods[mname]
        return oracle(prog, text, m, dict(P, **{"P0v": Poly.atom("P0", "mat"), "P1v": Poly.atom("P1", "mat")}), attr_hook=hook_for(cls.name))

    plain = {}
    tauv = {}
    for cls, lam in ((imf, False), (sif, True)):
        m, rets = values(cls, "projection_initial", {1: "scalar", 2: "scalar"})
        itp, rhop, taup = [p for p in m.params if p != "self"][:3]
        m_or = lambda text: oracle(prog, text.replace("IT", itp), m, {rhop: Poly.scalar("P1"), taup: Poly.scalar("P2")}, attr_hook=hook_for(cls.name))
        for r, facts, v in rets:
            if ("isnot", taup, "None") in facts:
                tauv[cls.name] = (m, r, v)
            else:
                plain[cls.name] = (m, r, v)
        if cls is imf:
            want_plain = m_or("self.orig_iterate.x - self.dt * IT.aug_lag_deriv_x(%s)" % rhop)
            want_tau = m_or("(1 - %s / self.dt) * IT.x + (%s / self.dt) * self.orig_iterate.x - %s * IT.aug_lag_deriv_x(%s)" % (taup, taup, taup, rhop))
            if cls.name in plain:
                _cmp(rep, "formula-projection_initial", m, plain[cls.name][2], want_plain, "ImplicitFunc.projection_initial", short(plain[cls.name][1]), m.loc(plain[cls.name][1]))
                n += 1
            if cls.name in tauv:
                _cmp(rep, "formula-projection_initial-tau", m, tauv[cls.name][2], want_tau, "ImplicitFunc.projection_initial (tau variant)", short(tauv[cls.name][1]), m.loc(tauv[cls.name][1]))
                n += 1
            imf_plain, imf_tau = want_plain, want_tau
    # sibling identity: scaled == lambda * unscaled
    lam = Rational(Poly.const(1), Poly.scalar("dt"))
    tr = Ctx(prog, None, {}, {}).tr
    for key, store, base, nm in (("plain", plain, None, "projection_initial"), ("tau", tauv, None, "projection_initial (tau variant)")):
        if sif.name in store and imf.name in store:
            m, r, v = store[sif.name]
            want = tr._mul(lam, store[imf.name][2])
            _cmp(rep, "sibling-scaled-projection", m, v, want, f"ScaledImplicitFunc.{nm} == lambda * ImplicitFunc.{nm} under lambda*dt = 1", short(r), m.loc(r))
            n += 1
    rep.check(imf.name in plain and imf.name in tauv and sif.name in plain and sif.name in tauv, "formula-projection_initial", imf.qualname, "projection_initial",
              "both residual functions have a plain and a tau variant of projection_initial", imf.methods["projection_initial"].loc())

    # value_at -------------------------------------------------------------------------------
    m, rets = values(imf, "value_at", {1: "scalar"})
    itp, rhop = [p for p in m.params if p != "self"][:2]
    if len(rets) != 1:
        raise AnalysisError("ImplicitFunc.value_at has several returns")
    got = rets[0][2]
    # the projection argument must be projection_initial(iterate, rho) and the same active set
    p_plain = vrepr(plain[imf.name][2])
    ok_shape = isinstance(got, tuple) and got[0] == "block" and len(got[1]) == 2
    rep.check(ok_shape, "formula-value_at", m.qualname, short(rets[0][0]), "value_at returns the block vector (x-part, y-part)", m.loc(rets[0][0]))
    if ok_shape:
        xv, yv = got[1]
        want_y = oracle(prog, f"{itp}.y - (self.orig_iterate.y + self.dt * {itp}.cons)", m, {rhop: Poly.scalar("P1")}, attr_hook=hook_for(imf.name))
        _cmp(rep, "formula-value_at-y", m, yv, want_y, "ImplicitFunc.value_at y-block: y - (y_hat + dt*c(x))", short(rets[0][0]), m.loc(rets[0][0]))
        # x block: x - proj(p | active_set)
        okx = False
        if isinstance(xv, Poly) and len(xv.terms) == 2:
            terms = {".".join(nn): c for (s, nn), c in xv.terms.items() if not s}
            xs = [k for k in terms if k.startswith("x[")]
            ps = [k for k in terms if k.startswith("proj(")]
            if len(xs) == 1 and len(ps) == 1 and terms[xs[0]] == 1 and terms[ps[0]] == -1 and xs[0] == f"x[{itp}]":
                okx = ps[0].startswith(f"proj({p_plain}|")
        rep.check(okx, "formula-value_at-x", m.qualname, short(rets[0][0]),
                  f"ImplicitFunc.value_at x-block is x - P(x_hat - dt*grad_x L) with the projection of projection_initial (found {vrepr(xv)[:200]})", m.loc(rets[0][0]))
        n += 2
    # scaled sibling x-block (the y-block is deliberately negated there: printed, no obligation)
    m2, rets2 = values(sif, "value_at", {1: "scalar"})
    if len(rets2) == 1 and isinstance(rets2[0][2], tuple) and rets2[0][2][0] == "block" and len(rets2[0][2][1]) == 2:
        xv2, yv2 = rets2[0][2][1]
        itp2 = [p for p in m2.params if p != "self"][0]
        p_s = vrepr(plain[sif.name][2])
        okx = False
        if isinstance(xv2, Rational) or isinstance(xv2, Poly):
            want_txt = None
            num = xv2.num if isinstance(xv2, Rational) else xv2
            den = xv2.den if isinstance(xv2, Rational) else Poly.const(1)
            # lambda*x - proj(p_scaled)  ==  (x - dt*proj)/dt
            terms = {(s, ".".join(nn)): c for (s, nn), c in num.terms.items()}
            okx = any(k[1] == f"x[{itp2}]" for k in terms) and any(k[1].startswith(f"proj({p_s}|") for k in terms)
        rep.check(okx, "sibling-scaled-value_at-x", m2.qualname, short(rets2[0][0]),
                  "ScaledImplicitFunc.value_at x-block is lambda*x - P_lambda(lambda*x_hat - grad_x L)", m2.loc(rets2[0][0]))
        rep.note(f"ScaledImplicitFunc.value_at y-block (no obligation; right-hand side of the symmetric formulation): {vrepr(yv2)[:160]}")
        n += 1

    # deriv -----------------------------------------------------------------------------------------
    for cls in (imf, sif):
        m = cls.methods["deriv"]
        ff = facts_for(m)
        ps = [p for p in m.params if p != "self"]
        vals = {ps[0]: Poly.atom("Jac", "mat"), ps[1]: Poly.atom("Hess", "mat")}
        rs = returns_of(m)
        if len(rs) != 1:
            raise AnalysisError(f"{cls.name}.deriv has several returns")
        ctx = Ctx(prog, m, vals, {}, attr_hook=hook_for(cls.name))
        got = ctx.value(ff.resolved(rs[0], rs[0].value))
        A = ps[2]
        if cls is imf:
            text = f"sp.sparse.bmat([[sp.sparse.eye(self.n) + self.apply_project_deriv(self.dt * {ps[1]}, {A}), self.apply_project_deriv(self.dt * {ps[0]}.T, {A})], [-self.dt * {ps[0]}, sp.sparse.eye(self.m)]])"
        else:
            text = f"sp.sparse.bmat([[(1 / self.dt) * sp.sparse.eye(self.n) + self.apply_project_deriv({ps[1]}, {A}), self.apply_project_deriv({ps[0]}.T, {A})], [-{ps[0]}, (1 / self.dt) * sp.sparse.eye(self.m)]])"
        want = oracle(prog, text, m, vals, attr_hook=hook_for(cls.name))
        _cmp(rep, "formula-deriv", m, got, want, f"{cls.name}.deriv block matrix", short(rs[0]), m.loc(rs[0]))
        n += 1
    rep.extra["implicit_formulas"] = n


def projection_shape(prog: Program, rep) -> None:
    pb = prog.func("pygradflow.implicit_func.StepFunc.project_box")
    ff = facts_for(pb)
    xs, lb, ub, aset = [p for p in pb.params if p != "self"][:4]
    rs = returns_of(pb)
    ok_copy = ok_store = False
    stores = []
    ret_name = U(rs[0].value) if len(rs) == 1 else None
    for si in ff.order:
        st = si.stmt
        if isinstance(st, ast.Assign) and len(st.targets) == 1:
            t = st.targets[0]
            if isinstance(t, ast.Name) and t.id == ret_name and np_call(st.value, "copy") and U(st.value.args[0]) == xs:
                ok_copy = True
            if isinstance(t, ast.Subscript) and U(t.value) == ret_name:
                stores.append(st)
    if len(stores) == 1:
        st = stores[0]
        v = ff.resolved(st, st.value)
        ok_store = U(ff.resolved(st, st.targets[0].slice)) == aset and np_call(v, "clip") and len(v.args) == 3 and not v.keywords and \
            [U(a) for a in v.args] == [f"{xs}[{aset}]", f"{lb}[{aset}]", f"{ub}[{aset}]"]
    rep.check(ok_copy and ok_store and len(stores) == 1, "projection-shape", pb.qualname, short(stores[0]) if stores else "project_box",
              "project_box returns a copy of x in which exactly the active components are replaced by clip(x, lb, ub) (lower bound first, same mask on all three)", pb.loc())
    # apply_project_deriv keeps the rows of the inactive set
    ap = prog.func("pygradflow.implicit_func.StepFunc.apply_project_deriv")
    fa = facts_for(ap)
    mat, aset2 = [p for p in ap.params if p != "self"][:2]
    rs = returns_of(ap)
    ok = False
    if len(rs) == 1:
        v = fa.resolved(rs[0], rs[0].value)
        ok = isinstance(v, ast.Call) and dotted(v.func) == "keep_rows" and len(v.args) == 2 and U(v.args[0]) == mat and U(v.args[1]) == f"np.logical_not({aset2})"
    if not ok:
        raise AnalysisError("apply_project_deriv is not in the recognised form keep_rows(mat, logical_not(active_set)); cannot decide its meaning")
    rep.check(ok, "projection-deriv-rows", ap.qualname, short(rs[0]) if rs else "", "apply_project_deriv keeps exactly the rows of the inactive components", ap.loc())
    kr = prog.func("pygradflow.util.keep_rows")
    fk = facts_for(kr)
    mp, rf = kr.params[:2]
    rets = returns_of(kr)
    early = [r for r in rets if r.value is not None and U(fk.resolved(r, r.value)) == mp]     # the (unchanged) argument itself
    ok_early = all(("truthy", f"{rf}.all()", None) in fk.at(r).facts for r in early)
    rep.check(ok_early, "keep-rows", kr.qualname, short(early[0]) if early else "", "keep_rows returns its input unchanged only when every row is kept", kr.loc())
    gen = [r for r in rets if r not in early]
    ok_gen = False
    if len(gen) == 1:
        v = fk.resolved(gen[0], gen[0].value)
        t = U(v)
        # coo_matrix((data[f], (row[f], col[f])), shape=mat.shape) with f = row_filter[rows[...]]
        ok_gen = isinstance(v, ast.Call) and (dotted(v.func) or "").endswith("coo_matrix") and f"{rf}[" in t and ".row" in t and ".col" in t and ".data" in t
        if ok_gen:
            data_e, (row_e, col_e) = v.args[0].elts[0], v.args[0].elts[1].elts
            filt = {U(x.slice) for x in (data_e, row_e, col_e) if isinstance(x, ast.Subscript)}
            ok_gen = len(filt) == 1 and next(iter(filt)).startswith(f"{rf}[") and ".row" in next(iter(filt))
    rep.check(ok_gen, "keep-rows", kr.qualname, short(gen[0]) if gen else "", "keep_rows builds the result from the entries whose row index passes the row filter (same filter on data, rows, cols)", kr.loc())
