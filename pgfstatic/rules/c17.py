"""C17 - linear solvers return the solution or fail loudly (error discipline only)."""
from __future__ import annotations

import ast
import itertools
from typing import Dict, List, Optional, Tuple

from ..excflow import ExcFlow
from ..model import AnalysisError, ClassInfo, FuncInfo, Program, dotted, own_nodes, unparse
from ..symex import atoms_of, facts_for, phi_alternatives, resolve
from .common import U, bind_args, const_value, is_self_attr, kwarg, np_call, returns_of, short

LS = "pygradflow.linear_solver.linear_solver.LinearSolver"
LSE = "pygradflow.linear_solver.linear_solver.LinearSolverError"
INSTALLED = ("LUSolver", "GMRESSolver", "MINRESSolver")
ITERATIVE = {"GMRESSolver": "gmres", "MINRESSolver": "minres"}

EXPLANATION = (
    "Residual size and backward error are numerical and not decided.  Decided: (1) in every solve() that obtains a status from its "
    "backend, each return of the backend's solution is dominated by the success fact (info == 0 / status successful); the early "
    "return of the initial guess in the GMRES solver is dominated by ||rhs - A x0||_inf < atol for the very matrix and tolerance that "
    "would be passed to gmres; (2) backend calls that signal failure by exception sit inside a handler of that class which raises "
    "LinearSolverError (splu -> RuntimeError); (3) parameter discipline of the installed solvers: the LU solver factorises the given "
    "matrix and maps trans to SuperLU's 'T'/'N' (checked by enumerating the boolean flag expression), GMRES transposes the matrix, "
    "MINRES asserts symmetry; the initial guess is a thunk that is called and passed as x0 or ignored by a direct solver; no solver "
    "writes into the caller's rhs; every override accepts (rhs, trans, initial_sol).  The four absent backends (Cholesky, MA57, "
    "MUMPS, SSIDS) are listed without obligation except the status-before-return rule."
)


def _helper_facts(prog: Program, fi: FuncInfo, ff, upto_index: int) -> List[Tuple[str, str, Optional[str]]]:
    """facts established by earlier `self.helper(arg)` statements whose body is `if <cond on param>: raise ...`."""
    out = []
    cls = prog.enclosing_class(fi)
    for s in ff.order:
        if s.index >= upto_index:
            break
        st = s.stmt
        if isinstance(st, ast.Expr) and isinstance(st.value, ast.Call) and isinstance(st.value.func, ast.Attribute) and U(st.value.func.value) == "self" and cls is not None:
            h = prog.lookup_method(cls, st.value.func.attr)
            if h is None:
                continue
            b = bind_args(h, st.value)
            body = [x for x in h.node.body if not (isinstance(x, ast.Expr) and isinstance(x.value, ast.Constant))]
            if b is not None and len(body) == 1 and isinstance(body[0], ast.If) and not body[0].orelse and isinstance(body[0].body[-1], ast.Raise):
                env = {k: ff.resolved(st, v) for k, v in b.items()}
                out += atoms_of(resolve(body[0].test, env), False)
    return out


def run(prog: Program, rep, tier: str) -> None:
    rep.explanation = EXPLANATION
    # "or fail loudly" means: with LinearSolverError.  Code the solvers run on the way (helpers, logging wrappers) must not die of
    # its own bugs instead: containers changed while iterated over raise RuntimeError in the middle of a factorisation
    from .common import mutation_while_iterating
    base = prog.cls("pygradflow.linear_solver.linear_solver.LinearSolver")
    seen, todo = set(), []
    for c in prog.all_subclasses(base, include_self=True):
        if prog.in_scope(c):
            todo += [(m_, 0) for m_ in c.methods.values()]
    while todo:
        f, d = todo.pop()
        if f.qualname in seen:
            continue
        seen.add(f.qualname)
        for n_ in own_nodes(f.node):
            if isinstance(n_, ast.Call):
                ts = prog.resolve_call_target(f, n_)
                if not ts and isinstance(n_.func, ast.Attribute):
                    # receiver of unknown type (a module-level helper object, ...): every in-scope method of that name may run
                    ts = [g for g in prog.functions.values() if g.cls is not None and g.name == n_.func.attr and prog.in_scope(g)]
                for t in ts:
                    if isinstance(t, FuncInfo):
                        todo.append((t, d + 1))
                    elif hasattr(t, "methods") and "__init__" in t.methods:
                        todo.append((t.methods["__init__"], d + 1))
    n_mut = 0
    for q in sorted(seen):
        f = prog.functions.get(q)
        if f is None:
            continue
        for lp, hit, ctxt in mutation_while_iterating(f):
            n_mut += 1
            rep.fail("solver-helpers-cannot-crash", f.qualname, short(hit), f"VIOLATED: `{U(hit)[:60]}` changes `{ctxt}` while it is iterated over (RuntimeError); this code runs inside "
                     f"a linear solver's constructor / solve, so the failure is not a LinearSolverError", f.loc(hit))
    if not n_mut:
        rep.ok("solver-helpers-cannot-crash", f"{len(seen)} functions reachable from the linear solvers", "no container is changed while iterated over")
    base = prog.cls(LS)
    subs = [c for c in prog.all_subclasses(base, include_self=False)]
    rep.pin("linear solver classes", len(subs), 7)
    x = ExcFlow(prog)
    for c in subs:
        sv = c.methods.get("solve")
        if sv is None:
            rep.fail("solver-interface", c.qualname, "solve", f"VIOLATED: {c.name} has no solve()", f"{c.module.relpath}:{c.node.lineno}")
            continue
        ps = [p for p in sv.params if p != "self"]
        rep.check(ps[:3] == ["rhs", "trans", "initial_sol"], "solver-interface", sv.qualname, "solve(rhs, trans, initial_sol)",
                  f"{c.name}.solve accepts (rhs, trans, initial_sol) like the base class (found {ps})", sv.loc())
        status_before_return(prog, rep, c, sv)
        if c.name not in INSTALLED:
            rep.note(f"{c.name}: backend not installed in this image; exception mapping / parameter discipline listed without obligation")
    lu(prog, rep, x)
    iterative(prog, rep)
    no_rhs_mutation(prog, rep)
    stateless_solve(prog, rep)


def status_before_return(prog: Program, rep, c: ClassInfo, sv: FuncInfo) -> None:
    ff = facts_for(sv)
    for r in returns_of(sv):
        if r.value is None:
            rep.fail("status-checked-before-return", sv.qualname, short(r), "VIOLATED: solve() returns None", sv.loc(r))
            continue
        v = ff.resolved(r, r.value)
        si = ff.at(r)
        facts = list(si.facts) + _helper_facts(prog, sv, ff, si.index)
        t = U(v)
        # a solution unpacked from a (solution, status) pair
        if t.startswith("__item__(") and t.endswith(", 0)"):
            pair = t[len("__item__("):-len(", 0)")]
            status = f"__item__({pair}, 1)"
            ok = any(f[0] == "==" and ((f[1] == status and f[2] in ("0",)) or (f[1] == f"{status}.status" and "successful" in (f[2] or "")) or
                                       (f[2] == f"{status}.status" and "successful" in f[1])) for f in facts)
            rep.check(ok, "status-checked-before-return", sv.qualname, short(r),
                      f"the backend's solution is returned only where its status signals success (status expression {status[:60]})", sv.loc(r))
        else:
            rep.ok("status-checked-before-return", sv.short, f"`{short(r, 60)}`: no status is produced by this backend call (failure is signalled by exception or at factorisation)", nontrivial=False)


_MODULE_CONSTS: Dict[str, object] = {}


def _bool_eval(e: ast.AST, env: Dict[str, bool]):
    if isinstance(e, ast.Constant):
        return e.value
    if isinstance(e, ast.Name) or isinstance(e, ast.Attribute):
        t = U(e)
        if t in env:
            return env[t]
        if t in _MODULE_CONSTS:
            return _MODULE_CONSTS[t]
        raise KeyError(t)
    if isinstance(e, ast.UnaryOp) and isinstance(e.op, ast.Not):
        return not _bool_eval(e.operand, env)
    if isinstance(e, ast.BoolOp):
        vals = [_bool_eval(v, env) for v in e.values]
        if isinstance(e.op, ast.And):
            r = True
            for v in vals:
                r = r and v
            return r
        r = False
        for v in vals:
            r = r or v
        return r
    if isinstance(e, ast.IfExp):
        return _bool_eval(e.body, env) if _bool_eval(e.test, env) else _bool_eval(e.orelse, env)
    if isinstance(e, ast.Compare) and len(e.ops) == 1:
        a, b = _bool_eval(e.left, env), _bool_eval(e.comparators[0], env)
        op = e.ops[0]
        if isinstance(op, (ast.Eq, ast.Is)):
            return a == b
        if isinstance(op, (ast.NotEq, ast.IsNot)):
            return a != b
    if isinstance(e, ast.BinOp) and isinstance(e.op, ast.BitXor):
        return bool(_bool_eval(e.left, env)) != bool(_bool_eval(e.right, env))
    if isinstance(e, ast.Call) and dotted(e.func) == "bool" and len(e.args) == 1:
        return bool(_bool_eval(e.args[0], env))
    if isinstance(e, ast.Subscript) and isinstance(e.value, ast.Name) and isinstance(_MODULE_CONSTS.get(e.value.id), dict):
        # a module-level literal table indexed by the flag: {False: "N", True: "T"}[bool(trans)]
        return _MODULE_CONSTS[e.value.id][_bool_eval(e.slice, env)]
    if isinstance(e, ast.Subscript) and isinstance(e.value, (ast.Dict, ast.Tuple, ast.List)):
        k = _bool_eval(e.slice, env)
        if isinstance(e.value, ast.Dict):
            for kk, vv in zip(e.value.keys, e.value.values):
                if _bool_eval(kk, env) == k:
                    return _bool_eval(vv, env)
            raise KeyError(U(e))
        return _bool_eval(e.value.elts[int(k)], env)
    raise KeyError(U(e))


def _meth(prog: Program, c, name: str) -> FuncInfo:
    """the method as class c runs it - its own or an inherited one (a constructor / solve skeleton pulled up into a shared base)"""
    m = prog.lookup_method(c, name)
    if m is None:
        raise AnalysisError(f"{c.name}.{name} has vanished")
    return m


def lu(prog: Program, rep, x: ExcFlow) -> None:
    c = prog.cls("pygradflow.linear_solver.lu_solver.LUSolver")
    init = _meth(prog, c, "__init__")
    fi = facts_for(init)
    mp = [p for p in init.params if p != "self"][0]
    calls = [n for n in own_nodes(init.node) if isinstance(n, ast.Call) and (dotted(n.func) or "").endswith("splu")]
    if len(calls) != 1:
        raise AnalysisError("LUSolver.__init__: splu not called exactly once")
    si = fi.stmt_of(calls[0])
    # exception mapping
    mapped = False
    for t in si.tries:
        for h in t.handlers:
            hcs = x.handler_classes(init, h)
            if any(x.is_subclass("RuntimeError", hc) for hc in hcs):
                last = h.body[-1] if h.body else None
                if isinstance(last, ast.Raise) and last.exc is not None and x.exc_class_name(init, last.exc) == LSE:
                    mapped = True
    rep.check(mapped, "backend-exception-mapped", init.qualname, short(si.stmt),
              "splu (which raises RuntimeError on an exactly singular matrix) is inside a handler that raises LinearSolverError", init.loc(calls[0]))
    allowed_kw = {"permc_spec"}
    extra = [k.arg for k in calls[0].keywords if k.arg not in allowed_kw and not (k.arg == "diag_pivot_thresh" and const_value(k.value) == 1.0)]
    rep.check(not extra, "lu-partial-pivoting", init.qualname, short(si.stmt),
              f"splu is called with its default (partial) pivoting - the property that gives a backward error at rounding level for a well conditioned matrix "
              f"(pivoting-relevant options passed: {extra})", init.loc(calls[0]))
    # which matrix is factorised, and which flag does solve() hand to SuperLU
    arg = fi.resolved(si.stmt, calls[0].args[0])
    alts = [U(a) for a in phi_alternatives(arg)]
    flag_attr = None
    if alts == [mp]:
        t_known = False
    else:
        # conditional transposition recorded in an attribute: find `self.<flag> = <cond>` and F = mat.T if flag else mat
        t_known = None
        for s in fi.order:
            st = s.stmt
            if isinstance(st, ast.Assign) and is_self_attr(st.targets[0]) and st.targets[0].attr not in ("mat", "solver", "symmetric"):
                flag_attr = st.targets[0].attr
        fl = [s for s in fi.order if isinstance(s.stmt, ast.Assign) and is_self_attr(s.stmt.targets[0], flag_attr)] if flag_attr else []
        flag_val = fi.resolved(fl[0].stmt, fl[0].stmt.value) if fl else None

        def kind_of(a: ast.AST) -> Optional[str]:
            """'same' (the given matrix, possibly converted to another storage format) / 'transposed' / None."""
            t = U(a)
            if t == mp:
                return "same"
            if t in (f"{mp}.T", f"{mp}.transpose()"):
                return "transposed"
            if isinstance(a, ast.Call) and isinstance(a.func, ast.Attribute) and a.func.attr in ("tocsc", "tocsr", "tocoo", "copy", "asformat") and kind_of(a.func.value):
                return kind_of(a.func.value)
            if isinstance(a, ast.Call) and (dotted(a.func) or "").split(".")[-1] in ("csc_matrix", "csr_matrix", "csc_array") and len(a.args) == 1 and kind_of(a.args[0]):
                return kind_of(a.args[0])
            return None
        alt_nodes = phi_alternatives(arg)
        if flag_attr is None or flag_val is None or any(kind_of(a) is None for a in alt_nodes):
            raise AnalysisError(f"LUSolver factorises `{alts}`; cannot relate it to the given matrix")
        cond = U(flag_val)
        raw0 = calls[0].args[0]
        per_branch = None
        if len(fl) >= 2 and isinstance(raw0, ast.Name) and all(isinstance(s.stmt.value, ast.Constant) and isinstance(s.stmt.value.value, bool) for s in fl):
            # matrix and flag chosen together, branch by branch: `if ..: F = mat.T; self.flag = True  elif ..: F = mat.tocsc(); self.flag = False`
            mstores = [s for s in fi.order if isinstance(s.stmt, ast.Assign) and len(s.stmt.targets) == 1 and isinstance(s.stmt.targets[0], ast.Name) and s.stmt.targets[0].id == raw0.id]
            pairs = []
            for sf in fl:
                same = [sm for sm in mstores if sm.facts == sf.facts and sm.loops == sf.loops]
                if len(same) == 1:
                    pairs.append((sf, same[0]))
            if len(pairs) == len(fl) == len(mstores) and si.facts == [f for f in si.facts if all(f in p_[0].facts for p_ in pairs)]:
                per_branch = pairs
        if per_branch is not None:
            for sf, sm in per_branch:
                k_ = kind_of(fi.resolved(sm.stmt, sm.stmt.value))
                rep.check(k_ is not None and sf.stmt.value.value == (k_ == "transposed"), "transposed-factor-flag", init.qualname, short(sf.stmt),
                          f"the stored flag says 'factors belong to the transpose' exactly when the transpose was factorised (branch factorising `{U(sm.stmt.value)}`: "
                          f"flag {sf.stmt.value.value})", init.loc(sf.stmt))
        elif isinstance(arg, ast.IfExp) and U(arg.test) == cond and U(arg.body) == f"{mp}.T" and U(arg.orelse) == mp:
            pass   # F = mat.T if <flag> else mat, flag stored as that very condition
        elif U(arg) in cond:
            # the flag is computed FROM the factorised object (identity test): evaluate it for every alternative
            for a in alt_nodes:
                txt = cond.replace(U(arg), "__F__")
                try:
                    e = ast.parse(txt, mode="eval").body
                except SyntaxError:
                    raise AnalysisError("LUSolver: cannot evaluate the stored transposition flag")

                def ident(e_):
                    if isinstance(e_, ast.UnaryOp) and isinstance(e_.op, ast.Not):
                        return not ident(e_.operand)
                    if isinstance(e_, ast.Compare) and len(e_.ops) == 1 and isinstance(e_.ops[0], (ast.Is, ast.IsNot)) and {U(e_.left), U(e_.comparators[0])} == {"__F__", mp}:
                        same_obj = U(a) == mp      # anything but the parameter itself is (possibly) another object
                        return same_obj if isinstance(e_.ops[0], ast.Is) else not same_obj
                    raise AnalysisError(f"LUSolver: transposition flag `{cond[:80]}` is not an identity test on the factorised matrix")
                flag_here = ident(e)
                rep.check(flag_here == (kind_of(a) == "transposed"), "transposed-factor-flag", init.qualname, short(fl[0].stmt),
                          f"the stored flag says 'factors belong to the transpose' exactly when the transpose was factorised (alternative `{U(a)}`: flag {flag_here}, "
                          f"factorised matrix is the {'transpose' if kind_of(a) == 'transposed' else 'matrix itself'})", init.loc(fl[0].stmt))
        else:
            raise AnalysisError("LUSolver: cannot relate the stored flag to the transposition of the factorised matrix")
    sv = _meth(prog, c, "solve")
    fs = facts_for(sv)
    # literal module-level constants of the solver's module (e.g. _TRANS_FLAG = "T") may be used in the flag expression
    _MODULE_CONSTS.clear()
    for n_ in c.module.tree.body:
        if isinstance(n_, ast.Assign) and len(n_.targets) == 1 and isinstance(n_.targets[0], ast.Name) and isinstance(n_.value, ast.Constant):
            _MODULE_CONSTS[n_.targets[0].id] = n_.value.value
        elif isinstance(n_, ast.AnnAssign) and isinstance(n_.target, ast.Name) and isinstance(n_.value, ast.Constant):
            _MODULE_CONSTS[n_.target.id] = n_.value.value
        v_ = getattr(n_, "value", None)
        t_ = (n_.targets[0] if isinstance(n_, ast.Assign) and len(n_.targets) == 1 else getattr(n_, "target", None)) if v_ is not None else None
        if isinstance(t_, ast.Name) and isinstance(v_, ast.Dict) and all(isinstance(k_, ast.Constant) for k_ in v_.keys) and all(isinstance(x_, ast.Constant) for x_ in v_.values):
            _MODULE_CONSTS[t_.id] = {k_.value: x_.value for k_, x_ in zip(v_.keys, v_.values)}
    rs = returns_of(sv)
    if not rs:
        raise AnalysisError("LUSolver.solve: no return")
    calls_ok = True
    for r in rs:
        for v in phi_alternatives(fs.resolved(r, r.value)):
            ok_call = isinstance(v, ast.Call) and U(v.func) == "self.solver.solve" and v.args and U(v.args[0]) == "rhs" and kwarg(v, "trans") is not None
            calls_ok = calls_ok and bool(ok_call)
            rep.check(ok_call, "lu-solve-wiring", sv.qualname, short(r), "LUSolver.solve back-solves the given right-hand side with the stored factorisation", sv.loc(r))
    good = calls_ok
    table = []
    if calls_ok:
        from .common import UnknownAtom, fact_holds
        for trans, t in itertools.product((False, True), (False, True) if flag_attr else (False,)):
            env = {"trans": trans}
            if flag_attr:
                env[f"self.{flag_attr}"] = t

            def val(at, env=env):
                op, l, r_ = at
                if op in ("truthy", "falsy") and r_ is None:
                    try:
                        b = bool(_bool_eval(ast.parse(l, mode="eval").body, env))
                    except (KeyError, SyntaxError) as ex:
                        raise UnknownAtom(str(ex))
                    return b if op == "truthy" else not b
                try:
                    pyop = {"==": "==", "!=": "!=", "is": "is", "isnot": "is not"}.get(op)
                    if pyop is None:
                        raise UnknownAtom(str(at))
                    e_ = ast.parse(f"({l}) {pyop} ({r_})", mode="eval").body
                    return bool(_bool_eval(e_, env))
                except (KeyError, SyntaxError) as ex:
                    raise UnknownAtom(str(ex))
            try:
                taken = [r for r in rs if all(fact_holds(f, val) for f in fs.at(r).facts)]
                if len(taken) != 1:
                    raise AnalysisError(f"LUSolver.solve: {len(taken)} returns reachable for trans={trans}")
                v = fs.resolved(taken[0], taken[0].value)
                s_ = _bool_eval(kwarg(v, "trans") if isinstance(v, ast.Call) else v, env) if not isinstance(v, ast.IfExp) else \
                    _bool_eval(ast.IfExp(test=v.test, body=kwarg(v.body, "trans"), orelse=kwarg(v.orelse, "trans")), env)
            except (KeyError, UnknownAtom) as ex:
                raise AnalysisError(f"LUSolver.solve: cannot evaluate the SuperLU flag expression ({ex})")
            want = "T" if (trans != t) else "N"
            table.append((trans, t, s_, want))
            good = good and s_ == want
    rep.check(good, "transposed-solve-honoured", sv.qualname, short(rs[0]),
              f"for every (trans, factorised-transposed) combination SuperLU is asked for A' exactly when the caller wants the transposed system "
              f"(table trans, transposed-factor, flag, required: {table})", sv.loc(rs[0]))


def iterative(prog: Program, rep) -> None:
    for cname, backend in ITERATIVE.items():
        q = f"pygradflow.linear_solver.{'gmres' if backend == 'gmres' else 'minres'}_solver.{cname}"
        c = prog.cls(q)
        sv = _meth(prog, c, "solve")
        ff = facts_for(sv)
        calls = [n for n in own_nodes(sv.node) if isinstance(n, ast.Call) and (dotted(n.func) or "").endswith("." + backend)]
        if len(calls) != 1:
            raise AnalysisError(f"{cname}.solve: {backend} not called exactly once")
        call = calls[0]
        si = ff.stmt_of(call)
        a = [ff.resolved(si.stmt, z) for z in call.args]
        mat_t = U(a[0]) if a else ""
        rhs_ok = len(a) >= 2 and U(a[1]) == "rhs"
        rep.check(rhs_ok, "iterative-wiring", sv.qualname, short(si.stmt), f"{backend} solves for the given right-hand side", sv.loc(call))
        # options of the back end: only the ones whose meaning the rules know; `callback_type="legacy"` makes gmres count INNER
        # iterations against maxiter (n restart cycles become n inner steps), so solvable systems larger than the restart length fail
        known_kw = {"x0", "tol", "rtol", "atol", "maxiter", "restart", "M", "callback", "callback_type", "shift", "show", "check"}
        unknown_kw = [k.arg for k in call.keywords if k.arg not in known_kw]
        if unknown_kw:
            raise AnalysisError(f"{cname}.solve passes option(s) {unknown_kw} to {backend}, whose effect on the result the rules do not know")
        ct = kwarg(call, "callback_type")
        if ct is not None:
            ctv = ff.resolved(si.stmt, ct)
            rep.check(isinstance(ctv, ast.Constant) and ctv.value in ("pr_norm", "x", None), "iterative-wiring", sv.qualname, short(si.stmt),
                      f"{backend} is not run with callback_type='legacy' (which changes what maxiter counts: inner iterations instead of restart cycles)", sv.loc(call))
        if cname == "GMRESSolver":
            alts = {U(z) for z in phi_alternatives(a[0])}
            ok = alts == {"self.mat.T", "self.mat"}
            # and the choice is made by `trans`
            sel = [s for s in ff.order if isinstance(s.stmt, ast.Assign) and isinstance(s.stmt.value, ast.IfExp) and U(s.stmt.value.test) == "trans"
                   and U(s.stmt.value.body) == "self.mat.T" and U(s.stmt.value.orelse) == "self.mat"]
            raw = call.args[0]
            ok2 = bool(sel) and isinstance(raw, ast.Name) and any(isinstance(t, ast.Name) and t.id == raw.id for s in sel for t in s.stmt.targets)
            if not ok2 and isinstance(a[0], ast.IfExp):
                # through copies / a helper record: the argument still resolves to the very selection `self.mat.T if trans else self.mat`
                ok2 = U(a[0].test) == "trans" and U(a[0].body) == "self.mat.T" and U(a[0].orelse) == "self.mat"
            if not ok2:
                # if/else form
                ok2 = ok and any(("truthy", "trans", None) in s.facts for s in ff.order if isinstance(s.stmt, ast.Assign) and U(s.stmt.value) == "self.mat.T")
            rep.check(ok and ok2, "transposed-solve-honoured", sv.qualname, short(si.stmt),
                      f"GMRES solves with self.mat.T exactly when trans is set (matrix argument resolves to {sorted(alts)})", sv.loc(call))
        else:
            init = _meth(prog, c, "__init__")
            from .common import ctor_param_attrs
            sym_names = {"symmetric"} | {a_ for p_, a_ in ctor_param_attrs(prog, init).items() if p_ == "symmetric"}
            asserts = [n for n in own_nodes(init.node) if isinstance(n, ast.Assert) and U(n.test) in sym_names]
            rep.check(bool(asserts) and mat_t == "self.mat", "transposed-solve-honoured", sv.qualname, "assert symmetric",
                      "MINRES asserts a symmetric matrix at construction, so the transposed system is the same system", init.loc())
        # initial guess: thunk called, result passed as x0
        x0 = kwarg(call, "x0")
        x0r = ff.resolved(si.stmt, x0) if x0 is not None else None
        alts = {U(z) for z in phi_alternatives(x0r)} if x0r is not None else set()
        ok = alts == {"initial_sol()", "initial_sol"} or alts == {"initial_sol()", "None"}
        guard = [s for s in ff.order if isinstance(s.stmt, ast.Assign) and U(s.stmt.value) == "initial_sol()" and ("isnot", "initial_sol", "None") in s.facts]
        if not guard:
            from ..symex import atoms_of as _atoms
            for z in ([x0r] if x0r is not None else []) + [s.stmt.value for s in ff.order if isinstance(s.stmt, ast.Assign)]:
                if isinstance(z, ast.IfExp) and U(z.body) == "initial_sol()" and _atoms(z.test, True) == [("isnot", "initial_sol", "None")] \
                        and isinstance(z.orelse, ast.Constant) and z.orelse.value is None:
                    guard = [z]
                if isinstance(z, ast.IfExp) and U(z.orelse) == "initial_sol()" and _atoms(z.test, False) == [("isnot", "initial_sol", "None")] \
                        and isinstance(z.body, ast.Constant) and z.body.value is None:
                    guard = [z]
        rep.check(ok and bool(guard), "initial-guess-honoured", sv.qualname, short(si.stmt), "a given initial guess (a thunk) is called and its value passed to the backend as x0", sv.loc(call))
        if cname == "GMRESSolver":
            early = [r for r in returns_of(sv) if "initial_sol" in U(r.value)]
            atol_kw = kwarg(call, "atol")
            atol_t = U(ff.resolved(si.stmt, atol_kw)) if atol_kw is not None else None
            for r in early:
                fr = ff.at(r).facts
                raw_mat = call.args[0]
                # the residual test must use the same matrix variable (same reaching definition) and the same tolerance
                mt = U(ff.resolved(r, raw_mat))
                xt = U(ff.resolved(r, r.value))
                ok = False
                for f in fr:
                    if f[0] not in ("<", "<=") or f[2] != atol_t:
                        continue
                    try:
                        le = ast.parse(f[1], mode="eval").body
                    except SyntaxError:
                        continue
                    if np_call(le, "norm") and le.args and isinstance(le.args[0], ast.BinOp) and isinstance(le.args[0].op, ast.Sub):
                        d_ = le.args[0]
                        o = kwarg(le, "ord") or (le.args[1] if len(le.args) > 1 else None)
                        if U(d_.left) == "rhs" and isinstance(d_.right, ast.BinOp) and isinstance(d_.right.op, ast.MatMult) and U(d_.right.left) == mt \
                                and U(d_.right.right) == xt and o is not None and U(o) in ("np.inf", "numpy.inf"):
                            ok = True
                rep.check(ok and mt == mat_t, "initial-guess-shortcut", sv.qualname, short(r),
                          f"the initial guess is returned directly only when ||rhs - A x0||_inf < atol for the matrix and tolerance that gmres would use", sv.loc(r))


def no_rhs_mutation(prog: Program, rep) -> None:
    from ..own import Ownership
    base = prog.cls(LS)
    extra = {}
    for c in prog.all_subclasses(base):
        sv = c.methods.get("solve")
        if sv is not None:
            extra[sv.qualname] = ("rhs",)
    ow = Ownership(prog, extra_protected_params=extra)
    n = 0
    for c in prog.all_subclasses(base):
        sv = c.methods.get("solve")
        if sv is None:
            continue
        for sk in ow.sinks(sv):
            n += 1
            toks = ow.sink_tokens(sk)
            mine = [t for t in toks if t.startswith("caller:") and t.endswith(".rhs")]
            rep.check(not mine, "solve-keeps-rhs", sv.qualname, short(sk.si.stmt), f"in-place {sk.kind} on `{U(sk.target)}` does not write into the caller's right-hand side", sv.loc(sk.node))
    rep.note(f"in-place operations inside solve() overrides examined: {n}")


def stateless_solve(prog: Program, rep) -> None:
    """solve() of the installed solvers keeps no state on the solver object: the answer for (rhs, trans, initial_sol) cannot depend on
    earlier solves (the condition estimator and the step solver share one solver object)."""
    base = prog.cls(LS)
    for c in prog.all_subclasses(base):
        if c.name not in INSTALLED:
            continue
        sv = c.methods.get("solve")
        if sv is None:
            continue
        stores = [n for n in own_nodes(sv.node) if isinstance(n, ast.Attribute) and isinstance(n.ctx, (ast.Store, ast.Del)) and is_self_attr(n)]
        rep.check(not stores, "solve-is-stateless", sv.qualname, U(stores[0]) if stores else "solve", f"{c.name}.solve stores nothing on the solver object", sv.loc(stores[0]) if stores else sv.loc())
