"""C18 - the penalty filter is a Pareto front (semantic extraction + induction).

`PenaltyFilter.filter_insert` touches entries only through comparisons, tuple
packing and list construction, so its meaning is a finite boolean formula that
is extracted from the syntax tree and compared with the statement.
"""
from __future__ import annotations

import ast
from typing import Dict, List, Optional, Tuple

from ..model import AnalysisError, FuncInfo, Program, dotted, own_nodes, unparse
from ..symex import atoms_of, facts_for, phi_alternatives, resolve
from .common import result_sites, U, arg_of, bind_args, const_value, is_self_attr, returns_of, short

PF = "pygradflow.penalty.PenaltyFilter"

EXPLANATION = (
    "filter_insert is decided by semantic extraction: (0) entries are used only in comparisons/packing; "
    "(1) the dominance predicate normalises to a[0]<=b[0] and a[1]<=b[1]; (2) False is returned exactly when some "
    "stored entry dominates the new one, before any store; (3) on the accepting path the stored list becomes "
    "{e in old : not dominates(new,e)} plus new appended once and True is returned; (4) induction (written "
    "argument): pairwise non-domination is preserved because a kept e dominating new is excluded by (2), new "
    "dominating a kept e by (3), ties are dominations in both directions and refused by (2); base case entries=[] "
    "in __init__; (5) update(): accepted => no store to rho, accept_with_penalty(self.rho); refused => rho*=10 and "
    "reject_with_penalty; the entry inserted is iterate_entry(next_iterate); (6) the solver honours the veto."
)


def _dominance_lambda(fi: FuncInfo, name: str, prog: Optional[Program] = None, call: Optional[ast.Call] = None) -> Optional[Tuple[List[str], ast.AST]]:
    """(params, resolved return expr) of the predicate `name`: nested def, local lambda, module-level function, or method."""
    nested = fi.nested.get(name)
    if nested is not None:
        b = _pred_body(nested)
        return (nested.params, b) if b is not None else None
    for n in own_nodes(fi.node):
        if isinstance(n, ast.Assign) and len(n.targets) == 1 and isinstance(n.targets[0], ast.Name) \
                and n.targets[0].id == name and isinstance(n.value, ast.Lambda):
            return [a.arg for a in n.value.args.args], n.value.body
    # a local alias of a method: `dominates = self._dominates`
    for n in own_nodes(fi.node):
        if isinstance(n, ast.Assign) and len(n.targets) == 1 and isinstance(n.targets[0], ast.Name) and n.targets[0].id == name \
                and isinstance(n.value, ast.Attribute) and isinstance(n.value.value, ast.Name) and n.value.value.id in ("self", "cls") and prog is not None and fi.cls is not None:
            m = prog.lookup_method(fi.cls, n.value.attr)
            if m is not None:
                b = _pred_body(m)
                ps = [p for p in m.params if p not in ("self", "cls")]
                return (ps, b) if b is not None else None
    if prog is not None and call is not None:
        tg = [t for t in prog.resolve_call_target(fi, call) if isinstance(t, FuncInfo)]
        if len(tg) == 1 and tg[0].module.name == fi.module.name:
            t = tg[0]
            b = _pred_body(t)
            ps = [p for p in t.params if p not in ("self", "cls")]
            return (ps, b) if b is not None else None
    return None


def _pred_body(f: FuncInfo) -> Optional[ast.AST]:
    """boolean expression computed by a predicate whose body is `[if <c>: return False]* ; return <e>` (docstring allowed)."""
    body = [b for b in f.node.body if not (isinstance(b, ast.Expr) and isinstance(b.value, ast.Constant))]

    def as_bool(block):
        # `return e` / `if c: return a  else: return b` (every path its own return) as one boolean expression
        blk = [b for b in block if not (isinstance(b, ast.Expr) and isinstance(b.value, ast.Constant))]
        if len(blk) == 1 and isinstance(blk[0], ast.Return) and blk[0].value is not None:
            return blk[0].value
        if len(blk) == 1 and isinstance(blk[0], ast.If) and blk[0].orelse:
            a, b = as_bool(blk[0].body), as_bool(blk[0].orelse)
            if a is None or b is None:
                return None
            t = blk[0].test
            nt = t.operand if isinstance(t, ast.UnaryOp) and isinstance(t.op, ast.Not) else ast.UnaryOp(op=ast.Not(), operand=t)
            if isinstance(a, ast.Constant) and a.value is False:
                return ast.BoolOp(op=ast.And(), values=[nt, b])
            if isinstance(b, ast.Constant) and b.value is False:
                return ast.BoolOp(op=ast.And(), values=[t, a])
            if isinstance(a, ast.Constant) and a.value is True:
                return ast.BoolOp(op=ast.Or(), values=[t, b])
            if isinstance(b, ast.Constant) and b.value is True:
                return ast.BoolOp(op=ast.Or(), values=[nt, a])
            return None
        return None
    if len(body) == 1 and isinstance(body[0], ast.If) and body[0].orelse:
        return as_bool(body)
    if not body or not isinstance(body[-1], ast.Return) or body[-1].value is None:
        return None
    conj = []
    for b in body[:-1]:
        if isinstance(b, ast.If) and not b.orelse and len(b.body) == 1 and isinstance(b.body[0], ast.Return) and isinstance(b.body[0].value, ast.Constant) \
                and b.body[0].value.value is False:
            conj.append(ast.UnaryOp(op=ast.Not(), operand=b.test))
        else:
            return None
    conj.append(body[-1].value)
    return conj[0] if len(conj) == 1 else ast.BoolOp(op=ast.And(), values=conj)


def _callee_name(n: ast.Call) -> Optional[str]:
    if isinstance(n.func, ast.Name):
        return n.func.id
    if isinstance(n.func, ast.Attribute) and isinstance(n.func.value, ast.Name) and n.func.value.id in ("self", "cls", "PenaltyFilter"):
        return n.func.attr
    return None


def _dominance_formula(params: List[str], body: ast.AST) -> Optional[set]:
    """normalise to a set of atoms over (param-index, coordinate)."""
    if len(params) != 2:
        return None
    out = set()
    for op, l, r in atoms_of(body, True):
        if r is None:
            return None

        def coord(s):
            e = ast.parse(s, mode="eval").body
            if isinstance(e, ast.Subscript) and isinstance(e.value, ast.Name) and e.value.id in params:
                k = const_value(e.slice)
                if k in (0, 1):
                    return (params.index(e.value.id), k)
            return None

        a, b = coord(l), coord(r)
        if a is None or b is None:
            return None
        out.add((op, a, b))
    return out


WANT_DOM = {("<=", (0, 0), (1, 0)), ("<=", (0, 1), (1, 1))}


def _nolog(body):
    """statements of a block without logging calls (they neither read nor change the filter)."""
    return [b for b in body if not (isinstance(b, ast.Expr) and isinstance(b.value, ast.Call) and (dotted(b.value.func) or "").startswith("logger."))]


class _Pred:
    """a use of the dominance predicate: (first-arg-role, second-arg-role) with roles
    'new' / 'elem' ; positive or negated."""

    def __init__(self, first, second, positive):
        self.first, self.second, self.positive = first, second, positive

    def __repr__(self):
        return f"{'' if self.positive else 'not '}dominates({self.first},{self.second})"


def run(prog: Program, rep, tier: str) -> None:
    rep.explanation = EXPLANATION
    cls = prog.cls(PF)
    fi = prog.func(PF + ".filter_insert")
    ff = facts_for(fi)
    where = fi.short
    params = [p for p in fi.params if p != "self"]
    if len(params) != 2:
        raise AnalysisError("filter_insert no longer takes (first, second)")

    # --- the new entry -------------------------------------------------------
    # find the local that packs the two parameters
    entry_names = set()
    for si in ff.order:
        st = si.stmt
        if isinstance(st, ast.Assign) and isinstance(st.value, ast.Tuple) and [U(e) for e in st.value.elts] == params:
            for t in st.targets:
                if isinstance(t, ast.Name):
                    entry_names.add(t.id)
    new_text = f"({params[0]}, {params[1]})"

    def role(e: ast.AST, elem_names) -> Optional[str]:
        r = U(e)
        if r == new_text or (isinstance(e, ast.Name) and e.id in entry_names):
            return "new"
        if isinstance(e, ast.Name) and e.id in elem_names:
            return "elem"
        return None

    # --- rule 0: entries only compared / packed -----------------------------------
    bad_arith = []
    for n in own_nodes(fi.node):
        if isinstance(n, (ast.BinOp, ast.AugAssign)) and not isinstance(getattr(n, "op", None), (ast.And, ast.Or)):
            bad_arith.append(n)
    for nested in fi.nested.values():
        for n in own_nodes(nested.node):
            if isinstance(n, (ast.BinOp, ast.AugAssign)):
                bad_arith.append(n)
    rep.check(not bad_arith, "filter-0-comparisons-only", fi.qualname, U(bad_arith[0]) if bad_arith else "",
              "filter_insert performs no arithmetic on filter entries (only comparisons, packing, list building)",
              fi.loc(bad_arith[0]) if bad_arith else fi.loc())
    conv = []
    for f_ in [fi] + list(fi.nested.values()) + [prog.func(PF + ".__init__")]:
        for n in own_nodes(f_.node):
            if isinstance(n, ast.Call):
                d = dotted(n.func) or ""
                if d.endswith(".astype") or any(k.arg == "dtype" for k in n.keywords) or d in ("float", "np.float32", "np.float64", "round", "np.round"):
                    conv.append((f_, n))
    rep.check(not conv, "filter-0-comparisons-only", conv[0][0].qualname if conv else fi.qualname, U(conv[0][1])[:80] if conv else "",
              "filter entries are stored and compared as given (no dtype conversion / rounding, which would make distinct pairs compare equal)",
              conv[0][0].loc(conv[0][1]) if conv else fi.loc())

    # --- rule 1: dominance predicate ------------------------------------------
    pred_names = []
    pred_defs = {}
    for n in own_nodes(fi.node):
        if isinstance(n, ast.Call) and len(n.args) == 2 and _callee_name(n) and _callee_name(n) not in ("append", "remove"):
            d = _dominance_lambda(fi, _callee_name(n), prog, n)
            if d and _callee_name(n) not in pred_names:
                pred_names.append(_callee_name(n))
                pred_defs[_callee_name(n)] = d
    if len(pred_names) > 1:
        raise AnalysisError(f"filter algorithm not in a recognised form: expected one dominance predicate, found {pred_names}")
    pname = pred_names[0] if pred_names else None
    inline_uses: List[Tuple[ast.AST, Optional[set]]] = []
    if pname is not None:
        dparams, dbody = pred_defs[pname]
        formula = _dominance_formula(dparams, dbody)
        if formula is None:
            rep.fail("filter-1-dominance", fi.qualname, U(dbody),
                     f"dominance predicate `{U(dbody)}` is not a conjunction of coordinate comparisons a[k] <= b[k]", fi.loc())
        else:
            rep.check(formula == WANT_DOM, "filter-1-dominance", fi.qualname, U(dbody),
                      f"dominates(a,b) normalises to a[0]<=b[0] and a[1]<=b[1] (found: {sorted(formula)})", fi.loc())

    def inline_pred(e: ast.AST, elem_names, positive) -> Optional[_Pred]:
        """dominance written in place: `a[0] <= b[0] and a[1] <= b[1]` over the new entry and the loop element."""
        def coord(txt):
            x = ast.parse(txt, mode="eval").body
            if isinstance(x, ast.Name) and x.id in params:
                return ("new", params.index(x.id))
            if isinstance(x, ast.Subscript) and isinstance(x.value, ast.Name) and const_value(x.slice) in (0, 1):
                r_ = role(x.value, elem_names)
                if r_:
                    return (r_, const_value(x.slice))
            return None
        from .common import unitem
        e = unitem(e)          # `(a0, a1) = a` unpacking shows up as __item__(a, k): the same as a[k]
        atoms = atoms_of(e, True)
        form = set()
        for op, l, r in atoms:
            if r is None:
                return None
            a, b = coord(l), coord(r)
            if a is None or b is None:
                return None
            form.add((op, a, b))
        for X, Y in (("new", "elem"), ("elem", "new")):
            if form == {("<=", (X, 0), (Y, 0)), ("<=", (X, 1), (Y, 1))}:
                inline_uses.append((e, form))
                return _Pred(X, Y, positive)
        inline_uses.append((e, None))
        rep.fail("filter-1-dominance", fi.qualname, U(e), f"VIOLATED: the in-place comparison `{U(e)}` of the new entry with a stored one is not the dominance "
                 f"a[0]<=b[0] and a[1]<=b[1] (found: {sorted(form)})", fi.loc(e))
        return None

    def pred_use(e: ast.AST, elem_names, positive=True) -> Optional[_Pred]:
        if isinstance(e, ast.UnaryOp) and isinstance(e.op, ast.Not):
            return pred_use(e.operand, elem_names, not positive)
        if pname is not None and isinstance(e, ast.Call) and _callee_name(e) == pname and len(e.args) == 2:
            a, b = role(e.args[0], elem_names), role(e.args[1], elem_names)
            if a and b:
                return _Pred(a, b, positive)
        if pname is None and isinstance(e, (ast.BoolOp, ast.Compare, ast.IfExp)):
            return inline_pred(e, elem_names, positive)
        return None

    def iter_is_entries(e: ast.AST, allow_copy=True) -> Optional[str]:
        """'direct' if e is self.entries, 'copy' if list(self.entries)/self.entries[:]/copy."""
        if is_self_attr(e, "entries"):
            return "direct"
        if isinstance(e, ast.Call) and len(e.args) == 1 and is_self_attr(e.args[0], "entries") and (dotted(e.func) in ("list", "tuple", "copy.copy")):
            return "copy"
        if isinstance(e, ast.Subscript) and is_self_attr(e.value, "entries") and isinstance(e.slice, ast.Slice) \
                and e.slice.lower is None and e.slice.upper is None:
            return "copy"
        if isinstance(e, ast.Call) and isinstance(e.func, ast.Attribute) and e.func.attr == "copy" and is_self_attr(e.func.value, "entries"):
            return "copy"
        return None

    # --- rule 2: refusal --------------------------------------------------------
    body = fi.node.body
    stores = []  # (index in ff.order, stmt) of every store / mutation of self.entries
    for si in ff.order:
        st = si.stmt
        for n in ([st] if not isinstance(st, (ast.If, ast.For, ast.While, ast.Try, ast.With)) else []):
            for m in ast.walk(n):
                if isinstance(m, (ast.Assign, ast.AugAssign)):
                    tg = m.targets if isinstance(m, ast.Assign) else [m.target]
                    for t in tg:
                        base = t
                        while isinstance(base, ast.Subscript):
                            base = base.value
                        if is_self_attr(base, "entries"):
                            stores.append((si.index, st))
                if isinstance(m, ast.Call) and isinstance(m.func, ast.Attribute) and is_self_attr(m.func.value, "entries") \
                        and m.func.attr in ("append", "remove", "pop", "clear", "insert", "extend", "sort", "reverse"):
                    stores.append((si.index, st))
                if isinstance(m, ast.Delete):
                    for t in m.targets:
                        base = t
                        while isinstance(base, ast.Subscript):
                            base = base.value
                        if is_self_attr(base, "entries"):
                            stores.append((si.index, st))
    first_store = min([i for i, _ in stores], default=10 ** 9)

    refusal = None  # (index, description)
    for si in ff.order:
        st = si.stmt
        # form A: if any(dominates(e, new) for e in self.entries): return False
        #         or: if not any(..): <accepting path>  else: return False
        t_any, refusing, other = (st.test, st.body, st.orelse) if isinstance(st, ast.If) else (None, None, None)
        if isinstance(t_any, ast.UnaryOp) and isinstance(t_any.op, ast.Not):
            t_any, refusing, other = t_any.operand, st.orelse, st.body
        if isinstance(st, ast.If) and isinstance(t_any, ast.Call) and isinstance(t_any.func, ast.Name) and t_any.func.id == "any" \
                and len(t_any.args) == 1 and isinstance(t_any.args[0], (ast.GeneratorExp, ast.ListComp)):
            g = t_any.args[0]
            if len(g.generators) == 1 and not g.generators[0].ifs and iter_is_entries(g.generators[0].iter):
                elem = {n.id for n in ast.walk(g.generators[0].target) if isinstance(n, ast.Name)}
                pu = pred_use(g.elt, elem)
                ret_false = len(refusing) >= 1 and isinstance(refusing[-1], ast.Return) and isinstance(refusing[-1].value, ast.Constant) and refusing[-1].value.value is False
                if pu is not None and ret_false and len(_nolog(refusing)) == 1 and (not other or refusing is st.orelse):
                    refusal = (si.index, pu, st)
        # form B: for e in self.entries: if dominates(e, new): return False
        if isinstance(st, ast.For) and iter_is_entries(st.iter) and len(st.body) == 1 and isinstance(st.body[0], ast.If) and not st.orelse:
            inner = st.body[0]
            elem = {n.id for n in ast.walk(st.target) if isinstance(n, ast.Name)}
            pu = pred_use(inner.test, elem)
            ib = _nolog(inner.body)
            ret_false = len(ib) == 1 and isinstance(ib[0], ast.Return) and isinstance(ib[0].value, ast.Constant) and ib[0].value.value is False
            if pu is not None and ret_false and not inner.orelse:
                refusal = (si.index, pu, st)
        if refusal:
            break
    # every `return False` must belong to the refusal construct
    false_returns = [r for r in returns_of(fi) if isinstance(r.value, ast.Constant) and r.value.value is False]
    true_returns = [r for r in returns_of(fi) if isinstance(r.value, ast.Constant) and r.value.value is True]
    other_returns = [r for r in returns_of(fi) if r not in false_returns and r not in true_returns]
    if refusal is None:
        raise AnalysisError("filter algorithm not in a recognised form: no refusal test `any(dominates(e, new) for e in entries)` "
                            "/ `for e in entries: if dominates(e, new): return False` found in filter_insert")
    ridx, rpred, rstmt = refusal
    rep.check(rpred.positive and rpred.first == "elem" and rpred.second == "new", "filter-2-refusal", fi.qualname, short(rstmt),
              f"insertion is refused iff some stored entry dominates the new one (found: {rpred})", fi.loc(rstmt))
    inside = {id(n) for n in ast.walk(rstmt)}
    stray = [r for r in false_returns if id(r) not in inside]
    rep.check(not stray and not other_returns, "filter-2-refusal-only", fi.qualname, short(stray[0]) if stray else (short(other_returns[0]) if other_returns else ""),
              "False is returned only by the refusal test and every return is a literal True/False", fi.loc((stray or other_returns or [fi.node])[0]))
    rep.check(ridx < first_store, "filter-2-refusal-before-store", fi.qualname, short(rstmt),
              "the refusal test precedes every modification of the stored entries", fi.loc(rstmt))

    # --- rule 3: removal + single append + return True ------------------------------
    removal = None
    appends = []
    bad_iteration = None
    for si in ff.order:
        if si.index <= ridx:
            continue
        st = si.stmt
        # form A: self.entries = [e for e in self.entries if not dominates(new, e)]
        if isinstance(st, ast.Assign) and len(st.targets) == 1 and is_self_attr(st.targets[0], "entries") and isinstance(st.value, ast.ListComp):
            g = st.value
            if len(g.generators) == 1 and iter_is_entries(g.generators[0].iter) and len(g.generators[0].ifs) == 1 \
                    and isinstance(g.elt, ast.Name) and isinstance(g.generators[0].target, ast.Name) and g.elt.id == g.generators[0].target.id:
                pu = pred_use(g.generators[0].ifs[0], {g.elt.id})
                if pu is not None:
                    removal = (si.index, _Pred(pu.first, pu.second, not pu.positive), st)  # removed = not kept
        # form B: for e in list(self.entries): if dominates(new, e): self.entries.remove(e)
        if isinstance(st, ast.For) and iter_is_entries(st.iter):
            kind = iter_is_entries(st.iter)
            mutates = any(isinstance(m, ast.Call) and isinstance(m.func, ast.Attribute) and is_self_attr(m.func.value, "entries")
                          and m.func.attr in ("remove", "pop", "insert", "append", "clear") for m in ast.walk(st)) or \
                any(isinstance(m, ast.Delete) for m in ast.walk(st))
            if mutates and kind == "direct":
                bad_iteration = st
            if len(st.body) == 1 and isinstance(st.body[0], ast.If) and not st.body[0].orelse and len(st.body[0].body) == 1:
                elem = {n.id for n in ast.walk(st.target) if isinstance(n, ast.Name)}
                pu = pred_use(st.body[0].test, elem)
                act = st.body[0].body[0]
                if pu is not None and isinstance(act, ast.Expr) and isinstance(act.value, ast.Call) and isinstance(act.value.func, ast.Attribute) \
                        and act.value.func.attr == "remove" and is_self_attr(act.value.func.value, "entries") \
                        and len(act.value.args) == 1 and role(act.value.args[0], elem) == "elem":
                    removal = (si.index, pu, st)
        # form C: kept = []; for e in self.entries: if dominates(new, e): continue; kept.append(e) ... self.entries = kept
        if isinstance(st, ast.Assign) and len(st.targets) == 1 and is_self_attr(st.targets[0], "entries") and isinstance(st.value, ast.Name) and not si.loops:
            kept = st.value.id
            inits = [q for q in ff.order if (isinstance(q.stmt, ast.Assign) and len(q.stmt.targets) == 1 and U(q.stmt.targets[0]) == kept)
                     or (isinstance(q.stmt, ast.AnnAssign) and q.stmt.value is not None and U(q.stmt.target) == kept)]
            fills = [q for q in ff.order if isinstance(q.stmt, ast.For) and any(isinstance(m, ast.Call) and isinstance(m.func, ast.Attribute) and U(m.func.value) == kept for m in ast.walk(q.stmt))]
            others = [q for q in ff.order for m in ([q.stmt] if not isinstance(q.stmt, (ast.For, ast.If, ast.While)) else []) for k in ast.walk(m)
                      if isinstance(k, ast.Call) and isinstance(k.func, ast.Attribute) and U(k.func.value) == kept and not any(q.stmt in ast.walk(f.stmt) for f in fills)]
            kept_new = [q for q in others if isinstance(q.stmt, ast.Expr) and isinstance(q.stmt.value, ast.Call) and q.stmt.value.func.attr == "append" and len(q.stmt.value.args) == 1
                        and role(q.stmt.value.args[0], set()) == "new" and not q.loops and fills and fills[0].index < q.index < si.index]
            if len(kept_new) == 1 and len(others) == 1:
                others = []
                appends.append((kept_new[0], "new"))
            if len(inits) == 1 and isinstance(inits[0].stmt.value, ast.ListComp) and inits[0].index > ridx and not fills:
                # kept = [e for e in self.entries if not dominates(new, e)] ; (kept.append(new)) ; self.entries = kept
                g = inits[0].stmt.value
                if len(g.generators) == 1 and iter_is_entries(g.generators[0].iter) and len(g.generators[0].ifs) == 1 \
                        and isinstance(g.elt, ast.Name) and isinstance(g.generators[0].target, ast.Name) and g.elt.id == g.generators[0].target.id:
                    pu = pred_use(g.generators[0].ifs[0], {g.elt.id})
                    others = [q for q in ff.order for m in ([q.stmt] if not isinstance(q.stmt, (ast.For, ast.If, ast.While)) else []) for k in ast.walk(m)
                              if isinstance(k, ast.Call) and isinstance(k.func, ast.Attribute) and U(k.func.value) == kept]
                    kept_new = [q for q in others if isinstance(q.stmt, ast.Expr) and isinstance(q.stmt.value, ast.Call) and q.stmt.value.func.attr == "append" and len(q.stmt.value.args) == 1
                                and role(q.stmt.value.args[0], set()) == "new" and not q.loops and inits[0].index < q.index < si.index]
                    if pu is not None and len(others) == len(kept_new) <= 1:
                        removal = (inits[0].index, _Pred(pu.first, pu.second, not pu.positive), inits[0].stmt)
                        stores = [(i, x) for i, x in stores if x is not st]
                        for q in kept_new:
                            appends.append((q, "new"))
            if len(inits) == 1 and isinstance(inits[0].stmt.value, ast.List) and not inits[0].stmt.value.elts and inits[0].index > ridx and len(fills) == 1 \
                    and inits[0].index < fills[0].index < si.index and not others and iter_is_entries(fills[0].stmt.iter) and not fills[0].stmt.orelse:
                lp_ = fills[0].stmt
                elem = {n.id for n in ast.walk(lp_.target) if isinstance(n, ast.Name)}

                def is_keep(x):
                    return isinstance(x, ast.Expr) and isinstance(x.value, ast.Call) and isinstance(x.value.func, ast.Attribute) and x.value.func.attr == "append" \
                        and U(x.value.func.value) == kept and len(x.value.args) == 1 and role(x.value.args[0], elem) == "elem"
                b = lp_.body
                pu = None
                if len(b) == 2 and isinstance(b[0], ast.If) and not b[0].orelse and len(b[0].body) == 1 and isinstance(b[0].body[0], ast.Continue) and is_keep(b[1]):
                    pu = pred_use(b[0].test, elem)          # removed iff test
                elif len(b) == 1 and isinstance(b[0], ast.If) and not b[0].orelse and len(b[0].body) == 1 and is_keep(b[0].body[0]):
                    k = pred_use(b[0].test, elem)            # kept iff test
                    pu = _Pred(k.first, k.second, not k.positive) if k else None
                elif len(b) == 1 and isinstance(b[0], ast.If) and len(b[0].orelse) == 1 and is_keep(b[0].orelse[0]) and len(b[0].body) == 1 and isinstance(b[0].body[0], (ast.Continue, ast.Pass)):
                    pu = pred_use(b[0].test, elem)
                if pu is not None:
                    removal = (fills[0].index, pu, lp_)
                    stores = [(i, x) for i, x in stores if x is not st]
        if isinstance(st, ast.Expr) and isinstance(st.value, ast.Call) and isinstance(st.value.func, ast.Attribute) \
                and st.value.func.attr == "append" and is_self_attr(st.value.func.value, "entries") and len(st.value.args) == 1:
            appends.append((si, role(st.value.args[0], set())))
        # form A': self.entries = [...kept...] + [new]
    if bad_iteration is not None:
        rep.fail("filter-3-mutation-while-iterating", fi.qualname, short(bad_iteration),
                 "VIOLATED: stored entries are removed from the list while iterating over that same list (elements are skipped, "
                 "so dominated entries survive)", fi.loc(bad_iteration))
    if removal is None:
        if bad_iteration is None:
            raise AnalysisError("filter algorithm not in a recognised form: no removal of dominated entries found after the refusal test")
    else:
        midx, mpred, mstmt = removal
        rep.check(mpred.positive and mpred.first == "new" and mpred.second == "elem", "filter-3-removal", fi.qualname, short(mstmt),
                  f"exactly the stored entries dominated by the new one are removed (found: removed iff {mpred})", fi.loc(mstmt))
        other_stores = [s for i, s in stores if s is not mstmt and not any(s is a.stmt for a, _ in appends) and id(s) not in {id(n) for n in ast.walk(mstmt)}]
        rep.check(not other_stores, "filter-3-no-other-store", fi.qualname, short(other_stores[0]) if other_stores else "",
                  "no other statement modifies the stored entries", fi.loc(other_stores[0]) if other_stores else fi.loc())
    top_appends = [(a, r) for a, r in appends if not a.loops and not [f for f in a.facts if f not in ff.order[0].facts and False]]
    ok_append = len(appends) == 1 and appends[0][1] == "new" and not appends[0][0].loops and (removal is None or appends[0][0].index > removal[0])
    # the append must be unconditional on the accepting path: its facts are exactly those after the refusal test
    if appends:
        a0 = appends[0][0]
        # (the accepting path may be the other branch of the refusal test itself: `if not any(..): <accept> else: return False`)
        refusing_nodes = {id(n) for n in ast.walk(rstmt)}
        if isinstance(rstmt, ast.If) and isinstance(rstmt.test, ast.UnaryOp) and isinstance(rstmt.test.op, ast.Not):
            refusing_nodes = {id(n) for b_ in rstmt.orelse for n in ast.walk(b_)} | {id(rstmt)}
        after_refusal = [s for s in ff.order if s.index > ridx and not s.loops and id(s.stmt) not in refusing_nodes]
        base_facts = after_refusal[0].facts if after_refusal else []
        ok_append = ok_append and sorted(a0.facts) == sorted(base_facts)
    rep.check(ok_append, "filter-3-append-once", fi.qualname, short(appends[0][0].stmt) if appends else "",
              "the new entry is appended exactly once, unconditionally on the accepting path, after the removal", fi.loc(appends[0][0].stmt) if appends else fi.loc())
    last = fi.node.body[-1]
    if isinstance(last, ast.If) and last is rstmt and isinstance(last.test, ast.UnaryOp) and isinstance(last.test.op, ast.Not) and last.body:
        last = last.body[-1]       # the accepting path is the body of `if not any(..):`
    rep.check(isinstance(last, ast.Return) and last in true_returns and len(true_returns) == 1, "filter-3-return-true", fi.qualname, short(last),
              "the accepting path ends with the single `return True`", fi.loc(last))

    # --- rule 4: base case --------------------------------------------------------
    init = prog.func(PF + ".__init__")
    base = [n for n in own_nodes(init.node) if isinstance(n, (ast.Assign, ast.AnnAssign))
            and any(is_self_attr(t, "entries") for t in (n.targets if isinstance(n, ast.Assign) else [n.target]))]
    ok_base = len(base) == 1 and isinstance(base[0].value, ast.List) and not base[0].value.elts
    rep.check(ok_base, "filter-4-base-case", init.qualname, short(base[0]) if base else "", "the filter starts empty (entries = [])", init.loc())
    # nobody else writes entries
    writers = []
    for f in prog.iter_functions():
        if f is fi or f is init:
            continue
        for n in own_nodes(f.node):
            if isinstance(n, ast.Attribute) and n.attr == "entries" and isinstance(n.ctx, (ast.Store, ast.Del)):
                writers.append((f, n))
            if isinstance(n, ast.Call) and isinstance(n.func, ast.Attribute) and isinstance(n.func.value, ast.Attribute) and n.func.value.attr == "entries" \
                    and n.func.attr in ("append", "remove", "pop", "clear", "insert", "extend", "sort"):
                writers.append((f, n))
    rep.check(not writers, "filter-4-single-writer", writers[0][0].qualname if writers else PF, U(writers[0][1]) if writers else "",
              "only __init__ and filter_insert modify the stored entries", writers[0][0].loc(writers[0][1]) if writers else "")

    # --- rule 5: penalty coupling in update() ----------------------------------------
    upd = prog.func(PF + ".update")
    uf = facts_for(upd)
    uparams = [p for p in upd.params if p != "self"]
    cand = uparams[1] if len(uparams) >= 2 else None
    ins_calls = [n for n in own_nodes(upd.node) if isinstance(n, ast.Call) and isinstance(n.func, ast.Attribute) and n.func.attr == "filter_insert"]
    if len(ins_calls) != 1:
        raise AnalysisError("PenaltyFilter.update does not call filter_insert exactly once")
    ic = ins_calls[0]
    si_ic = uf.stmt_of(ic)
    # argument: *iterate_entry(next_iterate)
    arg_ok = False
    if len(ic.args) == 1 and isinstance(ic.args[0], ast.Starred):
        a = uf.resolved(si_ic.stmt, ic.args[0].value)
        arg_ok = isinstance(a, ast.Call) and isinstance(a.func, ast.Attribute) and a.func.attr == "iterate_entry" and is_self_attr(a.func.value) is False and \
            isinstance(a.func.value, ast.Name) and a.func.value.id == "self" and len(a.args) == 1 and U(a.args[0]) == cand
    elif len(ic.args) == 2:
        a0, a1 = (uf.resolved(si_ic.stmt, x) for x in ic.args)
        t = f"self.iterate_entry({cand})"
        arg_ok = (U(a0).startswith(t) or "__item__(" + t in U(a0)) and (U(a1).startswith(t) or "__item__(" + t in U(a1))
    rep.check(arg_ok, "filter-5-candidate-entry", upd.qualname, short(si_ic.stmt),
              "the pair inserted is iterate_entry(<candidate iterate>) - the candidate, not the previous iterate", upd.loc(si_ic.stmt))
    ins_text = U(uf.resolved(si_ic.stmt, ic))
    accept_rets, reject_rets, other = [], [], []
    for r, v in result_sites(upd, uf):
        nm = dotted(v.func) if isinstance(v, ast.Call) else None
        if nm and nm.endswith("accept_with_penalty"):
            accept_rets.append((r, v))
        elif nm and nm.endswith("reject_with_penalty"):
            reject_rets.append((r, v))
        elif nm == "PenaltyResult":
            # built directly: PenaltyResult(rho, flag) with the flag a literal or the outcome of the insertion itself on this path
            pinit_ = prog.func("pygradflow.penalty.PenaltyResult.__init__")
            b_ = bind_args(pinit_, v)
            pn_ = [p_ for p_ in pinit_.params if p_ != "self"]
            kind = None
            if b_ is not None and len(pn_) >= 2:
                fl = uf.resolved(r, b_[pn_[1]])
                facts_r = uf.at(r).facts
                if isinstance(fl, ast.Constant) and isinstance(fl.value, bool):
                    kind = fl.value
                elif U(fl) == ins_text and ("truthy", ins_text, None) in facts_r:
                    kind = True
                elif U(fl) == ins_text and ("falsy", ins_text, None) in facts_r:
                    kind = False
            if kind is None:
                other.append(r)
            else:
                syn = ast.copy_location(ast.Call(func=v.func, args=[b_[pn_[0]]], keywords=[]), v)
                (accept_rets if kind else reject_rets).append((r, syn))
        else:
            other.append(r)
    rep.check(len(accept_rets) >= 1 and len(reject_rets) >= 1 and not other, "filter-5-results", upd.qualname, short(other[0]) if other else "",
              "update returns only accept_with_penalty(..) / reject_with_penalty(..)", upd.loc())
    rho_stores = [s for s in uf.order if isinstance(s.stmt, (ast.Assign, ast.AugAssign)) and
                  any(is_self_attr(t, "rho") for t in (s.stmt.targets if isinstance(s.stmt, ast.Assign) else [s.stmt.target]))]
    for r, v in accept_rets:
        sr = uf.at(r)
        on_accept = ("truthy", ins_text, None) in sr.facts
        no_store = all(not (s.index < sr.index and ("truthy", ins_text, None) in s.facts) for s in rho_stores)
        val = uf.resolved(r, v.args[0]) if v.args else None
        rep.check(on_accept and no_store and val is not None and U(val) == "self.rho", "filter-5-accept-unchanged", upd.qualname, short(r),
                  "an accepted point returns accept_with_penalty(self.rho) with no store to the penalty on that path", upd.loc(r))
    for r, v in reject_rets:
        sr = uf.at(r)
        on_reject = ("falsy", ins_text, None) in sr.facts
        val = uf.resolved(r, v.args[0]) if v.args else None
        tenfold = False
        if val is not None and isinstance(val, ast.BinOp) and isinstance(val.op, ast.Mult):
            l, rr = val.left, val.right
            for a, b in ((l, rr), (rr, l)):
                if U(a) == "self.rho" and const_value(b) == 10:
                    tenfold = True
        # ... and that value IS the filter's penalty from now on (the next refusal multiplies it again): self.rho holds it at the return
        try:
            stored = U(uf.resolved(r, ast.Attribute(value=ast.Name(id="self", ctx=ast.Load()), attr="rho", ctx=ast.Load())))
        except Exception:
            stored = None
        rep.check(val is not None and stored == U(val), "filter-5-reject-stored", upd.qualname, short(r),
                  f"the refused point's tenfold penalty is stored as the filter's penalty before it is returned (self.rho at the return: {stored}; returned: {U(val) if val is not None else None})", upd.loc(r))
        rep.check(on_reject and tenfold, "filter-5-reject-tenfold", upd.qualname, short(r),
                  f"a refused point multiplies the filter's penalty by 10 and returns reject_with_penalty(that value) (found value: {U(val) if val is not None else None})", upd.loc(r))
    # reject/accept constructors
    pr = prog.cls("pygradflow.penalty.PenaltyResult")
    for nm, flag in (("accept_with_penalty", True), ("reject_with_penalty", False)):
        m = prog.func(f"pygradflow.penalty.PenaltyResult.{nm}")
        rs = returns_of(m)
        ok = False
        if len(rs) == 1 and isinstance(rs[0].value, ast.Call) and dotted(rs[0].value.func) in ("PenaltyResult", "cls"):
            b_ = bind_args(prog.func("pygradflow.penalty.PenaltyResult.__init__"), rs[0].value)
            pn = [p_ for p_ in prog.func("pygradflow.penalty.PenaltyResult.__init__").params if p_ != "self"]
            ok = b_ is not None and U(facts_for(m).resolved(rs[0], b_[pn[0]])) == [p_ for p_ in m.params if p_ not in ("self", "cls")][0] and isinstance(b_[pn[1]], ast.Constant) and b_[pn[1]].value is flag
        rep.check(ok, "filter-5-result-flags", m.qualname, short(rs[0]) if rs else "", f"{nm}(rho) builds PenaltyResult(rho, {flag})", m.loc())
    pinit = prog.func("pygradflow.penalty.PenaltyResult.__init__")
    pa = {U(t): U(n.value) for n in own_nodes(pinit.node) if isinstance(n, ast.Assign) for t in n.targets}
    rep.check(pa.get("self.next_rho") == pinit.params[1] and pa.get("self.accept") == pinit.params[2], "filter-5-result-flags", pinit.qualname,
              "", "PenaltyResult stores (next_rho, accept) in that order", pinit.loc())

    # subclasses must not override filter_insert / update
    for sub in prog.all_subclasses(cls, include_self=False):
        for nm in ("filter_insert", "update"):
            rep.check(nm not in sub.methods, "filter-5-no-override", sub.qualname, nm, f"{sub.name} inherits {nm} unchanged", f"{sub.module.relpath}:{sub.node.lineno}")

    # --- rule 6: the veto in Solver.solve ------------------------------------------
    veto(prog, rep, "filter-6-veto")
    rep.pin("filter refusal/removal/append constructs", 3, 3)


def veto(prog: Program, rep, rule: str) -> None:
    """In Solver.solve the block that adopts the candidate is guarded by the *post-veto* acceptance: the penalty policy is
    consulted only for steps the controller accepted, and the carried iterate is replaced only if the policy accepted too."""
    from .solveloop import solve_loop
    L = solve_loop(prog)
    fi, ff = L.fi, L.ff
    name = L.names()["iterate"]
    adopt = L.stores_in_loop(name)
    if not adopt:
        raise AnalysisError("Solver.solve: the carried iterate is never replaced inside the main loop")
    for s in adopt:
        rep.check(L.post_veto_fact(s), rule, fi.qualname, short(s.stmt),
                  "the iterate is replaced only under the post-veto acceptance flag (controller accepted AND penalty policy accepted)", fi.loc(s.stmt))
    # the policy is asked only about steps the controller accepted (so its verdict implies the controller's)
    ups = [n for n in ast.walk(L.loop) if isinstance(n, ast.Call) and isinstance(n.func, ast.Attribute) and n.func.attr == "update" and "penalty_strategy" in U(n.func.value)]
    for u_ in ups:
        si = L.si(u_)
        kinds, _ = L.accept_kinds(si)
        rep.check("controller" in kinds, rule, fi.qualname, short(si.stmt), "the penalty policy is consulted only for steps the step controller accepted", fi.loc(u_))
