"""Structure of the main loop of Solver.solve, extracted once and shared by C02, C08, C12, C15."""
from __future__ import annotations

import ast
from typing import Dict, List, Optional

from ..loopflow import Path, block_paths, count_in_path, first_index
from ..model import AnalysisError, FuncInfo, Program, dotted, own_nodes, unparse
from ..symex import StmtInfo, facts_for
from .common import U, bind_args, short

SOLVE = "pygradflow.solver.Solver.solve"


def is_method_call(n: ast.AST, name: str) -> bool:
    return isinstance(n, ast.Call) and isinstance(n.func, ast.Attribute) and n.func.attr == name


def is_aug(n: ast.AST, name: str) -> bool:
    return isinstance(n, ast.AugAssign) and isinstance(n.target, ast.Name) and n.target.id == name


class SolveLoop:
    def __init__(self, prog: Program):
        self.prog = prog
        self.fi = prog.func(SOLVE)
        self.ff = facts_for(self.fi)
        loops = [s for s in self.ff.order if isinstance(s.stmt, ast.While) and not s.loops]
        main = [s for s in loops if any(is_method_call(n, "_compute_step") for n in ast.walk(s.stmt))]
        if len(main) != 1:
            raise AnalysisError("Solver.solve: cannot identify the main loop (a top-level while containing the _compute_step call)")
        self.loop_si = main[0]
        self.loop: ast.While = main[0].stmt
        self.body = self.loop.body
        self.paths: List[Path] = block_paths(self.body)
        self.step_calls = [n for n in ast.walk(self.loop) if is_method_call(n, "_compute_step")]
        self.term_calls = [n for n in ast.walk(self.loop) if is_method_call(n, "_check_terminate")]
        self.cb_calls = [n for n in ast.walk(self.loop) if isinstance(n, ast.Call) and U(n.func) == "self.callbacks"]
        self.compute_step = prog.func("pygradflow.solver.Solver._compute_step")
        self.check_terminate = prog.func("pygradflow.solver.Solver._check_terminate")

    # -- convenience -------------------------------------------------------------
    def si(self, node: ast.AST) -> StmtInfo:
        s = self.ff.stmt_of(node)
        if s is None:
            raise AnalysisError("statement not found in Solver.solve")
        return s

    def in_loop(self, si: StmtInfo) -> bool:
        return self.loop in si.loops

    def back_edge_paths(self) -> List[Path]:
        return [p for p in self.paths if p.end in ("fall", "continue")]

    def loop_base_facts(self) -> List:
        """facts that hold at the first statement of the loop body."""
        return list(self.ff.at(self.body[0]).facts)

    def step_args(self) -> Dict[str, ast.AST]:
        if len(self.step_calls) != 1:
            raise AnalysisError(f"Solver.solve: expected one _compute_step call in the loop, found {len(self.step_calls)}")
        b = bind_args(self.compute_step, self.step_calls[0])
        if b is None:
            raise AnalysisError("cannot bind the arguments of _compute_step")
        si = self.si(self.step_calls[0])
        return {k: self.ff.resolved(si.stmt, v) for k, v in b.items()}

    def stores_in_loop(self, name: str) -> List[StmtInfo]:
        out = []
        for s in self.ff.order:
            if not self.in_loop(s):
                continue
            st = s.stmt
            tgs = st.targets if isinstance(st, ast.Assign) else ([st.target] if isinstance(st, (ast.AugAssign, ast.AnnAssign)) else [])
            for t in tgs:
                for n in ast.walk(t):
                    if isinstance(n, ast.Name) and n.id == name and isinstance(n.ctx, ast.Store):
                        out.append(s)
                    if isinstance(n, ast.Attribute) and isinstance(n.ctx, ast.Store) and U(n) == name:
                        out.append(s)
        return out

    def last_def_before_loop(self, name: str) -> Optional[StmtInfo]:
        best = None
        for s in self.ff.order:
            if s.index >= self.loop_si.index:
                break
            st = s.stmt
            if isinstance(st, (ast.Assign, ast.AnnAssign)):
                tgs = st.targets if isinstance(st, ast.Assign) else [st.target]
                if any(isinstance(t, ast.Name) and t.id == name for t in tgs):
                    best = s
        return best

    def post_veto_fact(self, si: StmtInfo) -> bool:
        """si is guarded by the acceptance flag after the penalty policy's veto."""
        from ..symex import phi_alternatives
        for f in si.facts:
            if f[0] != "truthy":
                continue
            try:
                e = ast.parse(f[1], mode="eval").body
            except SyntaxError:
                continue
            kinds = set()
            for a in phi_alternatives(e):
                if isinstance(a, ast.Attribute) and a.attr == "accept" and isinstance(a.value, ast.Call) and isinstance(a.value.func, ast.Attribute) \
                        and a.value.func.attr == "update" and "penalty_strategy" in U(a.value.func.value):
                    kinds.add("penalty")
                elif isinstance(a, ast.Attribute) and a.attr == "accepted" and isinstance(a.value, ast.Call) and U(a.value.func).endswith("_compute_step"):
                    kinds.add("controller")
                else:
                    kinds.add("other")
            if "penalty" in kinds and "other" not in kinds:
                return True
        return False

    def accept_fact_texts(self, si: StmtInfo) -> List[str]:
        return [f[1] for f in si.facts if f[0] == "truthy" and (".accept" in f[1])]


_CACHE = {}


def solve_loop(prog: Program) -> SolveLoop:
    k = id(prog)
    if k not in _CACHE:
        _CACHE[k] = SolveLoop(prog)
    return _CACHE[k]
