"""Structure of the main loop of Solver.solve, extracted once and shared by C02, C08, C12, C15, C16, C18.

Variables are identified by their ROLE (what they are passed to), never by their spelling, so renaming a local does not
move a rule:  the carried iterate is the iterate argument of _compute_step, the iteration counter is the second argument of
_check_terminate, the inverse step size is the variable under `1.0 / .` in the dt argument, the acceptance counter is what
SolverResult receives as num_accepted_steps, the path lists are the receivers of the two in-loop `.append` calls that
record `<candidate>.z` and `<list>[-1] + dt`.
"""
from __future__ import annotations

import ast
import re
from typing import Dict, List, Optional

from ..loopflow import Path, block_paths, count_in_path, first_index
from ..model import AnalysisError, FuncInfo, Program, dotted, own_nodes, unparse
from ..symex import StmtInfo, facts_for, phi_alternatives
from .common import U, bind_args, const_value, kwarg, short

SOLVE = "pygradflow.solver.Solver.solve"


def is_method_call(n: ast.AST, name: str) -> bool:
    return isinstance(n, ast.Call) and isinstance(n.func, ast.Attribute) and n.func.attr == name


def is_aug(n: ast.AST, name: str) -> bool:
    return isinstance(n, ast.AugAssign) and isinstance(n.target, ast.Name) and n.target.id == name


def loop_name(text: str) -> Optional[str]:
    m = re.match(r"__loop__\('([A-Za-z_][A-Za-z_0-9\.]*)', \d+\)", text)
    return m.group(1) if m else None


class SolveLoop:
    def __init__(self, prog: Program):
        self.prog = prog
        self.fi = prog.func(SOLVE)
        self.ff = facts_for(self.fi)
        loops = [s for s in self.ff.order if isinstance(s.stmt, ast.While) and not s.loops]
        main = [s for s in loops if any(is_method_call(n, "_compute_step") for n in ast.walk(s.stmt))]
        if len(main) != 1:
            raise AnalysisError("Solver.solve: cannot identify the main loop (a top-level while containing the _compute_step call)")
        self.loop_si = main[0]
        self.loop: ast.While = main[0].stmt
        self.body = self.loop.body
        self.paths: List[Path] = block_paths(self.body)
        self.step_calls = [n for n in ast.walk(self.loop) if is_method_call(n, "_compute_step")]
        self.term_calls = [n for n in ast.walk(self.loop) if is_method_call(n, "_check_terminate")]
        self.pre_term = None  # form 3: `status = check(); while status is None: ...; status = check()`
        self.compute_step = prog.func("pygradflow.solver.Solver._compute_step")
        self.check_terminate = prog.func("pygradflow.solver.Solver._check_terminate")
        self._names: Optional[Dict[str, Optional[str]]] = None

    # -- loop head ---------------------------------------------------------------------
    def head(self):
        """('while-true' | 'walrus', termination call, name of the status variable, statement holding the test) or raises."""
        if len(self.term_calls) != 1:
            raise AnalysisError(f"Solver.solve: expected one _check_terminate call in the main loop, found {len(self.term_calls)}")
        call = self.term_calls[0]
        t = self.loop.test
        # form 3: test before the loop and again as the last statement of the body
        if isinstance(t, ast.Compare) and len(t.ops) == 1 and isinstance(t.ops[0], ast.Is) and isinstance(t.left, ast.Name) and isinstance(t.comparators[0], ast.Constant) \
                and t.comparators[0].value is None:
            last = self.body[-1]
            prev = None
            for s in self.ff.order:
                if s.index < self.loop_si.index and not s.loops:
                    prev = s
            if isinstance(last, ast.Assign) and last.value is call and U(last.targets[0]) == t.left.id and prev is not None and isinstance(prev.stmt, ast.Assign) \
                    and is_method_call(prev.stmt.value, "_check_terminate") and U(prev.stmt.targets[0]) == t.left.id \
                    and [U(a) for a in prev.stmt.value.args] == [U(a) for a in call.args] and prev.tries == self.loop_si.tries:
                self.pre_term = prev
                return "pre-tail", call, t.left.id, last
        if isinstance(t, ast.Constant) and t.value is True:
            first = self.body[0]
            if isinstance(first, ast.Assign) and first.value is call and len(first.targets) == 1 and isinstance(first.targets[0], ast.Name):
                return "while-true", call, first.targets[0].id, first
            return "while-true", call, None, first
        if isinstance(t, ast.Compare) and len(t.ops) == 1 and isinstance(t.ops[0], ast.Is) and isinstance(t.comparators[0], ast.Constant) and t.comparators[0].value is None:
            l = t.left
            if isinstance(l, ast.NamedExpr) and l.value is call and isinstance(l.target, ast.Name):
                return "walrus", call, l.target.id, self.loop
        return "other", call, None, self.loop

    # -- convenience -------------------------------------------------------------
    def si(self, node: ast.AST) -> StmtInfo:
        s = self.ff.stmt_of(node)
        if s is None:
            raise AnalysisError("statement not found in Solver.solve")
        return s

    def in_loop(self, si: StmtInfo) -> bool:
        return self.loop in si.loops

    def back_edge_paths(self) -> List[Path]:
        return [p for p in self.paths if p.end in ("fall", "continue")]

    def loop_base_facts(self) -> List:
        return list(self.ff.at(self.body[0]).facts)

    def completed_iteration_facts(self) -> List:
        """facts that hold at the counter increment = on every completed iteration."""
        n = self.names()["iteration"]
        incs = [q for q in self.ff.order if self.in_loop(q) and n and is_aug(q.stmt, n)]
        return list(incs[-1].facts) if incs else self.loop_base_facts()

    def step_args(self) -> Dict[str, ast.AST]:
        if len(self.step_calls) != 1:
            raise AnalysisError(f"Solver.solve: expected one _compute_step call in the loop, found {len(self.step_calls)}")
        b = bind_args(self.compute_step, self.step_calls[0])
        if b is None:
            raise AnalysisError("cannot bind the arguments of _compute_step")
        si = self.si(self.step_calls[0])
        return {k: self.ff.resolved(si.stmt, v) for k, v in b.items()}

    def term_args(self) -> Dict[str, ast.AST]:
        kind, call, status, holder = self.head()
        b = bind_args(self.check_terminate, call)
        if b is None:
            raise AnalysisError("cannot bind the arguments of _check_terminate")
        if kind == "pre-tail":
            # at the head of an iteration the test has just been made on the carried variables themselves
            env = self.ff.at(self.body[0]).env
        else:
            env = self.ff.at(self.body[0]).env if kind != "while-true" else self.ff.at(holder).env
        from ..symex import resolve
        return {k: resolve(v, env) for k, v in b.items()}

    def names(self) -> Dict[str, Optional[str]]:
        if self._names is not None:
            return self._names
        ff = self.ff
        out: Dict[str, Optional[str]] = {}
        ps = [p for p in self.compute_step.params if p != "self"]
        sa = self.step_args()
        out["iterate"] = loop_name(U(sa[ps[1]]))
        dt = sa[ps[3]]
        out["lamb"] = loop_name(U(dt.right)) if isinstance(dt, ast.BinOp) and isinstance(dt.op, ast.Div) else None
        tps = [p for p in self.check_terminate.params if p != "self"]
        ta = self.term_args()
        out["iteration"] = loop_name(U(ta[tps[1]]))
        out["status"] = self.head()[2]
        res = [n for n in own_nodes(self.fi.node) if isinstance(n, ast.Call) and dotted(n.func) == "SolverResult"]
        out["accepted"] = None
        if len(res) == 1:
            si = ff.stmt_of(res[0])
            v = kwarg(res[0], "num_accepted_steps")
            if v is not None:
                out["accepted"] = loop_name(U(ff.resolved(si.stmt, v)))
        # path lists
        out["path"] = out["times"] = None
        for s in ff.order:
            st = s.stmt
            if self.in_loop(s) and isinstance(st, ast.Expr) and is_method_call(st.value, "append") and isinstance(st.value.func.value, ast.Name) and len(st.value.args) == 1:
                a = st.value.args[0]
                recv = st.value.func.value.id
                if isinstance(a, ast.Name):
                    # a temporary holding the appended value (`t = times[-1] + dt; times.append(t)`)
                    defs = [q for q in ff.order if q.index < s.index and q.loops == s.loops and isinstance(q.stmt, ast.Assign) and len(q.stmt.targets) == 1
                            and isinstance(q.stmt.targets[0], ast.Name) and q.stmt.targets[0].id == a.id]
                    if defs:
                        a = defs[-1].stmt.value
                if U(ff.resolved(st, a)).endswith(".z"):
                    out["path"] = recv
                elif isinstance(a, ast.BinOp) and isinstance(a.op, ast.Add):
                    sides = [U(a.left), U(a.right), U(ff.resolved(st, a.left)), U(ff.resolved(st, a.right))]
                    for sd_ in (a.left, a.right):
                        # `last = times[-1]` held in a temporary of the same iteration
                        if isinstance(sd_, ast.Name):
                            ds_ = [q for q in ff.order if q.index < s.index and q.loops == s.loops and isinstance(q.stmt, ast.Assign) and len(q.stmt.targets) == 1
                                   and isinstance(q.stmt.targets[0], ast.Name) and q.stmt.targets[0].id == sd_.id]
                            if ds_:
                                sides.append(U(ds_[-1].stmt.value))
                    import re as _re
                    if f"{recv}[-1]" in sides or any(t.endswith("[-1]") and _re.search(r"\b" + _re.escape(recv) + r"\b", t) for t in sides):
                        out["times"] = recv
        # accumulated path length: the numerator of the distance factor
        out["path_dist"] = None
        if len(res) == 1:
            si = ff.stmt_of(res[0])
            v = kwarg(res[0], "dist_factor")
            if v is not None:
                for alt in phi_alternatives(ff.resolved(si.stmt, v)):
                    if isinstance(alt, ast.BinOp) and isinstance(alt.op, ast.Div):
                        out["path_dist"] = loop_name(U(alt.left))
        self._names = out
        return out

    def path_lists(self):
        """(path list name, times list name) - or (None, None) when solve() has no path collection at all.  If solve() reads
        params.collect_path but the recording is not the list-append form the rules understand, nothing about the recorded
        path can be decided: analysis error, never a silent pass."""
        uses = any(isinstance(n, ast.Attribute) and n.attr == "collect_path" for n in own_nodes(self.fi.node))
        n = self.names()
        if uses and (n.get("path") is None or n.get("times") is None):
            raise AnalysisError("Solver.solve reads params.collect_path, but the recorded path / model times are not kept in two lists appended to inside the main loop "
                                "(path recording is not in a recognised form)")
        return n.get("path"), n.get("times")

    def recorders(self) -> List[str]:
        """locals that exist only when the path is collected: bound before the main loop under a condition on params.collect_path
        (`if params.collect_path: path = [...]`, `rec = Recorder(..) if params.collect_path else None`)."""
        out = []
        for s in self.ff.order:
            if s.index >= self.loop_si.index or s.loops or not isinstance(s.stmt, (ast.Assign, ast.AnnAssign)):
                continue
            st = s.stmt
            if isinstance(st, ast.AnnAssign) and st.value is None:
                continue
            cond = any("collect_path" in (f[1] + (f[2] or "")) for f in s.facts) or \
                (isinstance(st.value, ast.IfExp) and "collect_path" in U(self.ff.resolved(st, st.value.test)))
            isnone = isinstance(st.value, ast.Constant) and st.value.value is None
            if cond and not isnone:
                for t in (st.targets if isinstance(st, ast.Assign) else [st.target]):
                    if isinstance(t, ast.Name) and t.id not in out:
                        out.append(t.id)
        return out

    def recorder_updates(self) -> List[StmtInfo]:
        """statements of the loop that call a method of a path recorder / path list (the places where the recorded path grows)."""
        recs = set(self.recorders())
        out = []
        for s in self.ff.order:
            if not self.in_loop(s) or isinstance(s.stmt, (ast.If, ast.For, ast.While, ast.Try, ast.With)):
                continue
            if any(isinstance(n, ast.Call) and isinstance(n.func, ast.Attribute) and isinstance(n.func.value, ast.Name) and n.func.value.id in recs for n in ast.walk(s.stmt)):
                out.append(s)
        return out

    def path_appends(self) -> List[StmtInfo]:
        pn, tn = self.path_lists()
        out = []
        for s in self.ff.order:
            if self.in_loop(s) and isinstance(s.stmt, ast.Expr) and is_method_call(s.stmt.value, "append") and isinstance(s.stmt.value.func.value, ast.Name) \
                    and s.stmt.value.func.value.id in (pn, tn):
                out.append(s)
        return out

    def stores_in_loop(self, name: Optional[str]) -> List[StmtInfo]:
        out = []
        if not name:
            return out
        for s in self.ff.order:
            if not self.in_loop(s):
                continue
            st = s.stmt
            tgs = st.targets if isinstance(st, ast.Assign) else ([st.target] if isinstance(st, (ast.AugAssign, ast.AnnAssign)) else [])
            for t in tgs:
                for n in ast.walk(t):
                    if isinstance(n, ast.Name) and n.id == name and isinstance(n.ctx, ast.Store):
                        out.append(s)
                    if isinstance(n, ast.Attribute) and isinstance(n.ctx, ast.Store) and U(n) == name:
                        out.append(s)
        return out

    def last_def_before_loop(self, name: Optional[str]) -> Optional[StmtInfo]:
        best = None
        if not name:
            return None
        for s in self.ff.order:
            if s.index >= self.loop_si.index:
                break
            st = s.stmt
            if isinstance(st, (ast.Assign, ast.AnnAssign)):
                tgs = st.targets if isinstance(st, ast.Assign) else [st.target]
                if any(isinstance(t, ast.Name) and t.id == name for t in tgs):
                    best = s
        return best

    def accept_kinds(self, si: StmtInfo):
        """which acceptance verdicts guard the statement: {'controller', 'penalty'} (resolved through phi nodes)."""
        kinds_all = set()
        post_veto = False
        for f in si.facts:
            if f[0] != "truthy":
                continue
            try:
                e = ast.parse(f[1], mode="eval").body
            except SyntaxError:
                continue
            kinds = set()
            for a in phi_alternatives(e):
                if isinstance(a, ast.Attribute) and a.attr == "accept" and isinstance(a.value, ast.Call) and isinstance(a.value.func, ast.Attribute) \
                        and a.value.func.attr == "update" and "penalty_strategy" in U(a.value.func.value):
                    kinds.add("penalty")
                elif isinstance(a, ast.Attribute) and a.attr == "accepted" and isinstance(a.value, ast.Call) and U(a.value.func).endswith("_compute_step"):
                    kinds.add("controller")
                else:
                    kinds.add("other")
            if "other" in kinds:
                continue
            kinds_all |= kinds
            if "penalty" in kinds:
                post_veto = True
        return kinds_all, post_veto

    def post_veto_fact(self, si: StmtInfo) -> bool:
        """si is guarded by the acceptance flag after the penalty policy's veto (the policy is only consulted for steps the
        controller accepted, so its verdict implies the controller's)."""
        return self.accept_kinds(si)[1]


_CACHE = {}


def solve_loop(prog: Program) -> SolveLoop:
    k = id(prog)
    if k not in _CACHE:
        _CACHE[k] = SolveLoop(prog)
    return _CACHE[k]
