"""C07 - failures at trial points are survived and never accepted (exception flow + typestate)."""
from __future__ import annotations

import ast
from typing import Dict, List, Optional, Set

from ..excflow import ExcFlow, header_exprs, walk_expr
from ..model import AnalysisError, ClassInfo, FuncInfo, Program, dotted, own_nodes, unparse
from ..symex import always_leaves, facts_for, phi_alternatives
from .common import control_result_args, U, bind_args, const_value, is_self_attr, returns_of, short, np_call

EVAL = "pygradflow.eval.EvalError"
SSE = "pygradflow.step.step_solver_error.StepSolverError"
LSE = "pygradflow.linear_solver.linear_solver.LinearSolverError"
INTERNAL = (EVAL, SSE, LSE)
CACHED = ("obj", "obj_grad", "cons", "cons_jac")

EXPLANATION = (
    "Exception-flow fixed point over the resolved call graph (calls, constructors, property loads; handlers subclass-aware). "
    "(1) no concrete step solver's solve() lets LinearSolverError escape; (2) StepController.compute_step lets none of "
    "EvalError/StepSolverError/LinearSolverError escape; (3) each handler returns StepControlResult(<the parameter iterate>, "
    "update_stepsize_after_fail(1/dt), .., accepted=False) and update_stepsize_after_fail is k*lamb with literal k>1 in every "
    "controller; (4) on every path returning a possibly accepted result, <result>.iterate.check_eval() runs first inside the try, "
    "check_eval touches obj, obj_grad and (m>0) cons, cons_jac; typestate: in Solver.solve, _check_terminate, print_result and "
    "the penalty policies, evaluation-triggering members are used only on validated iterates, where members that only read the "
    "four cached evaluations cannot raise; with those sites and the exempt derivative check removed, no EvalError escapes "
    "Solver.solve; (5) the initial evaluation is converted into the dedicated exception; (6) every ValidatingEvaluator method "
    "returns only under a finiteness (and shape) test of the value it returns, and both evaluators short-circuit m == 0."
)


def _esc_classes(x: ExcFlow, q: str, classes=INTERNAL):
    out = []
    for c, origin, chain in x.escapes(q):
        for k in classes:
            if x.is_subclass(c, k):
                out.append((c, origin, chain))
                break
    return out


def validated_flow(prog: Program) -> ExcFlow:
    """escape sets in the context 'the receiver Iterate is validated': loads of the four
    cached evaluations on `self` inside Iterate do not raise."""
    it = prog.cls("pygradflow.iterate.Iterate")

    def filt(fi, si, kind, payload, cal):
        if kind == "attr" and cal.cls is it and cal.name in CACHED and isinstance(payload.value, ast.Name) and payload.value.id == "self" \
                and prog.enclosing_class(fi) is it:
            return "skip"
        return None

    return ExcFlow(prog, site_filter=filt)


def run(prog: Program, rep, tier: str) -> None:
    rep.explanation = EXPLANATION
    rep.assumptions += ["params.validate_input is True (default): only the ValidatingEvaluator turns non-finite values into EvalError",
                        "callbacks of the user's Problem raise nothing themselves (premise: finite or non-finite *values*)"]
    x = ExcFlow(prog)
    rep.extra["exception_flow_rounds"] = x.rounds
    containment(prog, rep, x)
    # a failure is only noticed if the evaluator computes (and validates) the value at the requested point in this call: a memo in
    # the evaluator can answer for a point whose evaluation failed
    from . import c19 as _c19
    _c19.evaluator_memoryless(prog, rep)

    # --- rule 3: failure result ----------------------------------------------------------
    failure_result(prog, rep, x)

    # --- rule 4: validate before accept -------------------------------------------------------
    validate_before_accept(prog, rep, x)
    typestate(prog, rep, x)

    # --- rule 5: initial point -----------------------------------------------------------------
    initial_point(prog, rep, x)

    # --- rule 6: evaluator completeness -----------------------------------------------------------
    evaluators(prog, rep)
    wrappers_keep_nonfinite(prog, rep)


def _nan_truth(e: ast.AST):
    """truth value of an element-wise mask on an entry that is NaN (True / False), or None when not determined"""
    if isinstance(e, ast.Compare) and len(e.ops) == 1:
        return True if isinstance(e.ops[0], ast.NotEq) else False        # every comparison with NaN is false except !=
    if isinstance(e, ast.UnaryOp) and isinstance(e.op, (ast.Invert, ast.Not)):
        v = _nan_truth(e.operand)
        return None if v is None else (not v)
    if isinstance(e, ast.BinOp) and isinstance(e.op, (ast.BitAnd, ast.BitOr)):
        a, b = _nan_truth(e.left), _nan_truth(e.right)
        if a is None or b is None:
            return None
        return (a and b) if isinstance(e.op, ast.BitAnd) else (a or b)
    if isinstance(e, ast.Call):
        d = (dotted(e.func) or "").split(".")[-1]
        if d == "isfinite":
            return False
        if d in ("isnan",):
            return True
        if d == "logical_not" and e.args:
            v = _nan_truth(e.args[0])
            return None if v is None else (not v)
        if d in ("logical_and", "logical_or") and len(e.args) == 2:
            a, b = _nan_truth(e.args[0]), _nan_truth(e.args[1])
            if a is None or b is None:
                return None
            return (a and b) if d == "logical_and" else (a or b)
        if d in ("flatnonzero", "nonzero", "where") and len(e.args) == 1:
            return _nan_truth(e.args[0])
    if isinstance(e, ast.Subscript) and isinstance(e.slice, ast.Constant):
        return _nan_truth(e.value)
    return None


def wrappers_keep_nonfinite(prog: Program, rep) -> None:
    """The validating evaluator sits ABOVE the scaling / slack wrappers: it can only report a non-finite entry that the wrappers hand
    on.  A wrapper that selects entries of a callback result by a test on their values (`data[np.abs(data) > 0]`, `isfinite`) drops
    NaN entries - every comparison with NaN is false - and the trial point is then accepted as if the derivative were fine."""
    n = 0
    for q in ("pygradflow.scale.ScaledProblem", "pygradflow.cons_problem.ConstrainedProblem"):
        ci = prog.cls(q)
        for m in ci.methods.values():
            ff = None
            for node in own_nodes(m.node):
                if not (isinstance(node, ast.Subscript) and isinstance(node.ctx, ast.Load)) or isinstance(node.slice, (ast.Slice, ast.Constant, ast.Tuple)):
                    continue
                ff = ff or facts_for(m)
                si = ff.stmt_of(node)
                if si is None:
                    continue
                sl = ff.resolved(si.stmt, node.slice)
                txt = U(sl)
                if "self.problem." not in txt or not any(isinstance(k, ast.Compare) or (isinstance(k, ast.Call) and (dotted(k.func) or "").endswith(("isfinite", "isnan"))) for k in ast.walk(sl)):
                    continue
                n += 1
                keeps = _nan_truth(sl)
                if keeps is False:
                    rep.fail("wrappers-keep-nonfinite", m.qualname, short(si.stmt), f"VIOLATED: `{U(node)[:60]}` selects entries of a callback result by `{txt[:70]}`, which is false for NaN: "
                             f"non-finite entries are dropped below the validating evaluator and the failing point is not discarded", m.loc(node))
                else:
                    rep.ok("wrappers-keep-nonfinite", m.short, f"`{U(node)[:50]}`: value-dependent selection that keeps NaN entries ({keeps})")
    if n == 0:
        rep.ok("wrappers-keep-nonfinite", "ScaledProblem / ConstrainedProblem", "no wrapper selects entries of a callback result by a test on their values")


def containment(prog: Program, rep, x: ExcFlow) -> None:
    """a failing linear solve / evaluation reaches compute_step's handlers as StepSolverError / EvalError and nothing else"""
    # --- rule 1: conversion at the step-solver boundary --------------------------------
    ss = prog.cls("pygradflow.step.solver.step_solver.StepSolver")
    concrete = [c for c in prog.all_subclasses(ss, include_self=False) if prog.in_scope(c)]
    n = 0
    for c in concrete:
        for mname in ("solve", "solve_scaled", "update_derivs", "update_active_set", "__init__"):
            m = c.methods.get(mname)
            if m is None or prog.is_stub(m):
                continue
            n += 1
            bad = _esc_classes(x, m.qualname, (LSE,))
            if bad:
                cls_, origin, chain = bad[0]
                rep.fail("stepsolver-converts-linear-solver-error", m.qualname, f"escape of LinearSolverError raised at {_origin_key(prog, origin)}",
                         f"VIOLATED: LinearSolverError (raised at {origin}) can escape {m.short} instead of being converted to StepSolverError",
                         m.loc(), list(chain))
            else:
                rep.ok("stepsolver-converts-linear-solver-error", m.short, "LinearSolverError cannot escape (factorisation, solve, inertia and rcond paths)")
    rep.pin("step-solver methods examined", n, 12)
    er = prog.func("pygradflow.step.solver.step_solver.StepSolver.estimate_rcond")
    bad = _esc_classes(x, er.qualname, (LSE,))
    rep.check(not bad, "stepsolver-converts-linear-solver-error", er.qualname, "escape of LinearSolverError from estimate_rcond",
              "StepSolver.estimate_rcond contains LinearSolverError raised by the condition estimator's solves", er.loc(), list(bad[0][2]) if bad else None)

    # --- rule 2: containment in compute_step / solve --------------------------------------
    cs = prog.func("pygradflow.step.step_control.StepController.compute_step")
    bad = _esc_classes(x, cs.qualname)
    if bad:
        for cls_, origin, chain in bad[:5]:
            rep.fail("compute-step-contains-failures", cs.qualname, f"escape of {cls_.rsplit('.', 1)[-1]} raised at {_origin_key(prog, origin)}",
                     f"VIOLATED: {cls_.rsplit('.', 1)[-1]} raised at {origin} can escape compute_step", cs.loc(), list(chain))
    else:
        rep.ok("compute-step-contains-failures", cs.short, "none of EvalError / StepSolverError / LinearSolverError can escape compute_step")
    sv = prog.func("pygradflow.solver.Solver.solve")
    bad = _esc_classes(x, sv.qualname, (SSE, LSE))
    if bad:
        for cls_, origin, chain in bad[:5]:
            rep.fail("solve-contains-failures", sv.qualname, f"escape of {cls_.rsplit('.', 1)[-1]} raised at {_origin_key(prog, origin)}",
                     f"VIOLATED: {cls_.rsplit('.', 1)[-1]} raised at {origin} can escape Solver.solve", sv.loc(), list(chain))
    else:
        rep.ok("solve-contains-failures", sv.short, "neither StepSolverError nor LinearSolverError can escape Solver.solve")


def _origin_key(prog: Program, origin: str) -> str:
    """stable description of a raise site: file + the raise statement's text."""
    path, _, ln = origin.rpartition(":")
    try:
        ln = int(ln)
    except ValueError:
        return origin
    for m in prog.modules.values():
        if m.relpath == path:
            for node in ast.walk(m.tree):
                if isinstance(node, (ast.Raise, ast.Assert)) and node.lineno == ln:
                    return f"{path}: {short(node)}"
    return origin


def failure_result(prog: Program, rep, x: ExcFlow) -> None:
    cs = prog.func("pygradflow.step.step_control.StepController.compute_step")
    ff = facts_for(cs)
    params = [p for p in cs.params if p != "self"]
    it_param, dt_param = params[0], params[2]
    # the parameter must never be rebound in compute_step (nor in nested helpers)
    rebinds = [n for n in ast.walk(cs.node) if isinstance(n, ast.Name) and isinstance(n.ctx, ast.Store) and n.id in (it_param, dt_param)]
    rep.check(not rebinds, "failure-result-same-iterate", cs.qualname, U(rebinds[0]) if rebinds else "",
              f"compute_step never rebinds its parameters `{it_param}` / `{dt_param}`", cs.loc(rebinds[0]) if rebinds else cs.loc())
    tries = [s.stmt for s in ff.order if isinstance(s.stmt, ast.Try)]
    handlers = [h for t in tries for h in t.handlers]
    scr = prog.func("pygradflow.step.step_control.StepControlResult.__init__")
    seen = 0
    seen_classes = set()
    for h in handlers:
        hcs = x.handler_classes(cs, h)
        if not any(x.is_subclass(k, hc) for hc in hcs for k in INTERNAL):
            continue
        seen_classes.update(k for k in INTERNAL if any(x.is_subclass(k, hc) for hc in hcs))
        seen += 1
        # every way the handler can end: its last statement, through trailing if / else (one return per case)
        def ends(block):
            if not block:
                return [None]
            l_ = block[-1]
            if isinstance(l_, ast.If) and l_.orelse:
                return ends(l_.body) + ends(l_.orelse)
            return [l_]
        lasts = ends(h.body)
        if any(not isinstance(l_, ast.Return) or l_.value is None for l_ in lasts):
            rep.fail("failure-result-shape", cs.qualname, short(h), "VIOLATED: a failure handler does not end by returning a result", cs.loc(h))
            continue
        for last in lasts:
            val = last.value
            owner, of = cs, ff
            # inline a nested helper such as fail_result()
            if isinstance(val, ast.Call) and isinstance(val.func, ast.Name) and val.func.id in cs.nested and not val.args:
                nf = cs.nested[val.func.id]
                rs = returns_of(nf)
                if len(rs) != 1:
                    raise AnalysisError("fail_result helper has several returns")
                of = facts_for(nf)
                val = of.resolved(rs[0], rs[0].value)
                owner = nf
            else:
                val = ff.resolved(last, val)
            b = control_result_args(prog, val)
            if not b:
                rep.fail("failure-result-shape", cs.qualname, short(last), "VIOLATED: failure handler does not return a StepControlResult(...)", cs.loc(last))
                continue
            rep.check(isinstance(b["iterate"], ast.Name) and b["iterate"].id == it_param, "failure-result-same-iterate", cs.qualname, short(last),
                      f"the failure result carries the unchanged parameter iterate (found `{U(b['iterate'])}`)", cs.loc(last))
            rep.check(isinstance(b["accepted"], ast.Constant) and b["accepted"].value is False, "failure-result-not-accepted", cs.qualname, short(last),
                      f"the failure result is not accepted (found `{U(b['accepted'])}`)", cs.loc(last))
            lam = b["lamb"]
            ok_l = isinstance(lam, ast.Call) and isinstance(lam.func, ast.Attribute) and lam.func.attr == "update_stepsize_after_fail" \
                and U(lam.func.value) == "self" and len(lam.args) == 1 and _is_inverse_of(lam.args[0], dt_param)
            rep.check(ok_l, "failure-result-lambda", cs.qualname, short(last),
                      f"the failure result's lambda is update_stepsize_after_fail(1/{dt_param}) of the failed trial (found `{U(lam)}`)", cs.loc(last))
    rep.pin("internal failure classes with a handler in compute_step (one handler may serve several)", len(seen_classes), 2)
    sc = prog.cls("pygradflow.step.step_control.StepController")
    for m in prog.dispatch(sc, "update_stepsize_after_fail"):
        rs = returns_of(m)
        p = [q for q in m.params if q != "self"][0]
        good = False
        if len(rs) == 1 and isinstance(rs[0].value, ast.BinOp) and isinstance(rs[0].value.op, ast.Mult):
            l, r = rs[0].value.left, rs[0].value.right
            for a, bb in ((l, r), (r, l)):
                k = const_value(a)
                if k is not None and k > 1 and isinstance(bb, ast.Name) and bb.id == p:
                    good = True
        rep.check(good, "failure-shrinks-step", m.qualname, short(rs[0]) if rs else "",
                  "update_stepsize_after_fail returns k*lamb with a literal k > 1", m.loc())


def _is_inverse_of(e: ast.AST, name: str) -> bool:
    return isinstance(e, ast.BinOp) and isinstance(e.op, ast.Div) and const_value(e.left) == 1 and isinstance(e.right, ast.Name) and e.right.id == name


def validate_before_accept(prog: Program, rep, x: ExcFlow) -> None:
    cs = prog.func("pygradflow.step.step_control.StepController.compute_step")
    ff = facts_for(cs)
    n = 0
    for r in returns_of(cs):
        si = ff.at(r)
        if si.handlers:
            continue  # failure results, rule 3
        if r.value is None:
            rep.fail("validate-before-accept", cs.qualname, short(r), "VIOLATED: compute_step returns None", cs.loc(r))
            continue
        n += 1
        val = ff.resolved(r, r.value)
        vt = U(val)
        # a result that is literally not accepted needs no validation
        if control_result_args(prog, val) is not None:
            b = control_result_args(prog, val)
            if b and isinstance(b["accepted"], ast.Constant) and b["accepted"].value is False:
                rep.ok("validate-before-accept", cs.short, "literal non-accepted result needs no validation")
                continue
        def converting(t):
            return any(x.is_subclass(EVAL, hc) for h in t.handlers for hc in x.handler_classes(cs, h))
        in_try = [t for t in si.tries if converting(t)]
        # the return may also follow the try statement, provided every handler of that try leaves the function (so that the
        # statement after the try is reached only when the body completed normally)
        for q in ff.order:
            if isinstance(q.stmt, ast.Try) and q.index < si.index and q.loops == si.loops and converting(q.stmt) and q.stmt not in in_try \
                    and all(always_leaves(h.body) for h in q.stmt.handlers) and not q.stmt.finalbody and all(f in si.facts for f in q.facts):
                in_try.append(q.stmt)
        checks = []
        for s in ff.order:
            st = s.stmt
            if s.index < si.index and isinstance(st, ast.Expr) and isinstance(st.value, ast.Call) and isinstance(st.value.func, ast.Attribute) \
                    and st.value.func.attr == "check_eval":
                recv = ff.resolved(st, st.value.func.value)
                if U(recv) == f"{vt}.iterate":
                    extra = [f for f in s.facts if f not in si.facts]
                    if all(f == ("truthy", f"{vt}.accepted", None) for f in extra) and s.loops == si.loops \
                            and any(t in s.tries for t in in_try):
                        checks.append(s)
        # a return that can only happen for a NON-accepted result needs no validation (early `if not step.accepted: return step`)
        if ("falsy", f"{vt}.accepted", None) in si.facts:
            rep.ok("validate-before-accept", cs.short, "this return is reached only for a result that is not accepted")
            continue
        rep.check(bool(checks) and bool(in_try), "validate-before-accept", cs.qualname, short(r),
                  "before a possibly accepted result is returned, <result>.iterate.check_eval() runs inside the try that converts EvalError",
                  cs.loc(r))
    rep.pin("non-failure returns of compute_step", n, 1)
    ce = prog.func("pygradflow.iterate.Iterate.check_eval")
    cf = facts_for(ce)
    touched: Dict[str, List] = {}
    for s in cf.order:
        for e in header_exprs(s.stmt):
            for nn in walk_expr(e):
                if is_self_attr(nn) and nn.attr in CACHED and not isinstance(s.stmt, ast.If):
                    touched.setdefault(nn.attr, []).append(s)
    # `for name in <names>: getattr(self, name)`: the members evaluated are the strings the iterated list can hold, each under the
    # condition under which it was put there (the loop itself being unconditional)
    for s in cf.order:
        lp = s.stmt
        if not (isinstance(lp, ast.For) and isinstance(lp.target, ast.Name)):
            continue
        if not any(isinstance(k, ast.Call) and dotted(k.func) == "getattr" and len(k.args) >= 2 and U(k.args[0]) == "self" and U(k.args[1]) == lp.target.id
                   for b_ in lp.body for k in ast.walk(b_)):
            continue

        def strings(e):
            return [x.value for x in e.elts if isinstance(x, ast.Constant) and isinstance(x.value, str)] if isinstance(e, (ast.List, ast.Tuple)) else []
        if isinstance(lp.iter, (ast.List, ast.Tuple)):
            for nm in strings(lp.iter):
                if nm in CACHED:
                    touched.setdefault(nm, []).append(s)
        elif isinstance(lp.iter, ast.Name) and not any(isinstance(n_, ast.Name) and n_.id == lp.iter.id and isinstance(n_.ctx, ast.Store) for n_ in own_nodes(ce.node)):
            # a module-level constant tuple / list of member names: evaluated under the loop's own condition
            for st_ in ce.module.tree.body:
                v_ = st_.value if isinstance(st_, (ast.Assign, ast.AnnAssign)) else None
                tg_ = (st_.targets[0] if isinstance(st_, ast.Assign) and len(st_.targets) == 1 else getattr(st_, "target", None)) if v_ is not None else None
                if isinstance(tg_, ast.Name) and tg_.id == lp.iter.id:
                    for nm in strings(v_):
                        if nm in CACHED:
                            touched.setdefault(nm, []).append(s)
        elif isinstance(lp.iter, ast.Name) and not s.facts:
            lst = lp.iter.id
            for q in cf.order:
                if q.index >= s.index or q.loops:
                    continue
                st = q.stmt
                vals = []
                if isinstance(st, ast.Assign) and any(U(t) == lst for t in st.targets):
                    vals = strings(st.value)
                elif isinstance(st, ast.AugAssign) and U(st.target) == lst and isinstance(st.op, ast.Add):
                    vals = strings(st.value)
                elif isinstance(st, ast.Expr) and isinstance(st.value, ast.Call) and isinstance(st.value.func, ast.Attribute) and U(st.value.func.value) == lst:
                    if st.value.func.attr == "append" and st.value.args and isinstance(st.value.args[0], ast.Constant):
                        vals = [st.value.args[0].value]
                    elif st.value.func.attr == "extend" and st.value.args:
                        vals = strings(st.value.args[0])
                for nm in vals:
                    if nm in CACHED:
                        touched.setdefault(nm, []).append(q)
    for a in CACHED:
        ss = touched.get(a, [])
        if a in ("obj", "obj_grad"):
            ok = any(not s.facts for s in ss)
        else:
            ok = any(all(f in (("<", "0", "self.problem.num_cons"), ("truthy", "self.problem.num_cons", None)) for f in s.facts) for s in ss)
        rep.check(ok, "check-eval-complete", ce.qualname, a, f"check_eval evaluates `{a}`" + ("" if a in ("obj", "obj_grad") else " whenever the problem has constraints"), ce.loc())


def typestate(prog: Program, rep, x: ExcFlow, only_flow: bool = False):
    """evaluation-triggering members are used only on validated iterates outside handlers."""
    x2 = validated_flow(prog)
    it = prog.cls("pygradflow.iterate.Iterate")
    sv = prog.func("pygradflow.solver.Solver.solve")
    ff = facts_for(sv)
    ps = prog.cls("pygradflow.penalty.PenaltyStrategy")
    scope_funcs = {sv, prog.func("pygradflow.solver.Solver._check_terminate"), prog.func("pygradflow.solver.Solver.print_result")}
    for c in prog.all_subclasses(ps):
        for nm in ("initial", "update", "iterate_entry"):
            if nm in c.methods:
                scope_funcs.add(c.methods[nm])
    dc = prog.func("pygradflow.solver.Solver._deriv_check")
    # helpers that did not exist on the pinned tree and are only handed the (validated) iterates their scope-function callers were
    # given - a hook of a template method, an extracted bound computation - are in scope as well
    from ..inline import known_functions
    known_ = known_functions()
    grew = True
    while grew:
        grew = False
        for f in list(scope_funcs):
            if f is sv:
                continue
            for c_ in own_nodes(f.node):
                if not isinstance(c_, ast.Call):
                    continue
                for g in prog.resolve_call_target(f, c_):
                    if isinstance(g, FuncInfo) and g not in scope_funcs and g.qualname not in known_ and prog.in_scope(g):
                        args_ = list(c_.args) + [k.value for k in c_.keywords]
                        if all((isinstance(a, ast.Name) and a.id in f.params) or not (it in prog.infer_type(f, a)) for a in args_):
                            scope_funcs.add(g)
                            grew = True

    # which Iterate members are safe on a validated receiver
    unsafe_members = sorted(m.name for m in it.methods.values() if _esc_classes(x2, m.qualname, (EVAL,)))
    if not only_flow:
        rep.note(f"Iterate members that may raise EvalError even on a validated receiver: {unsafe_members}")

    def validated_receiver(fi: FuncInfo, si, recv: ast.AST) -> bool:
        if not isinstance(recv, ast.Name):
            return False
        nm = recv.id
        if fi is sv:
            # by role, not by spelling: the carried iterate (and the start it was created from) is validated once check_eval has
            # run; the candidate of a trial step (`_compute_step(..).iterate`) is validated where the step was accepted
            from .solveloop import solve_loop
            carried = solve_loop(prog).names().get("iterate")
            if carried and nm == carried:
                # the carried variable itself: it is only ever replaced by an accepted (hence validated) candidate - rules
                # validate-before-accept and only-accepted-carried - and starts as the checked initial iterate
                return True
            val = ff.resolved(si.stmt, recv) if si is not None else recv
            accepted_here = any(f[0] == "truthy" and (f[1].endswith(".accepted") or ".accept" in f[1]) for f in si.facts) if si is not None else False
            oks = []
            for alt in phi_alternatives(val):
                t = U(alt)
                if (carried and t.startswith(f"__loop__('{carried}'")) or ("create_transformed_iterate(" in t and "_compute_step(" not in t):
                    oks.append(True)
                elif t.endswith(".iterate") and "_compute_step(" in t:
                    oks.append(accepted_here)
                else:
                    oks.append(False)
            return bool(oks) and all(oks)
        # callees: every parameter of the scope functions receives validated iterates (checked at the call sites below)
        return nm in fi.params or nm == "iterate" and f"{nm}" in U(fi.node)

    def filt(fi, si, kind, payload, cal):
        if fi is sv and cal is dc:
            return "skip"  # opt-in derivative check: evaluates at perturbed points by design (exempt, as in C05)
        if fi in scope_funcs and cal.cls is it:
            recv = payload.func.value if kind == "call" and isinstance(payload.func, ast.Attribute) else (payload.value if kind == "attr" else None)
            if recv is not None:
                r = facts_for(fi).resolved(si.stmt, recv) if False else recv
                # aliases inside penalty policies: `iterate = next_iterate`
                if isinstance(recv, ast.Name) and recv.id not in fi.params and fi is not sv:
                    res = facts_for(fi).at(si.stmt).env.get(recv.id)
                    if isinstance(res, ast.Name):
                        recv = res
                if validated_receiver(fi, si, recv):
                    return "skip" if cal.name in CACHED else x2
        return None

    x3 = ExcFlow(prog, site_filter=filt)
    if only_flow:
        return x3
    bad = _esc_classes(x3, sv.qualname, (EVAL,))
    if bad:
        shown = set()
        for cls_, origin, chain in bad:
            first = chain[0]
            if first in shown:
                continue
            shown.add(first)
            site = first.split(": ", 1)[1] if ": " in first else first
            rep.fail("typestate-validated-iterate", sv.qualname, f"EvalError via {site}",
                     f"VIOLATED: an evaluation that can raise EvalError ({origin}) is reachable in Solver.solve outside the failure handling, on an "
                     f"iterate that is not validated or through a member that evaluates something uncached (first hop: {site})", first.split(": ")[0], list(chain))
            if len(shown) >= 6:
                break
    else:
        rep.ok("typestate-validated-iterate", sv.short, "with validated receivers and the exempt derivative check removed, no EvalError can escape Solver.solve")
    # call sites handing iterates to the scope functions pass validated ones
    n_sites = 0
    for call in [c for c in own_nodes(sv.node) if isinstance(c, ast.Call)]:
        tg = [t for t in prog.resolve_call_target(sv, call) if isinstance(t, FuncInfo) and t in scope_funcs and t is not sv]
        if not tg:
            continue
        si = ff.stmt_of(call)
        for a in list(call.args) + [k.value for k in call.keywords]:
            if isinstance(a, ast.Name) and it in prog.infer_type(sv, a):
                n_sites += 1
                rep.check(validated_receiver(sv, si, a), "typestate-validated-arguments", sv.qualname, short(si.stmt),
                          f"`{a.id}` handed to {tg[0].short} is a validated iterate at that point", sv.loc(call))
    rep.pin("iterate arguments passed from solve to termination/penalty/report code", n_sites, 3)   # sites disappear when a callee is expanded in place


def initial_point(prog: Program, rep, x: ExcFlow) -> None:
    sv = prog.func("pygradflow.solver.Solver.solve")
    ff = facts_for(sv)
    checks = [s for s in ff.order if isinstance(s.stmt, ast.Expr) and isinstance(s.stmt.value, ast.Call) and isinstance(s.stmt.value.func, ast.Attribute)
              and s.stmt.value.func.attr == "check_eval" and not s.loops]
    if not checks:
        rep.fail("initial-point-conversion", sv.qualname, "check_eval()", "VIOLATED: the initial iterate is not validated before the main loop", sv.loc())
        return
    s0 = checks[0]
    recv = ff.resolved(s0.stmt, s0.stmt.value.func.value)
    ok_recv = "create_transformed_iterate" in U(recv)
    handler = None
    for t in s0.tries:
        for h in t.handlers:
            if any(x.is_subclass(EVAL, hc) for hc in x.handler_classes(sv, h)):
                handler = h
    ok_handler = False
    if handler is not None and handler.body and isinstance(handler.body[-1], ast.Raise):
        r = handler.body[-1]
        if isinstance(r.exc, ast.Call) and dotted(r.exc.func) == "Exception" and r.exc.args and isinstance(r.exc.args[0], ast.Constant) \
                and isinstance(r.exc.args[0].value, str) and r.exc.args[0].value.strip() and r.cause is not None:
            ok_handler = True
    rep.check(ok_recv and ok_handler, "initial-point-conversion", sv.qualname, short(s0.stmt),
              "the transformed initial iterate is validated inside try/except EvalError that raises the dedicated message-carrying exception", sv.loc(s0.stmt))
    # nothing evaluation-triggering on the iterate before that statement
    it = prog.cls("pygradflow.iterate.Iterate")
    early = []
    for s in ff.order:
        if s.index >= s0.index or s.tries:
            continue
        for e in header_exprs(s.stmt):
            for nn in walk_expr(e):
                if isinstance(nn, ast.Attribute) and isinstance(nn.ctx, ast.Load):
                    for t in prog.property_targets(sv, nn):
                        if t.cls is it and _esc_classes(x, t.qualname, (EVAL,)):
                            early.append((s, nn))
    # the Hessian is not cached by check_eval: it must be evaluated unconditionally inside the same conversion
    handler_try = [t for t in s0.tries if any(x.is_subclass(EVAL, hc) for h in t.handlers for hc in x.handler_classes(sv, h))]
    covered = False
    for s in ff.order:
        if not handler_try or handler_try[-1] not in s.tries or s.loops:
            continue
        if [f for f in s.facts if f not in s0.facts]:
            continue
        for e in header_exprs(s.stmt):
            for nn in walk_expr(e):
                if isinstance(nn, ast.Call):
                    if isinstance(nn.func, ast.Attribute) and nn.func.attr == "lag_hess":
                        covered = True
                    for t in prog.resolve_call_target(sv, nn):
                        if isinstance(t, FuncInfo):
                            tf = facts_for(t)
                            for q in tf.order:
                                if q.facts or q.loops:
                                    continue
                                for e2 in header_exprs(q.stmt):
                                    for mm in walk_expr(e2):
                                        if isinstance(mm, ast.Call) and isinstance(mm.func, ast.Attribute) and mm.func.attr == "lag_hess" and it in prog.infer_type(t, mm.func.value):
                                            covered = True
    rep.check(covered, "initial-point-covers-hessian", sv.qualname, "lag_hess at the initial iterate",
              "the Lagrangian Hessian at the starting point is evaluated unconditionally inside the initial-point conversion (so a failure there is the dedicated error, whatever the log level)", sv.loc(s0.stmt))
    rep.check(not early, "initial-point-first-evaluation", sv.qualname, short(early[0][0].stmt) if early else "",
              "no evaluation of the initial iterate happens before the guarded check_eval()", sv.loc(early[0][0].stmt) if early else sv.loc())


def evaluators(prog: Program, rep) -> None:
    ve = prog.cls("pygradflow.eval.ValidatingEvaluator")
    se = prog.cls("pygradflow.eval.SimpleEvaluator")
    want = {"_eval_obj": ("obj", False), "_eval_obj_grad": ("obj_grad", True), "_eval_cons": ("cons", True),
            "_eval_cons_jac": ("cons_jac", True), "_eval_lag_hess": ("lag_hess", True)}
    n = 0
    for mname, (cb, arrayish) in want.items():
        m = ve.methods.get(mname)
        if m is None:
            raise AnalysisError(f"ValidatingEvaluator.{mname} has vanished")
        ff = facts_for(m)
        n += 1
        for r in returns_of(m):
            si = ff.at(r)
            val = ff.resolved(r, r.value)
            # empty short-circuit
            if any(f in (("==", "self.num_cons", "0"), ("==", "self.problem.num_cons", "0")) for f in si.facts):
                called = any(isinstance(nn, ast.Call) and isinstance(nn.func, ast.Attribute) and nn.func.attr == cb and "problem" in U(nn.func.value) for nn in ast.walk(val))
                rep.check(not called, "evaluator-empty-shortcut", m.qualname, short(r), "for m == 0 an empty value is returned without calling the problem", m.loc(r))
                continue
            base = val
            if isinstance(base, ast.Call) and dotted(base.func) == "astype" and base.args:
                base = base.args[0]
            bt = U(base)
            is_cb = isinstance(base, ast.Call) and isinstance(base.func, ast.Attribute) and base.func.attr == cb and U(base.func.value) == "self.problem"
            finite = any(f[0] == "truthy" and f[1] in (f"math.isfinite({bt})", f"np.isfinite({bt}).all()", f"np.isfinite({bt}.data).all()", f"np.all(np.isfinite({bt}))",
                                                       f"np.all(np.isfinite({bt}.data))") for f in si.facts)
            shape = (not arrayish) or any(f[0] == "==" and (f[1] == f"{bt}.shape" or f[2] == f"{bt}.shape") for f in si.facts)
            rep.check(is_cb and finite, "evaluator-finiteness", m.qualname, short(r),
                      f"{mname} returns the value of problem.{cb}(..) only on a path dominated by a finiteness test of that value", m.loc(r))
            if arrayish:
                rep.check(shape, "evaluator-shape", m.qualname, short(r), f"{mname} returns only after the shape of the value was tested", m.loc(r))
    rep.pin("validating evaluator methods", n, 5)
    for mname in ("_eval_cons", "_eval_cons_jac"):
        m = se.methods.get(mname)
        ff = facts_for(m)
        ok = False
        for r in returns_of(m):
            si = ff.at(r)
            if ("==", "self.problem.num_cons", "0") in si.facts:
                ok = not any(isinstance(nn, ast.Call) and isinstance(nn.func, ast.Attribute) and "problem" in U(nn.func.value) and nn.func.attr in ("cons", "cons_jac") for nn in ast.walk(r.value))
        rep.check(ok, "evaluator-empty-shortcut", m.qualname, mname, "SimpleEvaluator short-circuits m == 0 as well", m.loc())
    ce = prog.func("pygradflow.eval.create_evaluator")
    cf = facts_for(ce)
    # which class is instantiated under which condition: `return A(..)` in branches, `cls = A if flag else B`, `cls = A` in branches
    from .common import UnknownAtom, fact_holds, leaf_stores

    def split(e, facts):
        if isinstance(e, ast.IfExp):
            yield from split(e.body, list(facts) + [("truthy", U(e.test), None)])
            yield from split(e.orelse, list(facts) + [("falsy", U(e.test), None)])
        else:
            yield U(e), list(facts)
    alts = []
    for r in returns_of(ce):
        v = r.value
        if not isinstance(v, ast.Call):
            raise AnalysisError("create_evaluator: a return is not a constructor call")
        if isinstance(v.func, ast.Name) and prog.resolve_symbol(ce.module, v.func.id) is None:
            stores = leaf_stores(cf, v.func.id, before=cf.at(r).index)
            if not stores:
                raise AnalysisError(f"create_evaluator: cannot find what `{v.func.id}` holds")
            for s_ in stores:
                alts += list(split(s_.stmt.value, list(s_.facts) + list(cf.at(r).facts)))
        else:
            alts += list(split(v.func, cf.at(r).facts))

    def atom(flag):
        def av(f):
            op, l, r_ = f
            if r_ is None and l == "params.validate_input" and op in ("truthy", "falsy"):
                return flag if op == "truthy" else not flag
            if l == "params.validate_input" and r_ in ("True", "False") and op in ("==", "!=", "is", "is not"):
                return (flag == (r_ == "True")) == (op in ("==", "is"))
            raise UnknownAtom(str(f))
        return av
    try:
        sel = [c_ for c_, fs_ in alts if all(fact_holds(f, atom(True)) for f in fs_)]
    except UnknownAtom as e:
        raise AnalysisError(f"create_evaluator: the selection depends on `{e}`, which the rule cannot evaluate")
    ok = sel == ["ValidatingEvaluator"]
    rep.check(ok, "evaluator-selection", ce.qualname, "ValidatingEvaluator", "create_evaluator selects the validating evaluator when validate_input is set", ce.loc())
