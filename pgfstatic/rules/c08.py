"""C08 - stopping early returns exactly a prefix (limits only gate control flow)."""
from __future__ import annotations

import ast
from typing import Dict, List, Optional

from ..excflow import ExcFlow
from ..model import AnalysisError, FuncInfo, Program, dotted, own_nodes, unparse
from ..symex import always_leaves, atoms_of, facts_for
from .common import U, bind_args, const_value, enum_member, is_self_attr, kwarg, parent_map, returns_of, short
from .solveloop import is_method_call, solve_loop
from . import c02, c07, c18

EXPLANATION = (
    "Bit-identical prefixes follow from three structural facts (plus C10's determinism), which are decided: (1) the limits only "
    "gate control flow - params.iteration_limit is read only in termination tests, params.time_limit only to build the Timer, and "
    "the value of every Timer method call is used only as an if-test whose branch leaves by `return <status>` / `raise "
    "StepSolverError` or as the reported total_time; (2) the termination test is the first action of each loop iteration and "
    "leaves before any state change (shared with C02); (3) only accepted points are carried: `iterate` is replaced only under the "
    "post-veto acceptance and everything in the result derives from it, never from the trial step; (4) the mid-step deadline "
    "raises StepSolverError, which compute_step turns into a non-accepted failure result (C07 rules)."
)

TIMER_METHODS = ("reached_time_limit", "remaining", "elapsed")


def run(prog: Program, rep, tier: str) -> None:
    rep.explanation = EXPLANATION
    rep.assumptions += ["time.time() is monotone", "numpy/scipy kernels are deterministic (C10)"]
    limits_gate_control(prog, rep)
    c02.accounting(prog, rep)
    c02.integration_accounting(prog, rep)
    c02.callees(prog, _TimerOnly(rep))
    only_accepted_carried(prog, rep)
    # mid-step deadline => failed step
    x = ExcFlow(prog)
    cs = prog.func("pygradflow.step.step_control.StepController.compute_step")
    bad = [e for e in x.escapes(cs.qualname) if x.is_subclass(e[0], c07.SSE)]
    rep.check(not bad, "deadline-is-failed-step", cs.qualname, "escape of StepSolverError",
              "the StepSolverError raised at the mid-step deadline cannot escape compute_step", cs.loc(), list(bad[0][2]) if bad else None)
    c07.failure_result(prog, rep, x)
    # identical trial steps also need fresh controller / penalty state in every solve (C10.3)
    from . import c10
    c10.per_solve(prog, rep)


class _TimerOnly:
    """forward only the timer rules of C02 (a deadline must be a deadline for the prefix property to make sense)."""

    def __init__(self, rep):
        self.rep = rep
        self.extra = rep.extra

    def ok(self, rule, *a, **k):
        if rule == "timer":
            self.rep.ok(rule, *a, **k)

    def fail(self, rule, *a, **k):
        if rule == "timer":
            self.rep.fail(rule, *a, **k)

    def check(self, cond, rule, *a, **k):
        if rule == "timer":
            return self.rep.check(cond, rule, *a, **k)
        return cond

    def note(self, t):
        pass

    def pin(self, *a):
        pass


def limits_gate_control(prog: Program, rep) -> None:
    n_reads = 0
    for fi in prog.iter_functions():
        if not prog.in_scope(fi):
            continue
        pm = None
        for n in own_nodes(fi.node):
            if isinstance(n, ast.Attribute) and n.attr in ("iteration_limit", "time_limit") and isinstance(n.ctx, ast.Load):
                # receiver must be a Params
                tp = prog.infer_type(fi, n.value)
                if not any(t.qualname == "pygradflow.params.Params" for t in tp) and not U(n.value).endswith("params"):
                    continue
                n_reads += 1
                pm = pm or parent_map(fi.node)
                if n.attr == "iteration_limit":
                    ok = fi.qualname in ("pygradflow.solver.Solver._check_terminate", "pygradflow.integration.integration_solver.IntegrationSolver.solve")
                    # and only inside an if-test
                    par = pm.get(id(n))
                    while par is not None and not isinstance(par, ast.stmt):
                        par = pm.get(id(par))
                    in_test = isinstance(par, ast.If) and any(m is n for m in ast.walk(par.test))
                    if not in_test and isinstance(par, ast.Assign) and len(par.targets) == 1 and isinstance(par.targets[0], ast.Name) and par.value is n:
                        # a temporary: every use of it must be inside an if-test
                        nm = par.targets[0].id
                        uses = [m for m in own_nodes(fi.node) if isinstance(m, ast.Name) and m.id == nm and isinstance(m.ctx, ast.Load)]
                        def _in_if_test(m):
                            q = pm.get(id(m))
                            while q is not None and not isinstance(q, ast.stmt):
                                q = pm.get(id(q))
                            return isinstance(q, ast.If) and any(z is m for z in ast.walk(q.test))
                        in_test = bool(uses) and all(_in_if_test(m) for m in uses)
                    ok = ok and in_test
                    rep.check(ok, "limit-only-gates-control", fi.qualname, short(par) if par is not None else U(n),
                              "params.iteration_limit is read only inside a termination test", fi.loc(n))
                else:
                    par = pm.get(id(n))
                    ok = isinstance(par, ast.Call) and dotted(par.func) == "Timer" and par.args and par.args[0] is n
                    rep.check(ok, "limit-only-gates-control", fi.qualname, U(par) if par is not None else U(n),
                              "params.time_limit is read only to construct the Timer", fi.loc(n))
    rep.pin("reads of the two limits", n_reads, 3)
    # Timer method calls
    n_calls = 0
    for fi in prog.iter_functions():
        if not prog.in_scope(fi) or fi.module.name == "pygradflow.timer":
            continue
        pm = None
        ff = None
        for n in own_nodes(fi.node):
            if not (isinstance(n, ast.Call) and isinstance(n.func, ast.Attribute) and n.func.attr in TIMER_METHODS):
                continue
            tp = prog.infer_type(fi, n.func.value)
            if not any(t.qualname in ("pygradflow.timer.Timer",) for t in tp):
                continue  # Display's private SimpleTimer is observer state (C09)
            n_calls += 1
            pm = pm or parent_map(fi.node)
            ff = ff or facts_for(fi)
            par = pm.get(id(n))
            ok = False
            why = ""
            # `if reached: <limit branch>` or `if not reached: pass  else: <limit branch>`
            limit_body = other_body = None
            if isinstance(par, ast.If) and par.test is n:
                limit_body, other_body = par.body, par.orelse
            elif isinstance(par, ast.UnaryOp) and isinstance(par.op, ast.Not) and isinstance(pm.get(id(par)), ast.If) and pm.get(id(par)).test is par:
                par = pm.get(id(par))
                limit_body, other_body = par.orelse, par.body
            if limit_body:
                leaves = always_leaves(limit_body)
                last = limit_body[-1]
                if isinstance(last, ast.Return):
                    st = enum_member(prog, fi, last.value, "pygradflow.status.SolverStatus") if last.value is not None else None
                    ok = st == "TimeLimit"
                    why = f"returns {st}"
                elif isinstance(last, ast.Raise):
                    cn = dotted(last.exc.func if isinstance(last.exc, ast.Call) else last.exc) if last.exc is not None else None
                    ok = cn == "StepSolverError"
                    why = f"raises {cn}"
                elif isinstance(last, ast.Break):
                    # integration solver: status = TimeLimit; break
                    ok = any(isinstance(s, ast.Assign) and enum_member(prog, fi, s.value, "pygradflow.status.SolverStatus") == "TimeLimit" for s in limit_body)
                    why = "sets status TimeLimit and leaves the loop"
                ok = ok and leaves        # the other branch is the ordinary continuation, whatever it contains
                if not ok:
                    # single-exit style: the branch only logs and assigns TimeLimit to the variable the function returns
                    from .common import value_sites
                    sites = {id(s_) for s_, _ in value_sites(fi, ff)}
                    # ... or to the variable handed to SolverResult as the status; other locals may be cleared (`x = None`)
                    from .common import bind_args as _bind
                    status_vars = set()
                    for c_ in own_nodes(fi.node):
                        if isinstance(c_, ast.Call) and dotted(c_.func) == "SolverResult":
                            b_ = _bind(prog.func("pygradflow.result.SolverResult.__init__"), c_)
                            if b_ and isinstance(b_.get("status"), ast.Name):
                                status_vars.add(b_["status"].id)

                    def sets_limit(s):
                        return isinstance(s, ast.Assign) and (id(s) in sites or (len(s.targets) == 1 and isinstance(s.targets[0], ast.Name) and s.targets[0].id in status_vars)) \
                            and enum_member(prog, fi, s.value, "pygradflow.status.SolverStatus") == "TimeLimit"
                    body_ok = all((isinstance(s, ast.Expr) and isinstance(s.value, ast.Call) and (dotted(s.value.func) or "").startswith("logger.")) or sets_limit(s) or
                                  (isinstance(s, ast.Assign) and len(s.targets) == 1 and isinstance(s.targets[0], ast.Name) and isinstance(s.value, ast.Constant) and s.value.value is None)
                                  for s in limit_body)
                    if body_ok and any(sets_limit(s) for s in limit_body):
                        ok, why = True, "assigns TimeLimit to the returned status"
            elif isinstance(par, ast.Assign) and len(par.targets) == 1 and isinstance(par.targets[0], ast.Name) and n.func.attr == "elapsed":
                name = par.targets[0].id
                uses = [m for m in own_nodes(fi.node) if isinstance(m, ast.Name) and m.id == name and isinstance(m.ctx, ast.Load)]
                ok = True
                for u_ in uses:
                    up = pm.get(id(u_))
                    if isinstance(up, ast.keyword) and up.arg == "total_time":
                        continue
                    if isinstance(up, ast.Call) and (U(up.func).endswith("print_result") or dotted(up.func) == "SolverResult"):
                        continue
                    ok = False
                why = f"`{name}` flows only into the report / result field total_time"
            rep.check(ok, "timer-only-gates-control", fi.qualname, short(par) if isinstance(par, ast.stmt) else U(n),
                      f"the value of {U(n)} only decides a TimeLimit return / a StepSolverError raise, or is the reported total time ({why})", fi.loc(n))
    rep.pin("Timer method call sites", n_calls, 4)


def only_accepted_carried(prog: Program, rep) -> None:
    L = solve_loop(prog)
    sv, ff = L.fi, L.ff
    name = L.names()["iterate"]
    if name is None:
        raise AnalysisError("Solver.solve: cannot identify the carried iterate (the iterate argument of _compute_step)")
    c18.veto(prog, rep, "only-accepted-carried")
    stores = L.stores_in_loop(name)
    rep.check(len(stores) == 1, "only-accepted-carried", sv.qualname, f"{name} = ...", f"the carried iterate has exactly one definition inside the loop (found {len(stores)})", sv.loc(L.loop))
    d0 = L.last_def_before_loop(name)
    rep.check(d0 is not None and "create_transformed_iterate" in U(ff.resolved(d0.stmt, d0.stmt.value)), "only-accepted-carried", sv.qualname, short(d0.stmt) if d0 else "",
              "the first iterate is the transformed starting point", sv.loc(d0.stmt) if d0 else sv.loc())
    # nothing after the loop derives from the trial step
    after = [s for s in ff.order if s.index > L.loop_si.index and not L.in_loop(s)]
    leaks = []
    for s in after:
        st = s.stmt
        if isinstance(st, (ast.If, ast.While, ast.For, ast.Try, ast.With)):
            continue
        for n in ast.walk(st):
            if isinstance(n, ast.Name) and isinstance(n.ctx, ast.Load):
                r = U(ff.resolved(st, n))
                if "_compute_step(" in r and not r.startswith("__loop__"):
                    leaks.append((s, n.id))
    rep.check(not leaks, "only-accepted-carried", sv.qualname, short(leaks[0][0].stmt) if leaks else "",
              f"nothing computed after the loop reads a value of the trial step (leaks: {[l[1] for l in leaks][:4]})", sv.loc(leaks[0][0].stmt) if leaks else sv.loc())
    rep.pin("statements after the main loop", len(after), 8)
    # the recorded path (part of the result) grows only by accepted candidates, after the policy's veto
    uses_cp = any(isinstance(n, ast.Attribute) and n.attr == "collect_path" for n in own_nodes(sv.node))
    ups = L.recorder_updates()
    if uses_cp and not ups:
        raise AnalysisError("Solver.solve reads params.collect_path, but no statement of the main loop extends a path list / recorder bound under that option "
                            "(path recording is not in a recognised form)")
    for s in ups:
        rep.check(L.post_veto_fact(s), "only-accepted-carried", sv.qualname, short(s.stmt),
                  "the recorded path / model times are extended only under the post-veto acceptance (no vetoed or rejected trial point reaches result.path)", sv.loc(s.stmt))
