"""C19 - the derivative checker: non-interference, pinpoint wiring, coverage of the three derivative kinds."""
from __future__ import annotations

import ast
from typing import Dict, List, Optional

from ..model import AnalysisError, FuncInfo, Program, dotted, own_nodes, unparse
from ..symex import atoms_of, facts_for, phi_alternatives
from .common import U, bind_args, const_value, enum_member, is_self_attr, kwarg, np_call, returns_of, short

EXPLANATION_EXTRA = (" The derivative check is applied to the transformed problem; that the scaling / slack wrappers keep function, gradient/Jacobian "
                     "and Hessian mutually consistent (so that a correct user problem is not rejected) is decided by forwarding C04's exponent "
                     "and slack-derivative rules.")
EXPLANATION = (
    "Acceptance of all correct derivatives and rejection above tolerance depend on finite-difference error and are not decided.  "
    "Decided: (1) non-interference - deriv_check and Solver._deriv_check store only to locals, the perturbed point is a copy of the "
    "start point and is the only array written, the call in solve() is a bare statement whose result is unused, it runs before the "
    "main loop and before the Timer is created (so it neither changes state nor consumes the time budget); (2) pinpoint wiring - one "
    "loop index perturbs xtest[i], selects dval[:, i] and is reported as the column; the perturbation is undone with the same step on "
    "the non-raising path; the quotient uses the same step; the trigger is np.allclose(expected, actual, atol=tol) and the diagnosis "
    "in DerivError is np.isclose on the same triple in the same argument order, so the reported rows are exactly the entries that "
    "triggered; (3) coverage - CheckFirst checks obj against obj_grad and cons against cons_jac, CheckSecond checks x -> obj_grad(x) + "
    "cons_jac(x)'y against lag_hess(x, y) with the same y and with every function evaluated at the lambda's own argument; NoCheck "
    "returns before any evaluation."
)


def run(prog: Program, rep, tier: str) -> None:
    rep.explanation = EXPLANATION + EXPLANATION_EXTRA
    dc = prog.func("pygradflow.deriv_check.deriv_check")
    sd = prog.func("pygradflow.solver.Solver._deriv_check")
    sv = prog.func("pygradflow.solver.Solver.solve")
    non_interference(prog, rep, dc, sd, sv)
    wiring(prog, rep, dc)
    coverage(prog, rep, sd)
    evaluator_passthrough(prog, rep)
    evaluator_memoryless(prog, rep)
    # the check runs on the TRANSFORMED problem (scaled, slacks added): a correct user problem passes only if the wrapper scales
    # value, first and second derivative consistently - C04's exponent / slack-derivative agreement rules on the same constructs
    from . import c04
    from .c01 import _SubReport
    sub = _SubReport(rep, keep=("scaling-exponents", "scaled-problem-exponents", "slack-jacobian", "slack-padding", "slack-cons"))
    c04.run(prog, sub, "quick")
    # ... and evaluates the callbacks repeatedly at perturbed points: a wrapper that writes into what a callback returned makes the
    # second evaluation differ from the first for a problem that hands out a stored matrix, and exact derivatives are rejected
    c04.callback_results_kept(prog, rep)


def evaluator_passthrough(prog, rep) -> None:
    """the derivative check obtains f and its derivative through the evaluator: what the evaluator returns must be the
    callback's own value (cast to the working dtype at most) - not a transformed, transposed or re-assembled copy - or the
    reported rows / columns are not those of the user's derivative."""
    n = 0
    for cname in ("SimpleEvaluator", "ValidatingEvaluator"):
        c = prog.cls(f"pygradflow.eval.{cname}")
        for mname, cb in (("_eval_obj", "obj"), ("_eval_obj_grad", "obj_grad"), ("_eval_cons", "cons"), ("_eval_cons_jac", "cons_jac"), ("_eval_lag_hess", "lag_hess")):
            m = c.methods.get(mname)
            if m is None:
                raise AnalysisError(f"{cname}.{mname} has vanished")
            ff = facts_for(m)
            ps = [p for p in m.params if p != "self"]
            want = f"self.problem.{cb}({', '.join(ps)})"
            for r in returns_of(m):
                v = U(ff.resolved(r, r.value))
                empty = any(f[0] == "==" and f[2] == "0" and f[1].endswith("num_cons") for f in ff.at(r).facts)
                if empty:
                    continue   # the constant result for a problem without constraints
                n += 1
                rep.check(v in (want, f"astype({want}, self.dtype)"), "check-sees-user-values", m.qualname, short(r),
                          f"{cname}.{mname} hands on the value of problem.{cb} itself, cast to the working dtype at most (found {v[:90]})", m.loc(r))
    rep.pin("evaluator returns handing on callback values", n, 10)


def evaluator_memoryless(prog, rep) -> None:
    """Evaluator.obj / obj_grad / cons / cons_jac / lag_hess are functions of their arguments: every value they can return is the
    value of the matching `_eval_*` call on the method's own arguments, made in this call (counting evaluations on the way is
    fine).  A memo, a cache keyed on part of the arguments, or a remembered previous value makes what the solver sees depend on
    the evaluation history instead of on (x, y)."""
    from .common import value_sites
    ev = prog.cls("pygradflow.eval.Evaluator")
    n = 0
    pending = []
    for name in ("obj", "obj_grad", "cons", "cons_jac", "lag_hess"):
        m = ev.methods.get(name)
        if m is None:
            raise AnalysisError(f"Evaluator.{name} has vanished")
        ff = facts_for(m)
        ps = [p for p in m.params if p != "self"]
        want = f"self._eval_{name}({', '.join(ps)})"
        undecided = None
        for st, e in value_sites(m, ff):
            n += 1
            rv = ff.resolved(st, e)
            v = U(rv)
            if v == want:
                rep.ok("evaluator-is-memoryless", m.short, f"{short(st, 60)}: the value of {want} computed in this call")
                continue
            # a value that was not computed in this call: certainly wrong if it cannot depend on one of the arguments (a memo keyed
            # on part of them); otherwise whether the remembered value belongs to these arguments is not decidable here
            used = {k.id for k in ast.walk(rv) if isinstance(k, ast.Name)}
            missing = [p_ for p_ in ps if p_ not in used]
            if missing:
                rep.fail("evaluator-is-memoryless", m.qualname, short(st), f"VIOLATED: Evaluator.{name} can return `{v[:70]}`, a value that was not computed in this call and "
                         f"does not depend on the argument(s) {missing}: the result for a new {missing[0]} is the one remembered for an earlier {missing[0]}", m.loc(st))
            else:
                undecided = undecided or f"Evaluator.{name} can return `{v[:70]}`, a value not computed in this call (memoised evaluator): whether it belongs to the given arguments cannot be decided"
        if undecided:
            pending.append(undecided)
        for c in prog.all_subclasses(ev, include_self=False):
            if name in c.methods:
                rep.fail("evaluator-is-memoryless", c.methods[name].qualname, name, f"VIOLATED: {c.name} overrides Evaluator.{name} (the rules look at `_eval_{name}` only)", c.methods[name].loc())
    rep.pin("evaluator entry points returning their own _eval_* value", n, 5)
    if pending:
        raise AnalysisError(pending[0])


def non_interference(prog, rep, dc: FuncInfo, sd: FuncInfo, sv: FuncInfo) -> None:
    for f in (dc, sd):
        bad = [n for n in own_nodes(f.node) if isinstance(n, ast.Attribute) and isinstance(n.ctx, (ast.Store, ast.Del))]
        bad += [n for n in own_nodes(f.node) if isinstance(n, (ast.Global, ast.Nonlocal))]
        rep.check(not bad, "check-stores-only-locals", f.qualname, U(bad[0]) if bad else f.name, f"{f.name} writes no attribute of any object (only locals)", f.loc(bad[0]) if bad else f.loc())
    # the only array written in deriv_check is a copy of the start point
    ff = facts_for(dc)
    xval = dc.params[1]
    written = set()
    for s in ff.order:
        st = s.stmt
        tg = []
        if isinstance(st, ast.Assign):
            tg = st.targets
        elif isinstance(st, ast.AugAssign):
            tg = [st.target]
        for t in tg:
            if isinstance(t, ast.Subscript):
                written.add(U(t.value))
        for n in ast.walk(st) if not isinstance(st, (ast.For, ast.If, ast.While, ast.Try, ast.With)) else []:
            if isinstance(n, ast.keyword) and n.arg == "out":
                written.add(U(n.value))
    defs = {}
    for s in ff.order:
        if isinstance(s.stmt, ast.Assign) and len(s.stmt.targets) == 1 and isinstance(s.stmt.targets[0], ast.Name) and not s.loops:
            defs.setdefault(s.stmt.targets[0].id, []).append(s)
    if not written:
        # the perturbation is not an in-place update of a local array in this function (moved into a generator / helper object the
        # rules do not read): nothing can be said about what is perturbed
        raise AnalysisError("deriv_check: no in-place perturbation `x[i] += eps` found in the function (finite differences not in the recognised form)")
    ok = len(written) == 1
    name = next(iter(written)) if written else None
    if ok:
        d = defs.get(name, [])
        ok = len(d) == 1 and np_call(d[0].stmt.value, "copy") and U(d[0].stmt.value.args[0]) == xval
    rep.check(ok, "check-perturbs-a-copy", dc.qualname, f"{name}[i] += eps", f"the only array deriv_check writes is `{name}`, a np.copy of the start point (written: {sorted(written)})", dc.loc())
    # call site in solve
    fs = facts_for(sv)
    calls = [n for n in own_nodes(sv.node) if isinstance(n, ast.Call) and isinstance(n.func, ast.Attribute) and n.func.attr == "_deriv_check"]
    if len(calls) != 1:
        raise AnalysisError("Solver.solve does not call _deriv_check exactly once")
    si = fs.stmt_of(calls[0])
    rep.check(isinstance(si.stmt, ast.Expr) and si.stmt.value is calls[0] and not si.loops, "check-result-unused", sv.qualname, short(si.stmt),
              "the derivative check is a bare statement before the main loop; nothing it computes flows into the solve", sv.loc(calls[0]))
    a = [U(fs.resolved(si.stmt, z)) for z in calls[0].args]
    rep.check(len(a) == 2 and a[0].endswith(".x") and a[1].endswith(".y") and "create_transformed_iterate" in a[0], "check-result-unused", sv.qualname, short(si.stmt),
              "it is given the (read-only) x and y of the initial iterate", sv.loc(calls[0]))
    timers = [s for s in fs.order if isinstance(s.stmt, ast.Assign) and isinstance(s.stmt.value, ast.Call) and dotted(s.stmt.value.func) == "Timer"]
    rep.check(bool(timers) and all(t.index > si.index for t in timers), "check-before-timer", sv.qualname, short(timers[0].stmt) if timers else "Timer(...)",
              "the time budget starts after the derivative check, so the check cannot change when TimeLimit is reached", sv.loc(timers[0].stmt) if timers else sv.loc())
    # nothing in solve() that the algorithm reads may be (re)bound under a condition on the derivative-check option
    for q in fs.order:
        if not any("deriv_check" in (f[1] + (f[2] or "")) for f in q.facts):
            continue
        st = q.stmt
        if isinstance(st, (ast.If, ast.For, ast.While, ast.Try, ast.With)):
            continue
        stores = [n for n in ast.walk(st) if isinstance(n, (ast.Name, ast.Attribute, ast.Subscript)) and isinstance(getattr(n, "ctx", None), (ast.Store, ast.Del))]
        rep.check(not stores, "check-result-unused", sv.qualname, short(st),
                  "statements of solve() that depend on the derivative-check option bind nothing (the solve must start from the same iterate with and without the check)", sv.loc(st))
    # _deriv_check returns nothing
    rets = [r for r in returns_of(sd) if r.value is not None]
    rep.check(not rets, "check-result-unused", sd.qualname, "return", "_deriv_check returns nothing", sd.loc())


def wiring(prog, rep, dc: FuncInfo) -> None:
    ff = facts_for(dc)
    f_, xval, dval, pr = dc.params[:4]
    loops = [s for s in ff.order if isinstance(s.stmt, ast.For) and not s.loops]
    if len(loops) != 1:
        raise AnalysisError("deriv_check: expected a single loop over the variables")
    lp = loops[0].stmt
    if not (isinstance(lp.target, ast.Name) and isinstance(lp.iter, ast.Call) and dotted(lp.iter.func) == "range"):
        raise AnalysisError("deriv_check: loop is not `for i in range(n)`")
    i = lp.target.id
    body = [s for s in ff.order if lp in s.loops]
    eps_t = f"{pr}.deriv_pert"
    # perturb / undo
    augs = [s for s in body if isinstance(s.stmt, ast.AugAssign) and isinstance(s.stmt.target, ast.Subscript)]
    plus = [s for s in augs if isinstance(s.stmt.op, ast.Add)]
    minus = [s for s in augs if isinstance(s.stmt.op, ast.Sub)]
    ok = len(plus) == 1 and len(minus) >= 1 and all(U(plus[0].stmt.target) == U(m_.stmt.target) for m_ in minus) and U(plus[0].stmt.target.slice) == i \
        and U(ff.resolved(plus[0].stmt, plus[0].stmt.value)) == eps_t and all(U(ff.resolved(m_.stmt, m_.stmt.value)) == eps_t for m_ in minus)
    rep.check(ok, "pinpoint-perturbation", dc.qualname, short(plus[0].stmt) if plus else "xtest[i] += eps",
              "component i of the test point is perturbed by params.deriv_pert and restored by the same amount", dc.loc())
    xt = U(plus[0].stmt.target.value) if plus else None
    raises = [s for s in body if isinstance(s.stmt, ast.Raise)]
    if len(raises) != 1:
        raise AnalysisError("deriv_check: expected exactly one raise inside the loop")
    rs = raises[0]
    # undo happens on every path that continues with the next column: along each such path exactly one `+= eps` is followed
    # by exactly one `-= eps`
    from ..loopflow import block_paths
    ok_undo = bool(minus) and bool(plus)
    n_back = 0
    for pth in block_paths(lp.body):
        if pth.end not in ("fall", "continue"):
            continue
        n_back += 1
        seq = [("+" if isinstance(st_.op, ast.Add) else "-") for st_ in pth.stmts() if isinstance(st_, ast.AugAssign) and isinstance(st_.target, ast.Subscript)
               and isinstance(st_.op, (ast.Add, ast.Sub))]
        ok_undo = ok_undo and seq == ["+", "-"]
    ok_undo = ok_undo and n_back >= 1
    rep.check(ok_undo, "pinpoint-perturbation", dc.qualname, short(minus[0].stmt) if minus else "", "the perturbation is undone on the path that continues with the next column", dc.loc())
    exc = rs.stmt.exc
    if not (isinstance(exc, ast.Call) and dotted(exc.func) == "DerivError" and len(exc.args) == 4):
        raise AnalysisError("deriv_check: the raise is not DerivError(expected, actual, col, atol)")
    e_exp, e_act, e_col, e_tol = exc.args
    rep.check(U(e_col) == i, "pinpoint-column", dc.qualname, short(rs.stmt), "the reported column is the perturbed component", dc.loc(rs.stmt))
    # expected = dval[:, i] (dense or toarray'd), actual = (f(xtest) - f(xval)) / eps
    exp_r = ff.resolved(rs.stmt, e_exp)
    act_r = ff.resolved(rs.stmt, e_act)
    et = U(exp_r)
    i_res = U(ff.at(rs.stmt).env.get(i, ast.Name(id=i)))
    xt_res = U(ff.resolved(rs.stmt, ast.Name(id=xt, ctx=ast.Load()))) if xt else None
    ok_exp = (f"[:, {i}]" in et or f"[:, {i_res}]" in et) and ("tocsc()" in et or f"np.atleast_2d({dval})" in et)
    rep.check(ok_exp, "pinpoint-column", dc.qualname, short(rs.stmt), f"the expected values are column i of the supplied derivative (found {et[:110]})", dc.loc(rs.stmt))
    at = U(act_r)
    q = f"({f_}({xt_res}) - np.atleast_1d({f_}({xval}))) / {eps_t}"
    ok_act = q in at
    rep.check(ok_act, "pinpoint-quotient", dc.qualname, short(rs.stmt), f"the finite-difference value is (f(xtest) - f(x)) / deriv_pert with the same step (found {at[:130]})", dc.loc(rs.stmt))
    # trigger: not np.allclose(expected, actual, atol=tol)
    trig = [f for f in rs.facts if f not in loops[0].facts]
    tol_t = U(ff.resolved(rs.stmt, e_tol))
    want = f"np.allclose({et}, {at}, atol={tol_t})"
    ok_trig = ("falsy", want, None) in trig
    rep.check(ok_trig, "trigger-and-diagnosis-agree", dc.qualname, short(rs.stmt),
              f"the error is raised exactly when not np.allclose(expected, actual, atol=tol) for the triple that is reported (conditions: {[(t[0], t[1][:90]) for t in trig]})", dc.loc(rs.stmt))
    # diagnosis in DerivError
    de = prog.func("pygradflow.deriv_check.DerivError.__init__")
    fd = facts_for(de)
    pe, pa, pc, pt = [p for p in de.params if p != "self"][:4]
    last = fd.order[-1]
    env = dict(last.env)
    inv = env.get("self.invalid_indices")
    ok_diag = False
    if inv is not None:
        from .common import unitem
        t = U(unitem(inv))
        close = f"np.isclose({pe}, {pa}, atol={pt})"
        masks = (f"np.logical_not({close})", f"~{close}", f"np.invert({close})")
        ok_diag = t in {f"{fn}({m_})[0]" for fn in ("np.where", "np.nonzero") for m_ in masks}
    col = env.get("self.col_index")
    if col is None and isinstance(last.stmt, ast.Assign) and any(U(t_) == "self.col_index" for t_ in last.stmt.targets):
        col = fd.resolved(last.stmt, last.stmt.value)
    rep.check(ok_diag, "trigger-and-diagnosis-agree", de.qualname, "self.invalid_indices", f"the reported rows are where not np.isclose(expected, actual, atol=atol) - the element-wise form of the trigger, same argument order (found {U(inv)[:100] if inv is not None else None})", de.loc())
    rep.check(col is not None and U(col) == pc, "pinpoint-column", de.qualname, "self.col_index", "DerivError records the column it was given", de.loc())
    rep.pin("wiring obligations of deriv_check", 7, 7)


def coverage(prog, rep, sd: FuncInfo) -> None:
    """which (function, point, derivative) triples are handed to deriv_check, under which flag.  Everything is compared after
    resolution, so the point may be a parameter (`x`) or a member of an iterate parameter (`iterate.x`); the derivative may be
    evaluated through the evaluator at that point or be the iterate's own cached member (Iterate.<m> is evaluator.<m>(self.x))."""
    import copy as _copy
    from ..symex import resolve
    ff = facts_for(sd)
    calls = [n for n in own_nodes(sd.node) if isinstance(n, ast.Call) and dotted(n.func) == "deriv_check"]
    # a local wrapper `def check(func, deriv): deriv_check(func, x, deriv, params)`: its call sites are the checks
    wrappers = {}
    for d in [n for n in ast.walk(sd.node) if isinstance(n, ast.FunctionDef) and n is not sd.node]:
        b_ = [x for x in d.body if not (isinstance(x, ast.Expr) and isinstance(x.value, ast.Constant))]
        if len(b_) == 1 and isinstance(b_[0], (ast.Expr, ast.Return)) and isinstance(b_[0].value, ast.Call) and dotted(b_[0].value.func) == "deriv_check" \
                and not d.args.vararg and not d.args.kwarg:
            wrappers[d.name] = (d, b_[0].value)
    if wrappers:
        virt = []
        for n in own_nodes(sd.node):
            if isinstance(n, ast.Call) and isinstance(n.func, ast.Name) and n.func.id in wrappers and not n.keywords:
                d, inner = wrappers[n.func.id]
                ps = [a.arg for a in d.args.args]
                if len(ps) != len(n.args):
                    raise AnalysisError(f"{sd.short}: call of the local wrapper `{d.name}` does not match its parameters")
                sub = dict(zip(ps, n.args))
                vc = ast.Call(func=inner.func, args=[sub[a.id] if isinstance(a, ast.Name) and a.id in sub else a for a in inner.args],
                              keywords=[ast.keyword(arg=k.arg, value=sub[k.value.id] if isinstance(k.value, ast.Name) and k.value.id in sub else k.value) for k in inner.keywords])
                ast.copy_location(vc, n)
                vc._site = n
                virt.append(vc)
        calls = virt
    kinds = {}
    DC = "pygradflow.params.DerivCheck"
    ev = "self.evaluator"
    LP = "__lam__"
    dcf = prog.func("pygradflow.deriv_check.deriv_check")
    dps = [p for p in dcf.params][:4]
    for c in calls:
        si = ff.stmt_of(getattr(c, "_site", c))
        if c.keywords:
            # keyword spelling: put the arguments into positional order
            b_ = bind_args(dcf, c)
            if b_ is not None and all(p in b_ and isinstance(b_[p], ast.AST) for p in dps):
                c2 = ast.copy_location(ast.Call(func=c.func, args=[b_[p] for p in dps], keywords=[]), c)
                c2._site = getattr(c, "_site", c)
                c = c2
        lam = c.args[0] if c.args else None
        lam_body = None
        if isinstance(lam, ast.Name):
            # `g = f` copies of a local function are followed
            r_ = ff.resolved(si.stmt, lam)
            if isinstance(r_, (ast.Name, ast.Lambda)):
                lam = r_
        if isinstance(lam, ast.Name):
            # a local `def f(x): return <expr>` (or `f = lambda x: <expr>`) handed over by name
            defs = [n for n in ast.walk(sd.node) if isinstance(n, ast.FunctionDef) and n.name == lam.id and n is not sd.node]
            lams = [n.value for n in ast.walk(sd.node) if isinstance(n, ast.Assign) and len(n.targets) == 1 and U(n.targets[0]) == lam.id and isinstance(n.value, ast.Lambda)]
            if len(defs) == 1 and not lams:
                d = defs[0]
                b_ = [x for x in d.body if not (isinstance(x, ast.Expr) and isinstance(x.value, ast.Constant))]
                if len(b_) == 1 and isinstance(b_[0], ast.Return) and b_[0].value is not None and len(d.args.args) == 1:
                    lam = ast.Lambda(args=d.args, body=b_[0].value)
                elif len(d.args.args) == 1 and b_ and isinstance(b_[-1], ast.Return) and b_[-1].value is not None \
                        and all(isinstance(x, ast.Assign) and len(x.targets) == 1 and isinstance(x.targets[0], ast.Name) for x in b_[:-1]) \
                        and prog._by_node.get(id(d)) is not None:
                    # straight-line temporaries, then the result: the result with the temporaries substituted
                    lam = ast.Lambda(args=d.args, body=facts_for(prog._by_node[id(d)]).resolved(b_[-1], b_[-1].value))
            elif len(lams) == 1 and not defs:
                lam = lams[0]
        if isinstance(lam, ast.Lambda) and len(lam.args.args) == 1:
            # rename the function's own parameter so that it cannot be confused with an outer variable of the same name
            lp = lam.args.args[0].arg
            lb = _copy.deepcopy(lam.body)
            for nn in ast.walk(lb):
                if isinstance(nn, ast.Name) and nn.id == lp:
                    nn.id = LP
            env = {k: v for k, v in si.env.items() if k != LP}
            lam_body = resolve(lb, env)
        elif isinstance(lam, ast.Attribute):
            # a bound method handed over directly: deriv_check(eval.obj, ...) is deriv_check(lambda x: eval.obj(x), ...)
            lam_body = ast.Call(func=ff.resolved(si.stmt, lam), args=[ast.Name(id=LP, ctx=ast.Load())], keywords=[])
        if len(c.args) != 4 or lam_body is None:
            rep.fail("derivative-kinds-covered", sd.qualname, short(si.stmt), "VIOLATED: deriv_check is not called as deriv_check(<function of x>, x, derivative, params)", sd.loc(c))
            continue
        P = U(ff.resolved(si.stmt, c.args[1]))
        dv = U(ff.resolved(si.stmt, c.args[2]))
        I = P[:-2] if P.endswith(".x") else None       # the iterate whose point is checked, if any
        gate = [f for f in si.facts if f[0] == "truthy" and "&" in f[1]]
        flag = None
        for g in gate:
            e = ast.parse(g[1], mode="eval").body
            if isinstance(e, ast.BinOp) and isinstance(e.op, ast.BitAnd):
                for side in (e.left, e.right):
                    m = enum_member(prog, sd, side, DC)
                    if m:
                        flag = m
        body = U(lam_body)

        def deriv_forms(member, extra=""):
            out = {f"{ev}.{member}({P}{extra})"}
            if I is not None:
                out.add(f"{I}.{member}" if not extra else f"{I}.{member}({extra[2:]})")
            return out
        Y = None
        if isinstance(lam_body, ast.BinOp) and isinstance(lam_body.op, ast.Add) and isinstance(lam_body.right, ast.Call) and isinstance(lam_body.right.func, ast.Attribute) \
                and lam_body.right.func.attr == "dot" and len(lam_body.right.args) == 1:
            Y = U(lam_body.right.args[0])
        if body == f"{ev}.obj({LP})" and dv in deriv_forms("obj_grad"):
            kinds["gradient"] = flag
        elif body == f"{ev}.cons({LP})" and dv in deriv_forms("cons_jac"):
            kinds["jacobian"] = flag
        elif Y is not None and LP not in Y and body == f"{ev}.obj_grad({LP}) + {ev}.cons_jac({LP}).T.dot({Y})" and dv in deriv_forms("lag_hess", f", {Y}"):
            kinds["hessian"] = flag
        else:
            rep.fail("derivative-kinds-covered", sd.qualname, short(si.stmt),
                     f"VIOLATED: this check compares `{body[:100]}` with `{dv[:60]}` at `{P}`, which is none of (obj | obj_grad), (cons | cons_jac), (obj_grad + cons_jac' y | lag_hess(x, y)) "
                     f"with every function evaluated at the function's own argument and the derivative taken at the checked point", sd.loc(c))
    rep.check(kinds.get("gradient") == "CheckFirst" and kinds.get("jacobian") == "CheckFirst", "derivative-kinds-covered", sd.qualname, "CheckFirst",
              f"under CheckFirst the gradient and the constraint Jacobian are checked (found {kinds})", sd.loc())
    rep.check(kinds.get("hessian") == "CheckSecond", "derivative-kinds-covered", sd.qualname, "CheckSecond",
              f"under CheckSecond the Lagrangian Hessian is checked against x -> obj_grad(x) + cons_jac(x)'y with the same y (found {kinds})", sd.loc())
    early = [r for r in returns_of(sd) if r.value is None]
    sites_ = [ff.stmt_of(getattr(c, "_site", c)) for c in calls]
    ok = any(any(f[0] == "==" and "DerivCheck.NoCheck" in (f[1] + (f[2] or "")) for f in ff.at(r).facts) and ff.at(r).index < min(s_.index for s_ in sites_) for r in early) if calls else False
    # or: everything the check evaluates sits under `deriv_check != NoCheck`
    if not ok and calls:
        ok = all(any(f[0] == "!=" and "DerivCheck.NoCheck" in (f[1] + (f[2] or "")) for f in s_.facts) for s_ in sites_)
    rep.check(ok, "derivative-kinds-covered", sd.qualname, "NoCheck", "NoCheck returns before anything is evaluated", sd.loc())
    rep.pin("deriv_check call sites", len(calls), 3)
