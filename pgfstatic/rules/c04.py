"""C04 - the internally solved problem is an exact reformulation (dimension typing of ldexp,
exactness of the data path, slack-embedding agreement, pipeline order)."""
from __future__ import annotations

import ast
from typing import Dict, List, Optional, Tuple

from ..expforms import Form, FormReader, NotAForm, add, fmt
from ..model import AnalysisError, FuncInfo, Program, dotted, own_nodes, unparse
from ..symex import facts_for, phi_alternatives, resolve
from .common import U, bind_args, const_value, is_self_attr, kwarg, np_call, returns_of, short

SP = "pygradflow.scale.ScaledProblem"
SC = "pygradflow.scale.Scaling"
CP = "pygradflow.cons_problem.ConstrainedProblem"
TR = "pygradflow.transform.Transformation"

EXPLANATION = (
    "With x' = 2^v x, c' = 2^c c, f' = 2^o f the change of variables dictates every exponent: _orig_x: -v; obj: +o; obj_grad: o-v; "
    "cons: +c; cons_jac[i,j]: c_i - v_j; lag_hess[i,j]: o - v_i - v_j with the multiplier mapped back by c-o; var bounds: +v; cons "
    "bounds: +c; scale/unscale of x: +-v, of y: -+(c-o), of d: -+(v-o).  The exponent of every np.ldexp reached from these methods is "
    "extracted as an integer-linear form (helpers inlined, chained ldexp summed, index roles row/col resolved from the loop over "
    "zip(row, col, data)) and compared with that table; between the callback and the return the data passes only through ldexp, "
    "format conversion and indexing (exactness); scale_X / unscale_X sum to zero.  Slack embedding (sibling agreement inside "
    "ConstrainedProblem): a row is slack-free iff lb == ub with offset -lb (latched), offsets are added and slacks subtracted at "
    "slack_positions in cons, cons_jac appends the block (rows = slack_positions, cols = arange, data = the slack's coefficient in "
    "cons), gradient / Hessian are zero-padded, bounds are extended in the order of x, the starting slack is clip(c(x0)[pos], l[pos], "
    "u[pos]) with one shared index, restore drops exactly the slack block.  Pipeline order: scale then embed; restore drops slacks "
    "then unscales."
)


def F(**kw) -> Form:
    out: Form = {}
    for k, v in kw.items():
        atom, _, role = k.partition("_")
        out[(atom, role)] = v
    return out


SCALING_TABLE = {
    "scale_primal": F(v=1), "unscale_primal": F(v=-1),
    "scale_dual": F(o=1, c=-1), "unscale_dual": F(c=1, o=-1),
    "scale_bounds_dual": F(o=1, v=-1), "unscale_bounds_dual": F(v=1, o=-1),
}


def _inline_self_call(prog: Program, fi: FuncInfo, e: ast.AST) -> Optional[ast.AST]:
    """self.helper(arg...) -> the helper's return expression with parameters substituted."""
    if isinstance(e, ast.Call) and isinstance(e.func, ast.Attribute) and U(e.func.value) == "self":
        cls = prog.enclosing_class(fi)
        m = prog.lookup_method(cls, e.func.attr) if cls else None
        if m is not None:
            rs = returns_of(m)
            b = bind_args(m, e)
            if len(rs) == 1 and b is not None:
                body = facts_for(m).resolved(rs[0], rs[0].value)
                return resolve(body, b)
    return None


def run_scaling_only(prog: Program, rep) -> int:
    """exponent forms of Scaling.scale_* / unscale_* and their inverse pairing (shared with C01)."""
    n_ldexp = 0
    sc = prog.cls(SC)
    forms: Dict[str, Form] = {}
    for name, want in SCALING_TABLE.items():
        m = sc.methods.get(name)
        if m is None:
            raise AnalysisError(f"Scaling.{name} has vanished")
        rs = returns_of(m)
        if len(rs) != 1:
            raise AnalysisError(f"Scaling.{name}: expected a single return")
        ff = facts_for(m)
        fr = FormReader(prog, m)
        try:
            base, form = fr.peel(ff.resolved(rs[0], rs[0].value))
        except NotAForm as ex:
            rep.fail("scaling-exponents", m.qualname, short(rs[0]), f"VIOLATED: {ex}", m.loc(rs[0]))
            continue
        p0 = [p for p in m.params if p != "self"][0]
        n_ldexp += 1
        forms[name] = form
        rep.check(form == want and U(base) == p0, "scaling-exponents", m.qualname, short(rs[0]),
                  f"Scaling.{name}(z) = ldexp(z, {fmt(want)})  (found ldexp({U(base)}, {fmt(form)}))", m.loc(rs[0]))
    for a, b in (("scale_primal", "unscale_primal"), ("scale_dual", "unscale_dual"), ("scale_bounds_dual", "unscale_bounds_dual")):
        if a in forms and b in forms:
            rep.check(add(forms[a], forms[b]) == {}, "inverse-pairs", sc.qualname, f"{a}/{b}", f"{a} and {b} are mutually inverse (exponents sum to zero)", sc.methods[a].loc())

    return n_ldexp


def run(prog: Program, rep, tier: str) -> None:
    rep.explanation = EXPLANATION
    n_ldexp = run_scaling_only(prog, rep)
    # ---------------- ScaledProblem --------------------------------------------------------------
    sp = prog.cls(SP)

    def orig_x_ok(m: FuncInfo, arg: ast.AST, xparam: str) -> bool:
        e = _inline_self_call(prog, m, arg) or arg
        try:
            base, form = FormReader(prog, m).peel(e)
        except NotAForm:
            return False
        return U(base) == xparam and form == F(v=-1)

    vec_table = {"obj": ("obj", F(o=1)), "obj_grad": ("obj_grad", F(o=1, v=-1)), "cons": ("cons", F(c=1))}
    for name, (cb, want) in vec_table.items():
        m = sp.methods.get(name)
        if m is None:
            raise AnalysisError(f"ScaledProblem.{name} has vanished")
        ff = facts_for(m)
        xparam = [p for p in m.params if p != "self"][0]
        rs = returns_of(m)
        for r in rs:
            try:
                base, form = FormReader(prog, m).peel(ff.resolved(r, r.value))
            except NotAForm as ex:
                rep.fail("scaled-problem-exponents", m.qualname, short(r), f"VIOLATED: {ex}", m.loc(r))
                continue
            n_ldexp += 1
            is_cb = isinstance(base, ast.Call) and isinstance(base.func, ast.Attribute) and base.func.attr == cb and U(base.func.value) == "self.problem" and len(base.args) == 1
            rep.check(is_cb, "exact-data-path", m.qualname, short(r),
                      f"ScaledProblem.{name} returns problem.{cb}(..) passed only through ldexp (found base `{U(base)[:80]}`)", m.loc(r))
            rep.check(form == want, "scaled-problem-exponents", m.qualname, short(r), f"ScaledProblem.{name}: exponent {fmt(want)} (found {fmt(form)})", m.loc(r))
            if is_cb:
                rep.check(orig_x_ok(m, base.args[0], xparam), "scaled-problem-exponents", m.qualname, short(r),
                          f"the user's {cb} is evaluated at ldexp(x, -v)", m.loc(r))
    # _orig_x itself (if the wrapper still has such a helper; it may also delegate to Scaling.unscale_primal directly)
    ox = sp.methods.get("_orig_x")
    if ox is not None:
        rs = returns_of(ox)
        base, form = FormReader(prog, ox).peel(facts_for(ox).resolved(rs[0], rs[0].value))
        rep.check(form == F(v=-1) and U(base) == [p for p in ox.params if p != "self"][0], "scaled-problem-exponents", ox.qualname, short(rs[0]), "_orig_x(x) = ldexp(x, -v)", ox.loc())
    n_ldexp += 1

    # matrices
    for name, cb, want in (("cons_jac", "cons_jac", F(c_row=1, v_col=-1)), ("lag_hess", "lag_hess", F(o=1, v_row=-1, v_col=-1))):
        m = sp.methods.get(name)
        ok, found, detail, node = matrix_entry_form(prog, m, cb)
        n_ldexp += 1
        rep.check(ok and found == want, "scaled-problem-exponents", m.qualname, name,
                  f"ScaledProblem.{name}: entry (i,j) is scaled by {fmt(want)} (found {fmt(found) if found is not None else detail})", m.loc(node) if node is not None else m.loc())
        rep.check(ok, "exact-data-path", m.qualname, name, f"ScaledProblem.{name} rescales the entries of tocoo(problem.{cb}(..)) only by ldexp and returns that matrix ({detail})", m.loc())
    # multiplier handed to the user's lag_hess
    lh = sp.methods["lag_hess"]
    fl = facts_for(lh)
    xs, ys = [p for p in lh.params if p != "self"][:2]
    calls = [n for n in own_nodes(lh.node) if isinstance(n, ast.Call) and isinstance(n.func, ast.Attribute) and n.func.attr == "lag_hess" and U(n.func.value) == "self.problem"]
    if len(calls) != 1:
        raise AnalysisError("ScaledProblem.lag_hess does not call the wrapped lag_hess exactly once")
    si = fl.stmt_of(calls[0])
    a = [fl.resolved(si.stmt, x) for x in calls[0].args]
    okx = len(a) == 2 and orig_x_ok(lh, a[0], xs)
    try:
        yb, yf = FormReader(prog, lh).peel(a[1]) if len(a) == 2 else (None, None)
    except NotAForm:
        yb, yf = None, None
    n_ldexp += 1
    rep.check(okx and yb is not None and U(yb) == ys and yf == F(c=1, o=-1), "scaled-problem-exponents", lh.qualname, short(si.stmt),
              f"the user's lag_hess is evaluated at (ldexp(x,-v), ldexp(y, c-o))  (found multiplier exponent {fmt(yf) if yf is not None else '?'})", lh.loc(calls[0]))
    # bounds
    init = sp.methods["__init__"]
    fi_ = facts_for(init)
    sup = [n for n in own_nodes(init.node) if isinstance(n, ast.Call) and isinstance(n.func, ast.Attribute) and n.func.attr == "__init__" and U(n.func.value) == "super()"]
    if len(sup) != 1:
        raise AnalysisError("ScaledProblem.__init__ does not call super().__init__ exactly once")
    si = fi_.stmt_of(sup[0])
    pinit = prog.func("pygradflow.problem.Problem.__init__")
    pp, scp = [p for p in init.params if p != "self"][:2]
    bound = bind_args(pinit, sup[0])
    if bound is None:
        raise AnalysisError("ScaledProblem.__init__: cannot bind the arguments of super().__init__(..) to Problem.__init__")
    explicit = {id(x) for x in sup[0].args} | {id(k.value) for k in sup[0].keywords}
    argmap = {b: (bound.get(b) if id(bound.get(b)) in explicit else None, want) for b, want in
              (("var_lb", F(v=1)), ("var_ub", F(v=1)), ("cons_lb", F(c=1)), ("cons_ub", F(c=1)))}
    for bname, (arg, want) in argmap.items():
        if arg is None:
            rep.fail("scaled-problem-exponents", init.qualname, bname, f"VIOLATED: ScaledProblem does not pass {bname} to Problem.__init__", init.loc())
            continue
        try:
            base, form = FormReader(prog, init).peel(fi_.resolved(si.stmt, arg))
        except NotAForm as ex:
            rep.fail("scaled-problem-exponents", init.qualname, bname, f"VIOLATED: {ex}", init.loc())
            continue
        n_ldexp += 1
        rep.check(form == want and U(base) == f"{pp}.{bname}", "scaled-problem-exponents", init.qualname, bname,
                  f"scaled {bname} = ldexp(problem.{bname}, {fmt(want)}) (found ldexp({U(base)}, {fmt(form)}))", init.loc(sup[0]))
    rep.pin("ldexp-typed quantities (chained ldexp count once)", n_ldexp, 17)

    slack_embedding(prog, rep)
    pipeline(prog, rep)
    callback_results_kept(prog, rep)
    # ... and the evaluator in front of them answers every request with the value at the requested point
    from . import c19 as _c19
    _c19.evaluator_memoryless(prog, rep)


def callback_results_kept(prog: Program, rep) -> None:
    """repeated evaluation must see the user's values again: the wrapper problems must not write into what a callback returned
    (a stored matrix handed out by the user's problem would be rescaled cumulatively, evaluation after evaluation)."""
    from ..own import Ownership
    ow = Ownership(prog)
    nsk = 0
    for fi in ow.funcs:
        cls = prog.enclosing_class(fi)
        if cls is None or cls.qualname not in (SP, CP):
            continue
        for sk in ow.sinks(fi):
            nsk += 1
            prot = [t for t in Ownership.protected(ow.sink_tokens(sk)) if t.startswith("user:")]
            if sk.kind == "flag:writeable":
                continue
            rep.check(not prot, "reformulation-keeps-callback-results", fi.qualname, short(sk.si.stmt),
                      f"in-place {sk.kind} on `{U(sk.target)[:40]}` does not reach an object returned by the wrapped problem's callbacks ({prot})", fi.loc(sk.node))
    rep.pin("in-place operations inside the wrapper problems", nsk, 4)


def matrix_entry_form(prog: Program, m: FuncInfo, cb: str):
    """(ok, form, detail, node) for the per-entry rescaling of a sparse callback result.  Role based: the returned matrix M is
    tocoo() of the callback result; there is exactly one store into M.data - per entry (`data[k] = ldexp(<entry k>, E)` inside a
    loop over all stored entries) or as a whole (`data[:] = ldexp(data, E)` / `M.data = ldexp(M.data, E)`); in E an index is a
    ROW index if it denotes M.row at the same position (zip element, `rows[k]`, or the whole M.row in the vectorised form)."""
    ff = facts_for(m)
    rs = returns_of(m)
    if len(rs) != 1:
        return False, None, "several returns", None
    ret = ff.resolved(rs[0], rs[0].value)
    mat_ok = isinstance(ret, ast.Call) and isinstance(ret.func, ast.Attribute) and ret.func.attr in ("tocoo",) and isinstance(ret.func.value, ast.Call) \
        and isinstance(ret.func.value.func, ast.Attribute) and ret.func.value.func.attr == cb and U(ret.func.value.func.value) == "self.problem"
    if not mat_ok:
        return False, None, f"returns `{U(ret)[:80]}`, not tocoo() of the callback result", rs[0]
    mt = U(ret)

    def full(sl):
        return (isinstance(sl, ast.Slice) and sl.lower is None and sl.upper is None and sl.step is None) or (isinstance(sl, ast.Constant) and sl.value is Ellipsis)
    cands = []
    for si in ff.order:
        st = si.stmt
        if not (isinstance(st, ast.Assign) and len(st.targets) == 1):
            continue
        t = st.targets[0]
        if isinstance(t, ast.Subscript) and U(ff.resolved(st, t.value)) == f"{mt}.data":
            cands.append((si, "entry" if isinstance(t.slice, ast.Name) and si.loops else ("whole" if full(t.slice) else "other")))
        elif isinstance(t, ast.Attribute) and t.attr == "data" and U(ff.resolved(st, t.value)) == mt:
            cands.append((si, "whole"))
    if len(cands) != 1:
        return False, None, "no per-entry rescaling found" if not cands else f"{len(cands)} stores into the data of the returned matrix", None
    si, kind = cands[0]
    st = si.stmt
    v = st.value
    if not ((dotted(v.func) if isinstance(v, ast.Call) else "") in ("np.ldexp", "numpy.ldexp") and len(v.args) == 2 and not v.keywords):
        return False, None, f"entry value `{U(v)[:60]}` is not ldexp(entry, exponent)", st
    env = ff.at(st).env
    E = ff.resolved(st, v.args[1])
    a = U(ff.resolved(st, v.args[0]))
    if kind == "whole":
        if a != f"{mt}.data":
            return False, None, f"`{a[:60]}` is not the data of the returned matrix", st
        role_of = lambda idx: "row" if U(idx) == f"{mt}.row" else ("col" if U(idx) == f"{mt}.col" else None)
        detail = "vectorised ldexp on the data array"
    elif kind == "entry":
        k = st.targets[0].slice.id
        ktxt = U(env.get(k, ast.Name(id=k)))
        roles_text = {f"{mt}.row[{ktxt}]": "row", f"{mt}.col[{ktxt}]": "col"}
        entry_texts = {f"{mt}.data[{ktxt}]"}
        lp = si.loops[-1]
        if not isinstance(lp, ast.For):
            return False, None, "the store is not inside a for loop over the entries", st
        tgt, itx = lp.target, ff.resolved(lp, lp.iter)
        idx_name = None
        zipc = itx
        if isinstance(zipc, ast.Call) and dotted(zipc.func) == "enumerate" and zipc.args and isinstance(tgt, ast.Tuple) and len(tgt.elts) == 2 and isinstance(tgt.elts[0], ast.Name):
            idx_name, tgt, zipc = tgt.elts[0].id, tgt.elts[1], zipc.args[0]
        if isinstance(zipc, ast.Call) and dotted(zipc.func) == "zip":
            els = tgt.elts if isinstance(tgt, ast.Tuple) else [tgt]
            if len(els) != len(zipc.args):
                return False, None, "loop target does not match the zipped sequences", lp
            for el, src in zip(els, zipc.args):
                if not isinstance(el, ast.Name):
                    continue
                txt = U(env.get(el.id, el))
                s_ = U(src)
                if s_ == f"{mt}.row":
                    roles_text[txt] = "row"
                elif s_ == f"{mt}.col":
                    roles_text[txt] = "col"
                elif s_ == f"{mt}.data":
                    entry_texts.add(txt)
            if not any(U(src) in (f"{mt}.row", f"{mt}.col", f"{mt}.data") for src in zipc.args):
                return False, None, "the loop does not run over the entries of the returned matrix", lp
        elif isinstance(zipc, ast.Call) and dotted(zipc.func) == "range" and len(zipc.args) == 1 and isinstance(tgt, ast.Name):
            idx_name = tgt.id
            n_ = U(zipc.args[0])
            if n_ not in (f"len({mt}.data)", f"{mt}.nnz", f"{mt}.data.size", f"__item__({mt}.data.shape, 0)", f"len({mt}.row)", f"len({mt}.col)", f"{mt}.data.shape[0]"):
                return False, None, f"the index loop runs over `{n_[:60]}`, not over all stored entries", lp
        else:
            return False, None, "the loop over the entries is in an unrecognised form", lp
        if idx_name != k:
            return False, None, "the store does not target data[k] of the returned matrix at the loop's own position", st
        if a not in entry_texts:
            return False, None, f"entry value `{U(v)[:60]}` is not ldexp(entry, exponent)", st
        role_of = lambda idx: roles_text.get(U(idx))
        detail = "loop over the stored entries"
    else:
        return False, None, "the store into the data array is neither per entry nor whole-array", st
    try:
        form = FormReader(prog, m, role_of).form(E)
    except NotAForm as ex:
        return False, None, str(ex), st
    return True, form, detail, st


def _resolve_keep(ff, stmt, e: ast.AST, keep) -> ast.AST:
    env = {k: v for k, v in ff.at(stmt).env.items() if k not in keep}
    return resolve(e, env)


def slack_embedding(prog: Program, rep) -> None:
    cp = prog.cls(CP)
    # --- create_slacks -------------------------------------------------------------------------------
    cs = cp.methods["create_slacks"]
    ff = facts_for(cs)
    loops = [s for s in ff.order if isinstance(s.stmt, ast.For)]
    if _create_slacks_rowsem(prog, rep, cs):
        pass
    elif len(loops) == 1:
        _create_slacks_loop_form(prog, rep, cs, ff, loops[0])
    elif not loops:
        _create_slacks_mask_form(prog, rep, cs, ff)
    else:
        raise AnalysisError("create_slacks is in neither the row-loop nor the boolean-mask form")

    # --- cons: + offsets, - slacks at slack_positions ----------------------------------------------------
    cn = cp.methods["cons"]
    fc = facts_for(cn)
    xs = [p for p in cn.params if p != "self"][0]
    off_ok = False
    for s in fc.order:
        st = s.stmt
        if isinstance(st, ast.AugAssign) and isinstance(st.op, ast.Add) and U(fc.resolved(st, st.value)) == "self.cons_offsets" and ("isnot", "self.cons_offsets", "None") in s.facts:
            off_ok = True
        if isinstance(st, ast.Assign) and isinstance(st.value, ast.BinOp) and isinstance(st.value.op, ast.Add) \
                and "self.cons_offsets" in (U(fc.resolved(st, st.value.left)), U(fc.resolved(st, st.value.right))) and ("isnot", "self.cons_offsets", "None") in s.facts:
            off_ok = True
    rep.check(off_ok, "slack-cons", cn.qualname, "cons offsets", "the offsets are ADDED to c(x) (so that l <= c <= u with l == u becomes c - l == 0)", cn.loc())
    coeff = None
    sub_ok = False
    # slack_vals(x) is x[n:] (slack-layout rule): either spelling names the slack block
    slack_spell = (f"self.slack_vals({xs})", f"{xs}[self.problem.num_vars:]")
    for s in fc.order:
        st = s.stmt
        if isinstance(st, ast.For):
            itx = st.iter
            if isinstance(itx, ast.Call) and dotted(itx.func) == "zip" and len(itx.args) == 2 and U(itx.args[0]) == "self.slack_positions" \
                    and U(fc.resolved(st, itx.args[1])) in slack_spell and isinstance(st.target, ast.Tuple):
                pos, val = U(st.target.elts[0]), U(st.target.elts[1])
                if len(st.body) == 1 and isinstance(st.body[0], ast.AugAssign):
                    b = st.body[0]
                    if isinstance(b.target, ast.Subscript) and U(b.target.slice) == pos and U(b.value) == val:
                        coeff = -1.0 if isinstance(b.op, ast.Sub) else (1.0 if isinstance(b.op, ast.Add) else None)
                        sub_ok = True
    if not sub_ok:
        # vectorised form: cons[self.slack_positions] -= slack_vals
        for s in fc.order:
            st = s.stmt
            if isinstance(st, ast.AugAssign) and isinstance(st.target, ast.Subscript) and U(st.target.slice) == "self.slack_positions" \
                    and U(fc.resolved(st, st.value)) in slack_spell:
                coeff = -1.0 if isinstance(st.op, ast.Sub) else (1.0 if isinstance(st.op, ast.Add) else None)
                sub_ok = True
    rep.check(sub_ok and coeff == -1.0, "slack-cons", cn.qualname, "slack subtraction", f"slack k is SUBTRACTED from row slack_positions[k] of c(x) (coefficient found: {coeff})", cn.loc())
    sv = cp.methods["slack_vals"]
    ov = cp.methods["orig_vals"]
    r1 = returns_of(sv)
    r2 = returns_of(ov)
    ok = len(r1) == 1 and len(r2) == 1 and U(facts_for(sv).resolved(r1[0], r1[0].value)) == f"{sv.params[1]}[self.problem.num_vars:]" and \
        U(facts_for(ov).resolved(r2[0], r2[0].value)) == f"{ov.params[1]}[:self.problem.num_vars]"
    rep.check(ok, "slack-layout", cp.qualname, "orig_vals/slack_vals", "x = (original variables, slacks): orig_vals = x[:n], slack_vals = x[n:]", ov.loc())

    # --- cons_jac: extra block ---------------------------------------------------------------------------
    cj = cp.methods["cons_jac"]
    fj = facts_for(cj)
    gen = [r for r in returns_of(cj) if not _no_slacks(fj.at(r).facts)]
    ok = False
    fill = None
    detail = ""
    if len(gen) == 1:
        v = fj.resolved(gen[0], gen[0].value)
        if isinstance(v, ast.Call) and (dotted(v.func) or "").endswith("bmat") and v.args and isinstance(v.args[0], ast.List) and len(v.args[0].elts) == 1:
            row = v.args[0].elts[0]
            if isinstance(row, ast.List) and len(row.elts) == 2:
                left, right = row.elts
                left_ok = U(left) == f"self.problem.cons_jac(self.orig_vals({[p for p in cj.params if p != 'self'][0]}))"
                if isinstance(right, ast.Call) and (dotted(right.func) or "").endswith("coo_matrix") and right.args and isinstance(right.args[0], ast.Tuple):
                    data, rc = right.args[0].elts
                    rows, cols = rc.elts
                    shape = kwarg(right, "shape")
                    if np_call(data, "full") and len(data.args) >= 1:
                        fv = kwarg(data, "fill_value") or (data.args[1] if len(data.args) > 1 else None)
                        fill = const_value(fv) if fv is not None else None
                        size_ok = U(data.args[0]) in ("(len(self.slack_positions),)", "len(self.slack_positions)")
                    else:
                        size_ok = False
                    ok = left_ok and size_ok and U(rows) == "self.slack_positions" and U(cols) == "np.arange(len(self.slack_positions))" and \
                        shape is not None and U(shape) == "(self.num_cons, len(self.slack_positions))"
                    detail = f"rows={U(rows)}, cols={U(cols)}, shape={U(shape) if shape is not None else None}, fill={fill}"
    rep.check(ok, "slack-jacobian", cj.qualname, short(gen[0]) if gen else "", f"cons_jac = [J_orig | S] with S[slack_positions[k], k] = const ({detail})", cj.loc())
    rep.check(fill is not None and coeff is not None and fill == coeff, "slack-jacobian-agrees-with-cons", cj.qualname, "fill_value",
              f"the constant in the slack block ({fill}) equals the coefficient with which the slack enters cons ({coeff})", cj.loc())
    early = [r for r in returns_of(cj) if r not in gen]
    rep.check(all(U(fj.resolved(r, r.value)).startswith("self.problem.cons_jac(") for r in early), "slack-jacobian", cj.qualname, "no slacks", "without slacks the Jacobian is passed through", cj.loc())

    # --- obj_grad / lag_hess padding ---------------------------------------------------------------------------
    og = cp.methods["obj_grad"]
    fo = facts_for(og)
    ok = False
    for r in returns_of(og):
        v = fo.resolved(r, r.value)
        if np_call(v, "concatenate") and isinstance(v.args[0], (ast.List, ast.Tuple)) and len(v.args[0].elts) == 2:
            a, b = v.args[0].elts
            ok = U(a).startswith("self.problem.obj_grad(self.orig_vals(") and np_call(b, "zeros") and U(b.args[0]) in ("(len(self.slack_positions),)", "len(self.slack_positions)")
    rep.check(ok, "slack-padding", og.qualname, "obj_grad", "the gradient is (grad f, 0_slacks)", og.loc())
    lh = cp.methods["lag_hess"]
    fl = facts_for(lh)
    ok = False
    for r in returns_of(lh):
        v = fl.resolved(r, r.value)
        if isinstance(v, ast.Call) and (dotted(v.func) or "").endswith("bmat") and isinstance(v.args[0], ast.List) and len(v.args[0].elts) == 2:
            r0, r1_ = v.args[0].elts
            if len(r0.elts) == 2 and len(r1_.elts) == 2:
                h, ur = r0.elts
                ll, lr = r1_.elts
                zero = lambda e: "sparse_zero(" in U(e)
                ok = U(h).startswith("self.problem.lag_hess(self.orig_vals(") and zero(ur) and zero(ll) and zero(lr) and U(ur) == U(ll) + ".T"
    rep.check(ok, "slack-padding", lh.qualname, "lag_hess", "the Hessian is blockdiag(H, 0_slacks)", lh.loc())
    ob = cp.methods["obj"]
    r = returns_of(ob)
    rep.check(len(r) == 1 and U(facts_for(ob).resolved(r[0], r[0].value)).startswith("self.problem.obj(self.orig_vals("), "slack-padding", ob.qualname, "obj", "the objective ignores the slacks", ob.loc())

    # --- bounds ----------------------------------------------------------------------------------------------------
    init = cp.methods["__init__"]
    fi_ = facts_for(init)
    sup = [n for n in own_nodes(init.node) if isinstance(n, ast.Call) and isinstance(n.func, ast.Attribute) and n.func.attr == "__init__" and U(n.func.value) == "super()"]
    if len(sup) != 1:
        raise AnalysisError("ConstrainedProblem.__init__: super().__init__ not called once")
    si = fi_.stmt_of(sup[0])
    pr = [p for p in init.params if p != "self"][0]
    for k, (bn, cb) in enumerate((("var_lb", "cons_lb"), ("var_ub", "cons_ub"))):
        a = fi_.resolved(si.stmt, sup[0].args[k]) if len(sup[0].args) > k else None
        alts = [U(x) for x in phi_alternatives(a)] if a is not None else []
        want_ext = f"np.concatenate([{pr}.{bn}, {pr}.{cb}[self.slack_positions]])"
        ok = set(alts) == {f"{pr}.{bn}", want_ext} or alts == [want_ext]
        rep.check(ok, "slack-bounds", init.qualname, bn, f"{bn} of the internal problem is ({bn}, {cb}[slack_positions]) - slack k is bounded by the bounds of its row", init.loc(sup[0]))
    nc = kwarg(sup[0], "num_cons")
    rep.check(nc is not None and U(fi_.resolved(si.stmt, nc)) == f"{pr}.num_cons", "slack-bounds", init.qualname, "num_cons", "all rows become equalities with zero right-hand side", init.loc(sup[0]))

    # --- transform_sol / restore_sol -----------------------------------------------------------------------------------
    ts = cp.methods["transform_sol"]
    ft = facts_for(ts)
    ox, oy = [p for p in ts.params if p != "self"][:2]
    _slack_start(prog, rep, ts, ft, ox)
    gen = [r for r in returns_of(ts) if not _no_slacks(ft.at(r).facts)]
    ok = False
    if len(gen) == 1:
        v = ft.resolved(gen[0], gen[0].value)
        ok = isinstance(v, ast.Tuple) and len(v.elts) == 2 and U(v.elts[1]) == oy and np_call(v.elts[0], "concatenate") and \
            [U(e) for e in v.elts[0].args[0].elts] == [ox, "np.zeros((len(self.slack_positions),))"] or (isinstance(v, ast.Tuple) and U(v.elts[0]).startswith(f"np.concatenate([{ox}, ") and U(v.elts[1]) == oy)
    rep.check(ok, "slack-layout", ts.qualname, short(gen[0]) if gen else "", "transform_sol returns ((x0, slacks), y0)", ts.loc())
    rs_ = cp.methods["restore_sol"]
    fr = facts_for(rs_)
    xn, yn, dn = [p for p in rs_.params if p != "self"][:3]
    gen = [r for r in returns_of(rs_) if not _no_slacks(fr.at(r).facts)]
    ok = False
    if len(gen) == 1:
        v = fr.resolved(gen[0], gen[0].value)
        # orig_vals(v) is v[:self.problem.num_vars]; either spelling drops exactly the slack block
        def drop(nm):
            return (f"self.orig_vals({nm})", f"{nm}[:self.problem.num_vars]")
        def general(e, ident):
            # `orig_vals(v) if <there are slacks> else v`: the general branch (the other one must be the vector itself)
            if isinstance(e, ast.IfExp):
                from ..symex import atoms_of as facts_of_test
                for pol, br, other in ((True, e.body, e.orelse), (False, e.orelse, e.body)):
                    try:
                        fs = facts_of_test(e.test, pol)
                    except Exception:
                        fs = ()
                    if _no_slacks(set(fs)) and U(br) == ident:
                        return other
            return e
        ok = isinstance(v, ast.Tuple) and len(v.elts) == 3 and U(general(v.elts[0], xn)) in drop(xn) and U(v.elts[1]) == yn and U(general(v.elts[2], dn)) in drop(dn)
    rep.check(ok, "slack-layout", rs_.qualname, short(gen[0]) if gen else "", "restore_sol drops exactly the slack block of x and d and passes y through", rs_.loc())
    early = [r for r in returns_of(rs_) if r not in gen]
    rep.check(all(U(r.value).replace(" ", "") == f"({xn},{yn},{dn})" for r in early), "slack-layout", rs_.qualname, "no slacks", "without slacks restore_sol is the identity", rs_.loc())


def pipeline(prog: Program, rep) -> None:
    tr = prog.cls(TR)
    tp = tr.methods["trans_problem"]
    r = returns_of(tp)
    ok = len(r) == 1 and U(facts_for(tp).resolved(r[0], r[0].value)) == "ConstrainedProblem(self.scaled_problem)"
    rep.check(ok, "pipeline-order", tp.qualname, short(r[0]) if r else "", "the internal problem is ConstrainedProblem(scaled problem)", tp.loc())
    spm = tr.methods["scaled_problem"]
    fs = facts_for(spm)
    vals = {}
    for r in returns_of(spm):
        vals[U(fs.resolved(r, r.value))] = fs.at(r).facts
    ok = set(vals) == {"self.orig_problem", "ScaledProblem(self.orig_problem, self.scaling)"} and ("is", "self.scaling", "None") in vals.get("self.orig_problem", [])
    rep.check(ok, "pipeline-order", spm.qualname, "scaled_problem", "the scaled problem is ScaledProblem(orig, scaling), or the original problem when there is no scaling", spm.loc())
    rs = tr.methods["restore_sol"]
    fr = facts_for(rs)
    xn, yn, dn = [p for p in rs.params if p != "self"][:3]
    inner = f"self.trans_problem.restore_sol({xn}, {yn}, {dn})"
    ok_n = ok_s = False
    from .common import value_sites
    sites_ = []
    for r in returns_of(rs):
        # flow-sensitive value at the return if it is one tuple; otherwise the stores that can reach the returned name
        if r.value is not None and (isinstance(fr.resolved(r, r.value), ast.Tuple) or U(fr.resolved(r, r.value)) == inner):
            sites_.append((r, r.value))
        else:
            sites_ += [(s_, e2_) for s_, e2_ in value_sites(rs, fr) if s_ is r or True]
    seen_sites = set()
    for r, e_ in sites_:
        if (id(r), id(e_)) in seen_sites:
            continue
        seen_sites.add((id(r), id(e_)))
        v = fr.resolved(r, e_)
        facts = fr.at(r).facts
        els = [U(e) for e in v.elts] if isinstance(v, ast.Tuple) else []
        if ("is", "self.scaling", "None") in facts:
            ok_n = els == [f"__item__({inner}, {k})" for k in range(3)] or U(v) == inner
        else:
            ok_s = els == [f"self.scaling.unscale_primal(__item__({inner}, 0))", f"self.scaling.unscale_dual(__item__({inner}, 1))", f"self.scaling.unscale_bounds_dual(__item__({inner}, 2))"]
    if not (ok_n and ok_s):
        # single-exit form: x, y, d are overwritten by their unscaled values under `scaling is not None` and returned once
        rr = returns_of(rs)
        if len(rr) == 1:
            v = fr.resolved(rr[0], rr[0].value)
            if isinstance(v, ast.Tuple) and len(v.elts) == 3:
                names_ = ("unscale_primal", "unscale_dual", "unscale_bounds_dual")
                good = True
                for k, e in enumerate(v.elts):
                    alts = {U(a) for a in phi_alternatives(e)}
                    good = good and alts == {f"self.scaling.{names_[k]}(__item__({inner}, {k}))", f"__item__({inner}, {k})"}
                sts = [q for q in fr.order if isinstance(q.stmt, ast.Assign) and isinstance(q.stmt.value, ast.Call) and isinstance(q.stmt.value.func, ast.Attribute)
                       and q.stmt.value.func.attr in names_]
                good = good and len(sts) == 3 and all(q.facts == [("isnot", "self.scaling", "None")] for q in sts)
                ok_n = ok_s = good
    rep.check(ok_n and ok_s, "restore-wiring", rs.qualname, "restore_sol",
              "restore_sol drops the slacks first and then applies unscale_primal / unscale_dual / unscale_bounds_dual to the x / y / d slots", rs.loc())


def _create_slacks_rowsem(prog, rep, cs) -> bool:
    """create_slacks by its row semantics (rowsem.py): whatever mixture of loops, comprehensions and masks it is written in, the
    slack index set, the offsets and the keep-condition are functions of one row's bounds and are compared on the finitely many
    row types.  False if the method uses a construct outside the interpreter's language (the form-based rules then apply)."""
    from .. import rowsem
    try:
        S, off, masks = rowsem.analyse(cs.node)
        rows_bad = [rt for rt in rowsem.ROW_TYPES if rowsem.eval_pred(S, rt) != (not rt["E"])]
        bad_keep = bad_val = None
        for world in rowsem.worlds():
            entry = rowsem.offsets_in_world(off, masks, world)
            needs = any(rt["E"] and not rt["Z"] for rt in world)
            if entry is None:
                if needs and bad_keep is None:
                    bad_keep = world
                continue
            for rt in world:
                v = rowsem.eval_value(entry, rt)
                want = "-lb" if rt["E"] and not rt["Z"] else "zero"
                if v != want and bad_val is None:
                    bad_val = (rt, v)
    except rowsem.Unsupported as e:
        rep.note(f"create_slacks: row semantics not applicable ({e}); form-based rules used")
        return False

    def show(rt):
        return ("lb == ub" if rt["E"] else "lb != ub") + (", lb == 0" if rt["Z"] else ", lb != 0")
    rep.check(not rows_bad, "slack-rows", cs.qualname, "self.slack_positions", "row i gets a slack iff cons_lb[i] != cons_ub[i] (row semantics, all row types)"
              + (f"; differs on a row with {show(rows_bad[0])}" if rows_bad else ""), cs.loc())
    rep.check(bad_val is None, "slack-offsets", cs.qualname, "cons_offsets[i]", "an equality row i gets the offset -cons_lb[i] and every other row none (row semantics)"
              + (f"; a row with {show(bad_val[0])} gets `{bad_val[1]}`" if bad_val else ""), cs.loc())
    rep.check(bad_keep is None, "slack-offsets", cs.qualname, "self.cons_offsets", "the offsets are kept whenever some equality row has a non-zero right-hand side (row semantics)"
              + (f"; dropped although such a row exists among {[show(r) for r in bad_keep]}" if bad_keep else ""), cs.loc())
    rep.extra["create_slacks_rowsem"] = {"slack_predicate": U(S)[:200], "masks": [U(m)[:120] for m in masks]}
    return True


def _create_slacks_loop_form(prog, rep, cs, ff, loop_si) -> None:
    lp = loop_si.stmt
    loops = [loop_si]
    lbn = ubn = idx = None
    it = lp.iter
    tgt = lp.target
    if isinstance(it, ast.Call) and dotted(it.func) == "enumerate" and isinstance(tgt, ast.Tuple) and len(tgt.elts) == 2:
        idx = U(tgt.elts[0])
        it, tgt = it.args[0], tgt.elts[1]
    if isinstance(it, ast.Call) and dotted(it.func) == "zip" and isinstance(tgt, ast.Tuple) and len(tgt.elts) == 2:
        p = [q for q in cs.params if q != "self"]
        if [U(a) for a in it.args] == p[:2]:
            lbn, ubn = U(tgt.elts[0]), U(tgt.elts[1])
    if lbn is None or idx is None:
        raise AnalysisError("create_slacks: loop is not `for i, (lb, ub) in enumerate(zip(cons_lb, cons_ub))`")
    body0 = ff.at(lp.body[0])
    LB, UB = U(body0.env.get(lbn, ast.Name(id=lbn))), U(body0.env.get(ubn, ast.Name(id=ubn)))
    appends = [s for s in ff.order if isinstance(s.stmt, ast.Expr) and isinstance(s.stmt.value, ast.Call) and isinstance(s.stmt.value.func, ast.Attribute)
               and s.stmt.value.func.attr == "append" and lp in s.loops]
    ok = len(appends) == 1 and U(appends[0].stmt.value.args[0]) == idx and ("!=", LB, UB) in appends[0].facts and \
        [f for f in appends[0].facts if f not in loops[0].facts] == [("!=", LB, UB)]
    rep.check(ok, "slack-rows", cs.qualname, short(appends[0].stmt) if appends else "", "row i gets a slack iff cons_lb[i] != cons_ub[i]", cs.loc())
    offs = [s for s in ff.order if isinstance(s.stmt, ast.Assign) and isinstance(s.stmt.targets[0], ast.Subscript) and lp in s.loops]
    ok = len(offs) == 1 and U(offs[0].stmt.targets[0].slice) == idx and U(offs[0].stmt.value) == f"-{lbn}" and ("==", LB, UB) in offs[0].facts
    rep.check(ok, "slack-offsets", cs.qualname, short(offs[0].stmt) if offs else "", "an equality row i gets the offset -cons_lb[i]", cs.loc())
    latches = [s for s in ff.order if isinstance(s.stmt, ast.Assign) and len(s.stmt.targets) == 1 and isinstance(s.stmt.targets[0], ast.Name) and lp in s.loops
               and isinstance(s.stmt.value, (ast.Constant, ast.Compare, ast.BoolOp)) and s.stmt.targets[0].id not in (lbn, ubn, idx)]
    flag_names = {s.stmt.targets[0].id for s in latches}
    ok = all(isinstance(s.stmt.value, ast.Constant) and s.stmt.value.value is True for s in latches) and len(latches) >= 1
    rep.check(ok, "slack-offsets", cs.qualname, short(latches[0].stmt) if latches else "has_offsets",
              "the 'some equality row has a non-zero right-hand side' flag is latched (only ever set to True inside the loop)", cs.loc(latches[0].stmt) if latches else cs.loc())
    fin = [s for s in ff.order if isinstance(s.stmt, ast.Assign) and any(U(t) == "self.cons_offsets" for t in s.stmt.targets)]
    arr_ = U(offs[0].stmt.targets[0].value) if offs else None
    ok = any(U(s.stmt.value) == arr_ and any(f[0] == "truthy" and (any(n in f[1] for n in flag_names) or "True" in f[1]) for f in s.facts) for s in fin) if offs else False
    # conditional-expression form: self.cons_offsets = cons_offsets if has_offsets else None
    for s in fin:
        v = s.stmt.value
        if offs and isinstance(v, ast.IfExp) and isinstance(v.test, ast.Name) and v.test.id in flag_names and U(v.body) == arr_ and isinstance(v.orelse, ast.Constant) and v.orelse.value is None:
            ok = True
    rep.check(ok, "slack-offsets", cs.qualname, "self.cons_offsets = cons_offsets", "the offsets are kept whenever the flag is set", cs.loc())


def _canon_mask(e: ast.AST) -> str:
    """canonical text of a boolean-mask expression: & / np.logical_and -> and(..) sorted, ~ / np.logical_not -> not(..)."""
    if isinstance(e, ast.BinOp) and isinstance(e.op, ast.BitAnd):
        return "and(" + ", ".join(sorted([_canon_mask(e.left), _canon_mask(e.right)])) + ")"
    if np_call(e, "logical_and") and len(e.args) == 2:
        return "and(" + ", ".join(sorted(_canon_mask(a) for a in e.args)) + ")"
    if isinstance(e, ast.UnaryOp) and isinstance(e.op, ast.Invert):
        return "not(" + _canon_mask(e.operand) + ")"
    if np_call(e, "logical_not") and len(e.args) == 1:
        return "not(" + _canon_mask(e.args[0]) + ")"
    if isinstance(e, ast.Call) and dotted(e.func) == "bool" and len(e.args) == 1:
        return _canon_mask(e.args[0])
    return U(e)


def _create_slacks_mask_form(prog, rep, cs, ff) -> None:
    lb, ub = [q for q in cs.params if q != "self"][:2]
    EQ = f"{lb} == {ub}"
    NE = f"{lb} != {ub}"
    MASK = "and(" + ", ".join(sorted([EQ, f"{lb} != 0.0"])) + ")"
    MASK0 = "and(" + ", ".join(sorted([EQ, f"{lb} != 0"])) + ")"
    # slack positions
    sp_ = [s for s in ff.order if isinstance(s.stmt, ast.Assign) and any(U(t) == "self.slack_positions" for t in s.stmt.targets)]
    if len(sp_) != 1:
        raise AnalysisError("create_slacks (mask form): no unique store to self.slack_positions")
    v = ff.resolved(sp_[0].stmt, sp_[0].stmt.value)
    inner = v
    # strip dtype conversions
    while True:
        if isinstance(inner, ast.Call) and isinstance(inner.func, ast.Attribute) and inner.func.attr == "astype":
            inner = inner.func.value
        elif np_call(inner, "array", "asarray") and inner.args:
            inner = inner.args[0]
        else:
            break
    ok = False
    if np_call(inner, "flatnonzero") and len(inner.args) == 1:
        ok = _canon_mask(inner.args[0]) in (f"not({EQ})", NE)
    elif isinstance(inner, ast.Subscript) and const_value(inner.slice) == 0 and np_call(inner.value, "where", "nonzero") and len(inner.value.args) == 1:
        ok = _canon_mask(inner.value.args[0]) in (f"not({EQ})", NE)
    elif isinstance(inner, ast.ListComp) and len(inner.generators) == 1 and isinstance(inner.generators[0].target, ast.Name) and len(inner.generators[0].ifs) == 1:
        g = inner.generators[0]
        i_ = g.target.id

        class _Strip(ast.NodeTransformer):
            def visit_Subscript(self, n):
                self.generic_visit(n)
                return n.value if isinstance(n.slice, ast.Name) and n.slice.id == i_ else n
        cond = _Strip().visit(ast.parse(U(g.ifs[0]), mode="eval").body)
        cond_txt = U(cond)
        if cond_txt.startswith("not "):
            cm = "not(" + _canon_mask(cond.operand) + ")"
        else:
            cm = _canon_mask(cond)
        rng = g.iter
        n_ok = isinstance(rng, ast.Call) and dotted(rng.func) == "range" and len(rng.args) == 1 and U(rng.args[0]) in (
            f"__item__({lb}.shape, 0)", f"__item__({ub}.shape, 0)", f"len({lb})", f"len({ub})", f"{lb}.size", f"{ub}.size")
        ok = n_ok and U(inner.elt) == i_ and cm in (f"not({EQ})", NE)
    if not ok:
        approx = [k for k in ast.walk(v) if np_call(k, "isclose", "allclose")]
        if approx:
            rep.fail("slack-rows", cs.qualname, short(sp_[0].stmt), f"VIOLATED: rows are classified as equations by an approximate comparison `{U(approx[0])[:60]}`; a narrow range "
                     f"l < u would lose its slack and be solved as c(x) = l (the reformulation is exact only for cons_lb[i] == cons_ub[i])", cs.loc(sp_[0].stmt))
            return
        raise AnalysisError(f"create_slacks (mask form): slack positions `{U(v)[:80]}` not recognised")
    rep.ok("slack-rows", cs.short, "row i gets a slack iff cons_lb[i] != cons_ub[i] (mask form: flatnonzero(not (lb == ub)))")
    # offsets
    offs = [s for s in ff.order if isinstance(s.stmt, ast.Assign) and isinstance(s.stmt.targets[0], ast.Subscript)]
    ok = False
    arr = None
    if len(offs) == 1:
        t = offs[0].stmt.targets[0]
        m1 = _canon_mask(ff.resolved(offs[0].stmt, t.slice))
        val = ff.resolved(offs[0].stmt, offs[0].stmt.value)
        arr = U(t.value)
        ok = m1 in (MASK, MASK0, EQ) and isinstance(val, ast.UnaryOp) and isinstance(val.op, ast.USub) and isinstance(val.operand, ast.Subscript) \
            and U(val.operand.value) == lb and _canon_mask(val.operand.slice) == m1
    rep.check(ok, "slack-offsets", cs.qualname, short(offs[0].stmt) if offs else "", "an equality row i gets the offset -cons_lb[i] (mask form)", cs.loc())
    fin = [s for s in ff.order if isinstance(s.stmt, ast.Assign) and any(U(t) == "self.cons_offsets" for t in s.stmt.targets) and not (isinstance(s.stmt.value, ast.Constant) and s.stmt.value.value is None)]
    ok = False
    for s in fin:
        if arr is not None and U(s.stmt.value) == arr:
            for f in s.facts:
                if f[0] == "truthy":
                    try:
                        e = ast.parse(f[1], mode="eval").body
                    except SyntaxError:
                        continue
                    if isinstance(e, ast.Call) and dotted(e.func) == "bool" and e.args:
                        e = e.args[0]
                    if isinstance(e, ast.Call) and isinstance(e.func, ast.Attribute) and e.func.attr == "any" and _canon_mask(e.func.value) in (MASK, MASK0):
                        ok = True
    rep.check(ok, "slack-offsets", cs.qualname, "self.cons_offsets = cons_offsets", "the offsets are kept whenever some equality row has a non-zero right-hand side (mask form: mask.any())", cs.loc())


def _no_slacks(facts) -> bool:
    L = "len(self.slack_positions)"
    return any(f in facts for f in (("==", L, "0"), ("falsy", L, None), ("<=", L, "0"), ("<", L, "1")))


def _slack_start_generic_loop(ft, st, lp_, tgt, clip_ok):
    """loop variables of `for [i,] (a, b, ..) in [enumerate(]zip(S1, S2, ..)[)]` stand for S1[i], S2[i], ..; a gathered sequence
    indexed again, A[P][i], is A[P[i]].  Returns the verdict of clip_ok on the stored value spelled that way, None if the loop
    is of another kind."""
    import copy as _copy
    it, target = lp_.iter, lp_.target
    idx = None
    if isinstance(it, ast.Call) and dotted(it.func) == "enumerate" and len(it.args) == 1 and isinstance(target, ast.Tuple) and len(target.elts) == 2 \
            and isinstance(target.elts[0], ast.Name):
        idx, target, it = target.elts[0].id, target.elts[1], it.args[0]
    if isinstance(it, ast.Call) and dotted(it.func) == "zip" and isinstance(target, ast.Tuple) and len(target.elts) == len(it.args):
        pairs = list(zip(target.elts, it.args))
    elif isinstance(target, ast.Name):
        pairs = [(target, it)]
    else:
        return None
    if idx is None or not all(isinstance(t, ast.Name) for t, _ in pairs) or not isinstance(tgt, ast.Subscript) or U(tgt.slice) != idx:
        return None
    I = ast.Name(id=idx, ctx=ast.Load())
    sub = {t.id: ast.Subscript(value=ft.resolved(lp_, s_), slice=I, ctx=ast.Load()) for t, s_ in pairs}
    keep = set(sub) | {idx}
    v = _resolve_keep(ft, st, st.value, keep)

    class S(ast.NodeTransformer):
        def visit_Name(self, n):
            return _copy.deepcopy(sub[n.id]) if n.id in sub and isinstance(n.ctx, ast.Load) else n

    class G(ast.NodeTransformer):
        # A[P][i] -> A[P[i]]
        def visit_Subscript(self, n):
            self.generic_visit(n)
            if isinstance(n.value, ast.Subscript) and U(n.slice) == idx and not isinstance(n.value.slice, (ast.Slice, ast.Constant)):
                return ast.copy_location(ast.Subscript(value=n.value.value, slice=ast.Subscript(value=n.value.slice, slice=n.slice, ctx=ast.Load()), ctx=n.ctx), n)
            return n
    v = ast.fix_missing_locations(G().visit(S().visit(_copy.deepcopy(v))))
    return bool(clip_ok(v, f"self.slack_positions[{idx}]"))


def _slack_start(prog, rep, ts, ft, ox) -> None:
    """starting slack k = clip(c(x0)[pos], cons_lb[pos], cons_ub[pos]) with pos = slack_positions[k]; accepted shapes: the
    enumerate loop with one store per k, a comprehension over slack_positions stored as a whole, the vectorised fancy-index form."""
    WHAT = "starting slack i = clip(c(x0)[pos], cons_lb[pos], cons_ub[pos]) with pos = slack_positions[i] (one shared row index)"

    def clip_ok(v, idx_txt):
        cons_txt = f"self.problem.cons({ox})[{idx_txt}]"
        if not (np_call(v, "clip") and len(v.args) == 3 and not v.keywords):
            return False
        a0 = v.args[0]
        if isinstance(a0, ast.Subscript):
            # c(x0) may be passed through np.asarray / np.atleast_1d / np.array first (the values are the same)
            b_ = a0.value
            while np_call(b_, "asarray", "array", "atleast_1d", "asanyarray") and len(b_.args) == 1 and not b_.keywords:
                b_ = b_.args[0]
            a0_txt = f"{U(b_)}[{U(a0.slice)}]"
        else:
            a0_txt = U(a0)
        return [a0_txt] + [U(a) for a in v.args[1:]] == [cons_txt, f"self.problem.cons_lb[{idx_txt}]", f"self.problem.cons_ub[{idx_txt}]"]

    def is_clip(v):
        return any(np_call(n, "clip") for n in ast.walk(v))

    cands = []
    for s in ft.order:
        st = s.stmt
        if isinstance(st, ast.Assign) and len(st.targets) == 1 and is_clip(st.value):
            cands.append(s)
    if not cands:
        raise AnalysisError("transform_sol: no statement computing the starting slacks with np.clip found")
    # follow one level of temporaries: `slack_val = np.clip(..)` then `slack_vals[i] = slack_val`
    finals = []
    for s in cands:
        t = s.stmt.targets[0]
        if isinstance(t, ast.Name) and s.loops:
            for q in ft.order:
                if q.index > s.index and isinstance(q.stmt, ast.Assign) and isinstance(q.stmt.targets[0], ast.Subscript) and U(q.stmt.value) == t.id and q.loops == s.loops:
                    finals.append(q)
        else:
            finals.append(s)
    if len(finals) != 1:
        raise AnalysisError(f"transform_sol: expected one store of the starting slacks, found {len(finals)}")
    s = finals[0]
    st = s.stmt
    tgt = st.targets[0]
    ok = False
    lp_ = s.loops[-1] if s.loops else None
    if isinstance(lp_, ast.For):
        it = lp_.iter
        if isinstance(it, ast.Call) and dotted(it.func) == "enumerate" and it.args and U(ft.resolved(lp_, it.args[0])) == "self.slack_positions" and isinstance(lp_.target, ast.Tuple) and isinstance(tgt, ast.Subscript):
            i_, pos_ = U(lp_.target.elts[0]), U(lp_.target.elts[1])
            v = _resolve_keep(ft, st, st.value, {i_, pos_})
            ptxt = U(ft.at(st).env.get(pos_, ast.Name(id=pos_)))
            v = ast.parse(U(v).replace(ptxt, pos_), mode="eval").body
            ok = U(tgt.slice) == i_ and clip_ok(v, pos_)
        elif isinstance(it, ast.Call) and dotted(it.func) == "range" and isinstance(lp_.target, ast.Name) and isinstance(tgt, ast.Subscript):
            i_ = lp_.target.id
            v = _resolve_keep(ft, st, st.value, {i_})
            ok = U(tgt.slice) == i_ and clip_ok(v, f"self.slack_positions[{i_}]") and len(it.args) == 1 and \
                U(ft.resolved(lp_, it.args[0])) in ("len(self.slack_positions)", "__item__(self.slack_positions.shape, 0)")
        else:
            ok = _slack_start_generic_loop(ft, st, lp_, tgt, clip_ok)
            if ok is None:
                raise AnalysisError("transform_sol: loop computing the starting slacks not recognised")
    else:
        whole = isinstance(tgt, ast.Name) or (isinstance(tgt, ast.Subscript) and isinstance(tgt.slice, ast.Slice) and tgt.slice.lower is None and tgt.slice.upper is None and tgt.slice.step is None)
        v = st.value
        while np_call(v, "array", "asarray", "fromiter") and v.args:
            v = v.args[0]
        if isinstance(v, (ast.ListComp, ast.GeneratorExp)) and len(v.generators) == 1 and not v.generators[0].ifs and isinstance(v.generators[0].target, ast.Name):
            g = v.generators[0]
            pos_ = g.target.id
            elt = _resolve_keep(ft, st, v.elt, {pos_})
            ok = whole and U(ft.resolved(st, g.iter)) == "self.slack_positions" and clip_ok(elt, pos_)
        elif np_call(v, "clip"):
            ok = whole and clip_ok(ft.resolved(st, v), "self.slack_positions")
        else:
            raise AnalysisError("transform_sol: computation of the starting slacks not recognised")
    rep.check(ok, "slack-start", ts.qualname, short(st), WHAT, ts.loc(st))
