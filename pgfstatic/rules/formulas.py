"""Formula context: turns return values of repo functions into algebra Values, inlining
Iterate members, so that they can be compared with oracle formulas written in the same
syntax (parameters are referred to positionally as P0, P1, ... in oracles)."""
from __future__ import annotations

import ast
import copy
from fractions import Fraction
from typing import Dict, List, Optional, Tuple

from ..algebra import CannotNormalise, Poly, Rational, Translator, Value, dot, veq, vrepr
from ..model import AnalysisError, ClassInfo, FuncInfo, Program, dotted, own_nodes, unparse
from ..symex import facts_for, resolve
from .common import U, bind_args, const_value, returns_of

ITER = "pygradflow.iterate.Iterate"
PRIMS = {"x": "vec", "y": "vec", "obj": "scalar", "obj_grad": "vec", "cons": "vec", "cons_jac": "mat"}
SYMBOL = {"x": "x", "y": "y", "obj": "f", "obj_grad": "g", "cons": "c", "cons_jac": "J"}


def subst_scalar(v: Value, name: str, val: Fraction) -> Value:
    if isinstance(v, Poly):
        t: Dict = {}
        for (s, n), c in v.terms.items():
            k = s.count(name)
            s2 = tuple(x for x in s if x != name)
            # also inside H(...) atom names we cannot substitute textually; rules avoid that
            t[(s2, n)] = t.get((s2, n), 0) + c * (val ** k)
        return Poly(t, v.typ)
    if isinstance(v, Rational):
        return Rational(subst_scalar(v.num, name, val), subst_scalar(v.den, name, val))
    if isinstance(v, tuple) and v[0] == "block":
        return ("block", tuple(subst_scalar(x, name, val) for x in v[1]))
    if isinstance(v, tuple) and v[0] == "norm":
        return ("norm", v[1], subst_scalar(v[2], name, val))
    if isinstance(v, tuple) and v[0] == "max":
        return ("max", frozenset(subst_scalar(x, name, val) for x in v[1]))
    return v


class Ctx:
    """evaluation context for expressions inside function `fi`.

    recv_tags: maps the text of a receiver expression to the tag used in atom names.
    param_vals: maps parameter names to Values (when inlining) or to scalar symbols."""

    def __init__(self, prog: Program, fi: Optional[FuncInfo], param_vals: Dict[str, Value], recv_tags: Dict[str, str],
                 self_tag: Optional[str] = None, depth: int = 0, attr_hook=None):
        self.prog = prog
        self.fi = fi
        self.param_vals = param_vals
        self.recv_tags = recv_tags
        self.self_tag = self_tag
        self.depth = depth
        self.attr_hook = attr_hook
        self.it = prog.cls(ITER)
        self.tr = Translator(self.atom_of, self.call_hook)

    # -- leaves ---------------------------------------------------------------
    def tag_of(self, recv: ast.AST) -> Optional[str]:
        t = U(recv)
        if t in self.recv_tags:
            return self.recv_tags[t]
        if t == "self" and self.self_tag is not None:
            return self.self_tag
        return None

    def is_iterate(self, recv: ast.AST) -> bool:
        if U(recv) == "self" and self.fi is not None and self.prog.enclosing_class(self.fi) is self.it:
            return True
        if self.tag_of(recv) is not None and self.tag_of(recv).startswith("it:"):
            return True
        if self.fi is not None:
            return self.it in self.prog.infer_type(self.fi, recv)
        return False

    def atom_of(self, e: ast.AST) -> Optional[Value]:
        if isinstance(e, ast.Name) and e.id in self.param_vals:
            return self.param_vals[e.id]
        if self.attr_hook is not None:
            r = self.attr_hook(e, self)
            if r is not None:
                return r
        if isinstance(e, ast.Attribute) and isinstance(e.ctx, ast.Load) and e.attr != "T":
            recv = e.value
            if self.is_iterate(recv):
                tag = self.tag_of(recv) or ("it:" + U(recv))
                if e.attr in PRIMS:
                    return Poly.atom(f"{SYMBOL[e.attr]}[{tag[3:]}]", PRIMS[e.attr]) if PRIMS[e.attr] != "scalar" else Poly.scalar(f"{SYMBOL[e.attr]}[{tag[3:]}]")
                m = self.prog.lookup_method(self.it, e.attr)
                if m is not None and m.is_property:
                    return self.inline(m, tag, {})
        return None

    def call_hook(self, call: ast.Call, tr: Translator) -> Optional[Value]:
        f = call.func
        if isinstance(f, ast.Attribute) and self.is_iterate(f.value):
            tag = self.tag_of(f.value) or ("it:" + U(f.value))
            if f.attr == "lag_hess" and len(call.args) == 1:
                m = tr.tr(call.args[0])
                if not isinstance(m, Poly):
                    raise CannotNormalise("Hessian multiplier is not a polynomial")
                return Poly.atom(f"H({m!r})[{tag[3:]}]", "mat")
            m = self.prog.lookup_method(self.it, f.attr)
            if m is not None and not m.is_property:
                b = bind_args(m, call)
                if b is None:
                    raise CannotNormalise(f"cannot bind arguments of {U(call)}")
                vals = {k: tr.tr(v) for k, v in b.items()}
                return self.inline(m, tag, vals)
        return None

    # -- inlining ---------------------------------------------------------------
    def inline(self, m: FuncInfo, tag: str, vals: Dict[str, Value]) -> Value:
        if self.depth > 8:
            raise CannotNormalise("inlining too deep")
        return value_of_function(self.prog, m, vals, self_tag=tag, depth=self.depth + 1)

    def value(self, e: ast.AST) -> Value:
        return self.tr.tr(e)


def value_of_function(prog: Program, m: FuncInfo, vals: Dict[str, Value], self_tag: Optional[str] = None, depth: int = 0,
                      recv_tags: Optional[Dict[str, str]] = None, attr_hook=None) -> Value:
    """Value of m's return expression.  Several returns are allowed when the special-case
    returns (guarded by `param == const` facts) agree with the general one under that
    substitution; the general one is returned (or the matching special one when the
    argument is that constant)."""
    ff = facts_for(m)
    rets = [r for r in returns_of(m) if r.value is not None]
    if not rets:
        raise CannotNormalise(f"{m.short} has no return value")
    ctx = Ctx(prog, m, dict(vals), dict(recv_tags or {}), self_tag=self_tag, depth=depth, attr_hook=attr_hook)
    results = []
    for r in rets:
        si = ff.at(r)
        eqs = {}
        others = []
        for op, l, rr in si.facts:
            if op == "==" and rr is not None:
                for a, b in ((l, rr), (rr, l)):
                    if a in m.params:
                        try:
                            k = const_value(ast.parse(b, mode="eval").body)
                        except SyntaxError:
                            k = None
                        if k is not None:
                            eqs[a] = Fraction(k).limit_denominator(10 ** 9)
            elif op == "!=" and rr is not None and (l in m.params or rr in m.params):
                others.append((op, l, rr))
            else:
                others.append((op, l, rr))
        v = ctx.value(ff.resolved(r, r.value))
        results.append((r, eqs, [o for o in others if o[0] not in ("!=",)], v))
    if len(results) == 1:
        return results[0][3]
    general = [x for x in results if not x[1] and not x[2]]
    if len(general) != 1:
        raise CannotNormalise(f"{m.short}: several returns that are not special cases of one general formula")
    g = general[0]
    for r, eqs, others, v in results:
        if r is g[0]:
            continue
        if others:
            raise CannotNormalise(f"{m.short}: return guarded by a non-equality condition")
        gv = g[3]
        vv = v
        for name, k in eqs.items():
            pv = vals.get(name)
            sym = None
            if isinstance(pv, Poly) and len(pv.terms) == 1:
                (s, n), c = next(iter(pv.terms.items()))
                if len(s) == 1 and not n and c == 1:
                    sym = s[0]
            if sym is None:
                # argument is a constant or a compound expression
                kc = pv.is_const() if isinstance(pv, Poly) else None
                if kc is not None:
                    if kc == k:
                        return v  # the special case applies
                    continue
                raise CannotNormalise(f"{m.short}: cannot decide special case for argument {name}")
            gv = subst_scalar(gv, sym, k)
            vv = subst_scalar(vv, sym, k)
        if not veq(gv, vv):
            raise SpecialCaseMismatch(m, r, vrepr(vv), vrepr(gv))
    return g[3]


class SpecialCaseMismatch(Exception):
    def __init__(self, m, ret, special, general):
        super().__init__(f"{m.short}: special-case return differs from the general formula")
        self.m, self.ret, self.special, self.general = m, ret, special, general


def oracle(prog: Program, text: str, fi: Optional[FuncInfo], vals: Dict[str, Value], self_tag: Optional[str] = None,
           recv_tags: Optional[Dict[str, str]] = None, attr_hook=None) -> Value:
    e = ast.parse(text, mode="eval").body
    ctx = Ctx(prog, fi, dict(vals), dict(recv_tags or {}), self_tag=self_tag, attr_hook=attr_hook)
    return ctx.value(e)


def positional_vals(m: FuncInfo, kinds: Dict[int, str]) -> Dict[str, Value]:
    """symbols P0, P1, ... for m's parameters (excluding self); kinds: index -> 'scalar'|'vec'|'mat'|'iterate'."""
    ps = [p for p in m.params if p != "self"]
    out: Dict[str, Value] = {}
    for i, p in enumerate(ps):
        k = kinds.get(i)
        if k == "scalar":
            out[p] = Poly.scalar(f"P{i}")
        elif k in ("vec", "mat"):
            out[p] = Poly.atom(f"P{i}", k)
    return out
