"""C14 - all step-solver and linear-solver choices compute the same Newton step (sibling agreement)."""
from __future__ import annotations

import ast
from typing import Dict, List, Optional, Set, Tuple

from ..algebra import CannotNormalise, Poly, Rational, Translator, Value, veq, vrepr
from ..model import AnalysisError, ClassInfo, FuncInfo, Program, dotted, own_nodes, unparse
from ..symex import atoms_of, facts_for, phi_alternatives, resolve
from .common import U, bind_args, const_value, enum_member, enum_members, is_self_attr, kwarg, np_call, returns_of, short
from .formulas import Ctx, oracle, value_of_function

SS = "pygradflow.step.solver.step_solver.StepSolver"

EXPLANATION = (
    "Numerical equality of the computed steps is not decided.  Decided are the structural preconditions without which the "
    "formulations cannot agree: (1) every update_derivs holds the Hessian at the multiplier y + rho*c (the scaled formulations "
    "eliminate rho*J'J through the (2,2) block, so their Hessian must still be H(y + rho c)) - obtained by partially evaluating "
    "aug_lag_deriv_xx with the literal argument; (2) the elimination constants agree: lower-right block -lambda/(1+lambda rho), "
    "Hessian shift +lambda*I, fact = 1/(1+lambda rho), b2t = fact*b2, dy = fact*(sy - rho*b2), b0 = dt*rx[active], and the "
    "reduced right-hand side of the symmetric solver b1 - H_IA b0, b2t - J_A b0 (rational / polynomial identities); every "
    "update_* invalidates both the assembled matrix and the factorisation; (3) the refresh schedule of the Newton variants "
    "(which of derivative / active set is refreshed in __init__ vs step, and from which iterate, with which rho and tau); (4) "
    "dispatch exhaustiveness of the five factories; (5) StandardStepSolver solves F'(z) s = F(z) of the same func / rho / active set."
)


def _scalar_hook(e: ast.AST, ctx):
    t = U(e)
    if t in ("self.dt", "dt"):
        return Poly.scalar("dt")
    if t in ("self.rho", "rho"):
        return Poly.scalar("rho")
    if t in ("self.lamb",):
        return Rational(Poly.const(1), Poly.scalar("dt"))
    return None


def run(prog: Program, rep, tier: str) -> None:
    rep.explanation = EXPLANATION
    # the step solvers are compared on the formulas they share (aug_lag_deriv_xx, value_at, compute_active_set ..): those must be
    # functions of their arguments - a memo keyed on fewer arguments hands different solvers / different calls different matrices
    from . import c13 as _c13
    _c13.formula_classes_pure(prog, rep, with_iterate=True)
    # every solver builds its system from the same cached evaluations of the iterate (and from shared helpers such as keep_rows):
    # one of them writing into those matrices changes what the next one - or the next step - computes
    _c13.evaluations_not_corrupted(prog, rep)
    overrides_keep_base_effects(prog, rep)
    hessian_multiplier(prog, rep)
    elimination_constants(prog, rep)
    invalidation(prog, rep)
    refresh_schedule(prog, rep)
    dispatch(prog, rep)
    standard_solver(prog, rep)
    asymmetric_structure(prog, rep)
    index_sets(prog, rep)
    # the active-set estimate must be the same function in the scaled and the unscaled residual (lambda * ...): C13's sibling rules
    from . import c13
    from .c01 import _SubReport
    c13.implicit_funcs(prog, _SubReport(rep, keep=("sibling-scaled", "formula-projection_initial")))


# ---------------------------------------------------------------------------------------------------
def hessian_multiplier(prog: Program, rep) -> None:
    ss = prog.cls(SS)
    it = prog.cls("pygradflow.iterate.Iterate")
    xx = it.methods["aug_lag_deriv_xx"]
    n = 0
    covered = set()
    done = set()
    for c in prog.all_subclasses(ss, include_self=False):
        if not prog.in_scope(c):
            continue
        m = prog.lookup_method(c, "update_derivs")
        if m is None or prog.is_stub(m):
            continue
        covered.add(c.name)
        if m.qualname in done:
            continue   # inherited unchanged: decided at the defining class
        done.add(m.qualname)
        c = m.cls if getattr(m, "cls", None) is not None else c
        ff = facts_for(m)
        itp = [p for p in m.params if p != "self"][0]
        calls = [x for x in own_nodes(m.node) if isinstance(x, ast.Call) and isinstance(x.func, ast.Attribute) and x.func.attr == "aug_lag_deriv_xx"]
        if not calls:
            # inherits the Hessian from super().update_derivs (SymmetricStepSolver)
            sup = [x for x in own_nodes(m.node) if isinstance(x, ast.Call) and isinstance(x.func, ast.Attribute) and x.func.attr == "update_derivs" and U(x.func.value) == "super()"]
            rep.check(bool(sup), "hessian-multiplier", m.qualname, "update_derivs", f"{c.name}.update_derivs obtains its Hessian from the parent's update_derivs", m.loc())
            continue
        for call in calls:
            n += 1
            si = ff.stmt_of(call)
            b = bind_args(xx, call)
            if b is None or U(call.func.value) != itp:
                raise AnalysisError(f"{m.short}: cannot bind aug_lag_deriv_xx call")
            arg = ff.resolved(si.stmt, b["rho"])
            if U(arg) == "self.rho":
                argv: Value = Poly.scalar("rho")
            elif const_value(arg) is not None:
                argv = Poly.const(const_value(arg))
            else:
                raise AnalysisError(f"{m.short}: penalty argument `{U(arg)}` of aug_lag_deriv_xx is neither self.rho nor a literal")
            got = value_of_function(prog, xx, {xx.params[1]: argv}, self_tag="it:IT")
            # the multiplier of the Hessian atom
            mults = sorted({a for (s, nn) in got.terms for a in nn if a.startswith("H(")}) if isinstance(got, Poly) else []
            want_m = oracle(prog, "IT.lag_hess(IT.y + rho * IT.cons)", None, {"rho": Poly.scalar("rho")}, recv_tags={"IT": "it:IT"})
            want_atom = next(iter(want_m.terms))[1][0]
            ok_m = mults == [want_atom]
            rep.check(ok_m, "hessian-multiplier", m.qualname, f"Hessian held at multiplier {mults} (aug_lag_deriv_xx called with penalty argument {U(arg)})",
                      f"{c.name} holds the Lagrangian Hessian at the multiplier y + rho*c of ITS rho (found {mults}, required {want_atom})", m.loc(call))
            # standard solver additionally carries rho*J'J, the scaled ones must not (eliminated through the (2,2) block)
            has_jtj = isinstance(got, Poly) and any(nn == ("J[IT]'", "J[IT]") for (s, nn) in got.terms)
            scaled = any(b_.name == "ScaledStepSolver" for b_ in prog.mro(c))
            if ok_m:
                rep.check(has_jtj != scaled, "hessian-multiplier-jtj", m.qualname, short(si.stmt),
                          f"{c.name}: the rho*J'J term is " + ("eliminated through the (2,2) block" if scaled else "part of the Jacobian of the residual") + f" (found {vrepr(got)[:100]})", m.loc(call))
    rep.pin("step solver classes whose effective update_derivs was examined", len(covered), 5)
    rep.pin("update_derivs definitions evaluating the Hessian", n, 2)


# ---------------------------------------------------------------------------------------------------
def _tr(prog, fi, extra=None):
    def hook(e, ctx):
        r = _scalar_hook(e, ctx)
        if r is not None:
            return r
        if extra is not None:
            return extra(e, ctx)
        return None
    return Ctx(prog, fi, {}, {}, attr_hook=hook)


def elimination_constants(prog: Program, rep) -> None:
    want_lower = Rational(-Poly.scalar("lamb") if False else Poly.const(-1), Poly.scalar("dt") + Poly.scalar("rho"))  # -lamb/(1+lamb*rho) with lamb = 1/dt
    n = 0
    for q, meth in (("pygradflow.step.solver.extended_step_solver.ExtendedStepSolver", "_compute_deriv"),
                    ("pygradflow.step.solver.symmetric_step_solver.SymmetricStepSolver", "_compute_deriv"),
                    ("pygradflow.step.solver.asymmetric_step_solver.AsymmetricStepSolver", "compute_deriv")):
        m = prog.func(f"{q}.{meth}")
        ff = facts_for(m)
        found = None
        for s in ff.order:
            st = s.stmt
            if isinstance(st, ast.Assign) and isinstance(st.value, ast.Call) and (dotted(st.value.func) or "").endswith("sparse.diags") and st.value.args \
                    and isinstance(st.value.args[0], ast.List) and len(st.value.args[0].elts) == 1:
                v = ff.resolved(st, st.value.args[0].elts[0])
                sh = kwarg(st.value, "shape")
                dim = U(ff.resolved(st, sh)) if sh is not None else ""
                if "self.m" in dim:
                    found = (st, v)
        if found is None:
            raise AnalysisError(f"{m.short}: no diagonal (2,2) block found")
        st, v = found
        n += 1
        try:
            got = _tr(prog, m).value(v)
        except CannotNormalise as ex:
            raise AnalysisError(f"{m.short}: {ex}")
        rep.check(veq(got, want_lower), "elimination-constant-22", m.qualname, short(st),
                  f"the (2,2) block is -lambda/(1+lambda*rho) with lambda = 1/dt (found {vrepr(got)})", m.loc(st))
    # Hessian shift + lambda I in the three scaled formulations
    for q, meth in (("pygradflow.step.solver.extended_step_solver.ExtendedStepSolver", "_compute_deriv"),
                    ("pygradflow.step.solver.symmetric_step_solver.SymmetricStepSolver", "compute_hess_jac"),
                    ("pygradflow.step.solver.asymmetric_step_solver.AsymmetricStepSolver", "compute_deriv")):
        m = prog.func(f"{q}.{meth}")
        ff = facts_for(m)
        ok = False
        where = None
        for s in ff.order:
            st = s.stmt
            val = None
            if isinstance(st, ast.Assign):
                rv = ff.resolved(st, st.value)
                if isinstance(rv, ast.BinOp) and isinstance(rv.op, ast.Add):
                    val = rv
            elif isinstance(st, ast.AugAssign) and isinstance(st.op, ast.Add):
                val = ast.BinOp(left=ff.resolved(st, ast.parse(U(st.target), mode="eval").body), op=ast.Add(), right=ff.resolved(st, st.value))
            if val is None:
                continue
            for a, b in ((val.left, val.right), (val.right, val.left)):
                if isinstance(b, ast.Call) and (dotted(b.func) or "").endswith("sparse.diags") and b.args and isinstance(b.args[0], ast.List) and len(b.args[0].elts) == 1:
                    lv = b.args[0].elts[0]
                    at = U(a)
                    try:
                        g = _tr(prog, m).value(lv)
                    except CannotNormalise:
                        continue
                    if veq(g, Rational(Poly.const(1), Poly.scalar("dt"))) and ("hess" in at):
                        ok, where = True, st
        n += 1
        rep.check(ok, "elimination-hessian-shift", m.qualname, short(where) if where is not None else "hess + lambda*I",
                  "the Hessian block is shifted by +lambda*I with lambda = 1/dt", m.loc(where) if where is not None else m.loc())
    # ScaledStepSolver.solve back substitution
    sv = prog.func("pygradflow.step.solver.scaled_step_solver.ScaledStepSolver.solve")
    ff = facts_for(sv)
    rs = returns_of(sv)
    if len(rs) != 1:
        raise AnalysisError("ScaledStepSolver.solve: expected one return")
    res = ff.resolved(rs[0], rs[0].value)
    if not (isinstance(res, ast.Call) and dotted(res.func) == "StepResult"):
        raise AnalysisError("ScaledStepSolver.solve does not return a StepResult")
    sr = prog.func("pygradflow.step.solver.step_solver.StepResult.__init__")
    b = bind_args(sr, res)
    itp = [p for p in sv.params if p != "self"][0]
    rhs_t = f"self.initial_rhs({itp})"
    call_t = None
    # vector atoms: sx/sy = components of solve_scaled(b0, b1, fact*b2); b2 = third component of initial_rhs
    def vec_hook(e, ctx):
        t = U(e)
        if t == f"__item__({rhs_t}, 2)":
            return Poly.atom("b2", "vec")
        if t.startswith("__item__(self.solve_scaled(") and t.endswith(", 1)"):
            return Poly.atom("sy", "vec")
        if t.startswith("__item__(self.solve_scaled(") and t.endswith(", 0)"):
            return Poly.atom("sx", "vec")
        return None
    ctx = _tr(prog, sv, vec_hook)
    try:
        dy = ctx.value(b["dy"])
        dx = ctx.value(b["dx"])
    except CannotNormalise as ex:
        raise AnalysisError(f"ScaledStepSolver.solve: {ex}")
    fact = Rational(Poly.scalar("dt"), Poly.scalar("dt") + Poly.scalar("rho"))  # 1/(1+rho/dt)
    tr = ctx.tr
    want_dy = tr._mul(fact, tr._add(Poly.atom("sy", "vec"), -(Poly.scalar("rho") * Poly.atom("b2", "vec"))))
    rep.check(veq(dy, want_dy), "back-substitution", sv.qualname, "dy", f"dy = fact*(sy - rho*b2) with fact = 1/(1+lambda*rho) (found {vrepr(dy)})", sv.loc(rs[0]))
    rep.check(veq(dx, Poly.atom("sx", "vec")), "back-substitution", sv.qualname, "dx", "dx is the x-part of the reduced solution", sv.loc(rs[0]))
    rep.check(U(b["orig_iterate"]) == itp and U(b["active_set"]) == "self.active_set", "back-substitution", sv.qualname, "StepResult", "the step is taken from the iterate that was passed in, with the solver's active set", sv.loc(rs[0]))
    # arguments of solve_scaled: (b0, b1, fact*b2)
    calls = [x for x in own_nodes(sv.node) if isinstance(x, ast.Call) and isinstance(x.func, ast.Attribute) and x.func.attr == "solve_scaled"]
    if len(calls) == 1:
        si = ff.stmt_of(calls[0])
        a = [ff.resolved(si.stmt, x) for x in calls[0].args]
        ok = len(a) == 3 and U(a[0]) == f"__item__({rhs_t}, 0)" and U(a[1]) == f"__item__({rhs_t}, 1)"
        try:
            ok = ok and veq(ctx.value(a[2]), tr._mul(fact, Poly.atom("b2", "vec")))
        except CannotNormalise:
            ok = False
        rep.check(ok, "back-substitution", sv.qualname, short(si.stmt), "the reduced system is solved for (b0, b1, fact*b2)", sv.loc(calls[0]))
    n += 3
    ir = prog.func("pygradflow.step.solver.scaled_step_solver.ScaledStepSolver.initial_rhs")
    fi_ = facts_for(ir)
    r = returns_of(ir)
    ok = False
    if len(r) == 1:
        v = fi_.resolved(r[0], r[0].value)
        itq = [p for p in ir.params if p != "self"][0]
        rhs = f"self.func.value_at({itq}, self.rho, self.active_set)"
        if isinstance(v, ast.Tuple) and len(v.elts) == 3:
            from .common import unitem
            e0, e1, e2 = (unitem(e) for e in v.elts)

            def part(e, kind):
                # rx[<active | inactive index set>] with rx = value_at(..)[:n]
                return isinstance(e, ast.Subscript) and U(e.value) == f"{rhs}[:self.n]" and _index_kind(e.slice, "self.active_set") == kind
            scaled = isinstance(e0, ast.BinOp) and isinstance(e0.op, ast.Mult) and (
                (U(e0.left) == "self.dt" and part(e0.right, "active")) or (U(e0.right) == "self.dt" and part(e0.left, "active")))
            ok = scaled and part(e1, "inactive") and U(e2) == f"{rhs}[self.n:]"
    rep.check(ok, "reduced-rhs", ir.qualname, short(r[0]) if r else "", "b0 = dt*rx[active], b1 = rx[inactive], b2 = ry of value_at(iterate, rho, active_set)", ir.loc())
    # symmetric reduced right-hand side
    cr = prog.func("pygradflow.step.solver.symmetric_step_solver.SymmetricStepSolver.compute_rhs")
    fc = facts_for(cr)
    ai, b0, b1, b2t = [p for p in cr.params if p != "self"][:4]
    r = returns_of(cr)
    def mhook(e, ctx):
        t = U(e)
        if t == f"self.hess_rows[:, {ai}]":
            return Poly.atom("H_IA", "mat")
        if t == f"self.jac[:, {ai}]":
            return Poly.atom("J_A", "mat")
        if t in (b0, b1, b2t):
            return Poly.atom(t, "vec")
        return None
    ok = False
    got = None
    if len(r) == 1:
        try:
            cx = _tr(prog, cr, mhook)
            got = cx.value(fc.resolved(r[0], r[0].value))
            want = ("block", (Poly.atom(b1, "vec") - Poly.atom("H_IA", "mat") * Poly.atom(b0, "vec"), Poly.atom(b2t, "vec") - Poly.atom("J_A", "mat") * Poly.atom(b0, "vec")))
            ok = veq(got, want)
        except CannotNormalise as ex:
            raise AnalysisError(f"SymmetricStepSolver.compute_rhs: {ex}")
    rep.check(ok, "reduced-rhs", cr.qualname, short(r[0]) if r else "", f"the symmetric reduced right-hand side is (b1 - H_IA b0, b2t - J_A b0) (found {vrepr(got) if got is not None else '?'})", cr.loc())
    rep.pin("elimination constants / back-substitution formulas", n, 9)


# ---------------------------------------------------------------------------------------------------
def _self_calls_closure(prog: Program, c: ClassInfo, m: FuncInfo, depth=0) -> List[FuncInfo]:
    out = [m]
    if depth > 4:
        return out
    for x in own_nodes(m.node):
        if isinstance(x, ast.Call) and isinstance(x.func, ast.Attribute) and U(x.func.value) in ("self", "super()"):
            if U(x.func.value) == "super()":
                tgt = None
                for bse in prog.mro(m.cls)[1:]:
                    if x.func.attr in bse.methods:
                        tgt = bse.methods[x.func.attr]
                        break
            else:
                tgt = prog.lookup_method(c, x.func.attr)
            if tgt is not None and tgt not in out:
                out += _self_calls_closure(prog, c, tgt, depth + 1)
    return out


def invalidation(prog: Program, rep) -> None:
    ss = prog.cls(SS)
    n = 0
    for c in prog.all_subclasses(ss, include_self=False):
        if not prog.in_scope(c) or c.name == "ScaledStepSolver" and False:
            continue
        for mname in ("update_derivs", "update_active_set"):
            m = prog.lookup_method(c, mname)
            if m is None or prog.is_stub(m):
                continue
            n += 1
            fns = _self_calls_closure(prog, c, m)
            cleared = set()
            for f in fns:
                for x in own_nodes(f.node):
                    if isinstance(x, ast.Assign) and isinstance(x.value, ast.Constant) and x.value.value is None:
                        for t in x.targets:
                            if is_self_attr(t):
                                cleared.add(t.attr)
            ok = "solver" in cleared and ({"_deriv", "deriv"} & cleared)
            rep.check(bool(ok), "update-invalidates-factorisation", f"{c.qualname}.{mname}", mname,
                      f"{c.name}.{mname} discards both the assembled matrix and its factorisation (cleared: {sorted(cleared)})", m.loc())
    rep.pin("update_* methods checked for invalidation", n, 8)


# ---------------------------------------------------------------------------------------------------
def _calls_on(m: FuncInfo, recv_attr: str) -> List[Tuple[str, List[str], ast.Call]]:
    out = []
    ff = facts_for(m)
    for x in own_nodes(m.node):
        if isinstance(x, ast.Call) and isinstance(x.func, ast.Attribute) and U(x.func.value) in (f"self.{recv_attr}", recv_attr):
            si = ff.stmt_of(x)
            out.append((x.func.attr, [U(ff.resolved(si.stmt, a)) for a in x.args], x))
    return out


def refresh_schedule(prog: Program, rep) -> None:
    base = "pygradflow.newton."
    table = {
        "SimplifiedNewtonMethod": {
            "__init__": [("func.compute_active_set", ["orig_iterate", "rho", "tau"]), ("step_solver.update_active_set", ["<active_set>"]), ("step_solver.update_derivs", ["orig_iterate"])],
            "step": [("step_solver.solve", ["iterate"])],
        },
        "FullNewtonMethod": {
            "__init__": [],
            "step": [("func.compute_active_set", ["iterate", "self.rho", "self.tau"]), ("step_solver.update_active_set", ["<active_set>"]), ("step_solver.update_derivs", ["iterate"]), ("step_solver.solve", ["iterate"])],
        },
        "ActiveSetNewtonMethod": {
            "__init__": [("step_solver.update_derivs", ["orig_iterate"])],
            "step": [("func.compute_active_set", ["iterate", "self.rho", "self.tau"]), ("step_solver.update_active_set", ["<active_set>"]), ("step_solver.solve", ["iterate"])],
        },
    }
    n = 0
    for cname, sched in table.items():
        c = prog.cls(base + cname)
        for mname, want in sched.items():
            m = c.methods.get(mname)
            if m is None:
                inh = prog.lookup_method(c, mname)
                if inh is None or inh.cls is None or not inh.cls.qualname.startswith(base) or inh.cls.name == "NewtonMethod":
                    if want:
                        raise AnalysisError(f"{cname}.{mname} has vanished")
                    continue
                m = inh
            ps = [p for p in m.params if p != "self"]
            got = []
            for recv in ("func", "step_solver"):
                for attr, args, node in _calls_on(m, recv):
                    got.append((f"{recv}.{attr}", args, node))
            # evaluation order: statement order, and inside a statement arguments before the call they are passed to
            eval_pos = {}

            def _number(n, c=[0]):
                for ch in ast.iter_child_nodes(n):
                    if isinstance(ch, (ast.FunctionDef, ast.AsyncFunctionDef, ast.Lambda, ast.ClassDef)):
                        continue
                    _number(ch, c)
                c[0] += 1
                eval_pos[id(n)] = c[0]
            _number(m.node)
            got.sort(key=lambda g: eval_pos.get(id(g[2]), 0))
            norm = []
            for name, args, node in got:
                a2 = []
                for a in args:
                    if ".compute_active_set(" in a:
                        a2.append("<active_set>")
                    else:
                        a2.append(a)
                if (name, a2) not in norm:
                    norm.append((name, a2))
            # in __init__, self.func is step_solver.func and self.step_solver the parameter
            norm = [(nm, [x.replace("step_solver.func", "self.func") for x in ar]) for nm, ar in norm]
            if mname == "__init__":
                # NewtonMethod.__init__ stores (orig_iterate, dt, rho, tau) unchanged (checked below), so after the super().__init__
                # call self.rho / self.tau ARE the parameters
                norm = [(nm, [{"self.rho": "rho", "self.tau": "tau", "self.dt": "dt", "self.orig_iterate": "orig_iterate"}.get(x, x) for x in ar]) for nm, ar in norm]
            want_n = [(nm, list(ar)) for nm, ar in want]
            n += 1
            rep.check(norm == want_n, "newton-refresh-schedule", m.qualname, mname,
                      f"{cname}.{mname} refreshes exactly {want_n} (found {norm})", m.loc())
        # base class stores the constructor arguments under the names used above
    # every variant hands its own (orig_iterate, dt, rho, tau) on to the constructor of its base class, up to NewtonMethod
    for cname in table:
        c = prog.cls(base + cname)
        for k in [c] + [b for b in prog.mro(c)[1:] if b.qualname.startswith(base) and b.name != "NewtonMethod"]:
            ini = k.methods.get("__init__")
            if ini is None:
                continue
            sup = [x for x in own_nodes(ini.node) if isinstance(x, ast.Call) and isinstance(x.func, ast.Attribute) and x.func.attr == "__init__" and U(x.func.value) == "super()"]
            parent = None
            for b in prog.super_bases(ini):
                if "__init__" in b.methods:
                    parent = b.methods["__init__"]
                    break
            if len(sup) != 1 or parent is None:
                raise AnalysisError(f"{k.name}.__init__ does not call super().__init__ exactly once")
            b_ = bind_args(parent, sup[0])
            if b_ is None:
                rep.fail("newton-refresh-schedule", ini.qualname, short(facts_for(ini).stmt_of(sup[0]).stmt), "VIOLATED: the super().__init__ call does not fit the base constructor", ini.loc(sup[0]))
                continue
            for pn in ("orig_iterate", "dt", "rho", "tau"):
                if pn in parent.params and pn in ini.params:
                    got_ = b_.get(pn)
                    okp = isinstance(got_, ast.Name) and got_.id == pn
                    rep.check(okp, "newton-refresh-schedule", ini.qualname, f"super().__init__(.. {pn} ..)",
                              f"{k.name}.__init__ hands its own `{pn}` on to its base class (found {U(got_) if isinstance(got_, ast.AST) else 'the default'}), so self.{pn} used in step() is the constructor's value", ini.loc(sup[0]))
    nm = prog.func(base + "NewtonMethod.__init__")
    st = {U(t): U(x.value) for x in own_nodes(nm.node) if isinstance(x, ast.Assign) for t in x.targets}
    ok = st.get("self.rho") == "rho" and st.get("self.tau") == "tau" and st.get("self.orig_iterate") == "orig_iterate" and st.get("self.dt") == "dt"
    rep.check(ok, "newton-refresh-schedule", nm.qualname, "__init__", "NewtonMethod stores (orig_iterate, dt, rho, tau) unchanged, so self.rho/self.tau in step() are the constructor's values", nm.loc())
    # the ActiveSet variant re-sets the active set whenever it is None or changed
    asm = prog.func(base + "ActiveSetNewtonMethod.step")
    fa = facts_for(asm)
    ups = [s for s in fa.order if isinstance(s.stmt, ast.Expr) and isinstance(s.stmt.value, ast.Call) and U(s.stmt.value.func) == "self.step_solver.update_active_set"]
    # the number of update_active_set calls executed, as a function of N = (no set installed) and C = (installed set differs)
    from .common import UnknownAtom, fact_holds
    table = {}
    try:
        for N_, C_ in ((True, None), (False, True), (False, False)):
            def val(at, N_=N_, C_=C_):
                op, l, r = at
                if (op, l, r) == ("is", "self._curr_active_set", "None"):
                    return N_
                if (op, l, r) == ("isnot", "self._curr_active_set", "None"):
                    return not N_
                if op in ("truthy", "falsy") and r is None and l.startswith("(self._curr_active_set != ") and l.endswith(").any()"):
                    if C_ is None:
                        raise AnalysisError("ActiveSetNewtonMethod.step compares the installed active set although none is installed")
                    return C_ if op == "truthy" else not C_
                raise UnknownAtom(str(at))
            base_f = fa.order[0].facts
            table[(N_, C_)] = sum(1 for s in ups if all(fact_holds(f, val) for f in s.facts if f not in base_f))
    except UnknownAtom as e:
        raise AnalysisError(f"ActiveSetNewtonMethod.step: the condition guarding update_active_set is not a function of `is None` / `!= ... any()`: {e}")
    ok = table == {(True, None): 1, (False, True): 1, (False, False): 0}
    rep.check(ok, "newton-refresh-schedule", asm.qualname, "update_active_set", f"the active set of the ActiveSet variant is (re)installed exactly when none is installed yet or when it changed (calls executed per case: {table})", asm.loc())
    rep.pin("Newton variant methods compared with the schedule table", n, 6)


# ---------------------------------------------------------------------------------------------------
FACTORIES = [
    ("pygradflow.step.solver.step_solver", "pygradflow.params.StepSolverType", "step_solver_type"),
    ("pygradflow.linear_solver.linear_solver", "pygradflow.params.LinearSolverType", "solver_type"),
    ("pygradflow.newton.newton_method", "pygradflow.params.NewtonType", "newton_type"),
    ("pygradflow.step.step_control.step_controller", "pygradflow.params.StepControlType", "step_control_type"),
    ("pygradflow.penalty.penalty_strategy", "pygradflow.params.PenaltyUpdate", "penalty_update"),
]


def _const_str(e: ast.AST, mod=None) -> Optional[str]:
    """value of a string expression built from literals (`'pygradflow.step.' + 'exact_control'`, `"." + "lu_solver"`, f-strings of literals,
    an element of a module-level tuple of literals)"""
    if isinstance(e, ast.Constant) and isinstance(e.value, str):
        return e.value
    if mod is not None and ((isinstance(e, ast.Call) and isinstance(e.func, ast.Name) and e.func.id == "__item__" and len(e.args) == 2)
                            or (isinstance(e, ast.Subscript) and isinstance(e.slice, ast.Constant))):
        base, idx = (e.args[0], e.args[1]) if isinstance(e, ast.Call) else (e.value, e.slice)
        if isinstance(base, ast.Name) and isinstance(idx, ast.Constant) and isinstance(idx.value, int):
            for st in mod.tree.body:
                v = st.value if isinstance(st, (ast.Assign, ast.AnnAssign)) else None
                tg = (st.targets[0] if isinstance(st, ast.Assign) and len(st.targets) == 1 else getattr(st, "target", None)) if v is not None else None
                if isinstance(tg, ast.Name) and tg.id == base.id and isinstance(v, (ast.Tuple, ast.List)) and idx.value < len(v.elts):
                    return _const_str(v.elts[idx.value], mod)
    if isinstance(e, ast.BinOp) and isinstance(e.op, ast.Add):
        a, b = _const_str(e.left, mod), _const_str(e.right, mod)
        return a + b if a is not None and b is not None else None
    if isinstance(e, ast.JoinedStr):
        parts = []
        for v in e.values:
            if isinstance(v, ast.Constant):
                parts.append(str(v.value))
            elif isinstance(v, ast.FormattedValue) and _const_str(v.value) is not None and v.format_spec is None:
                parts.append(_const_str(v.value))
            else:
                return None
        return "".join(parts)
    return None


_MUTATORS = {"clear", "append", "extend", "pop", "popitem", "update", "insert", "remove", "add", "discard", "setdefault", "move_to_end", "reset", "invalidate"}


def _state_effects(m: FuncInfo) -> Set[str]:
    """attributes of self a method re-binds, writes into, or mutates through a container method"""
    out: Set[str] = set()
    for n in own_nodes(m.node):
        if isinstance(n, (ast.Assign, ast.AugAssign, ast.AnnAssign)):
            for t in (n.targets if isinstance(n, ast.Assign) else [n.target]):
                for x in ast.walk(t):
                    if is_self_attr(x) and isinstance(x.ctx, ast.Store):
                        out.add(x.attr)
                if isinstance(t, ast.Subscript) and is_self_attr(t.value):
                    out.add(t.value.attr)
        if isinstance(n, ast.Call) and isinstance(n.func, ast.Attribute) and n.func.attr in _MUTATORS and is_self_attr(n.func.value):
            out.add(n.func.value.attr)
    return out


def overrides_keep_base_effects(prog: Program, rep) -> None:
    """Sibling agreement through inheritance: a method that overrides a concrete base-class method without calling it must still
    do to the object's state what the base version does (re-bind / reset the same attributes) - a cache the base class invalidates
    in `update_derivs` stays stale in a subclass whose override forgets it, and that subclass then computes another step."""
    n = 0
    for c in prog.classes.values():
        if not prog.in_scope(c):
            continue
        for name, m in c.methods.items():
            if name.startswith("__") or not isinstance(m.node, (ast.FunctionDef, ast.AsyncFunctionDef)):
                continue
            for b in prog.mro(c)[1:]:
                bm = b.methods.get(name)
                if bm is None:
                    continue
                eb = _state_effects(bm)
                calls_super = any(isinstance(k, ast.Call) and isinstance(k.func, ast.Attribute) and k.func.attr == name and U(k.func.value).startswith("super(") for k in own_nodes(m.node))
                if eb and not calls_super:
                    n += 1
                    missing = sorted(eb - _state_effects(m))
                    rep.check(not missing, "override-keeps-base-effects", m.qualname, name,
                              f"{c.name}.{name} overrides {b.name}.{name} without calling it and re-binds / resets everything the base version does "
                              f"(base: {sorted(eb)}" + (f"; NOT touched by the override: {missing})" if missing else ")"), m.loc())
                break
    rep.note(f"overrides of state-changing base methods examined: {n}")


def _class_by_name_lookup(prog: Program, f: FuncInfo, e: ast.AST) -> Optional[ClassInfo]:
    """`getattr(importlib.import_module(<literal module name>[, package]), <literal class name>)` is that class (lazy imports of
    optional back ends written as a table of names)"""
    if isinstance(e, ast.Attribute) and isinstance(e.value, ast.Call):
        e = ast.Call(func=ast.Name(id="getattr", ctx=ast.Load()), args=[e.value, ast.Constant(value=e.attr)], keywords=[])     # `import_module(..).Name`
    if not (isinstance(e, ast.Call) and dotted(e.func) == "getattr" and len(e.args) == 2):
        return None
    mod_e, cls_name = e.args[0], _const_str(e.args[1], f.module)
    if cls_name is None or not (isinstance(mod_e, ast.Call) and (dotted(mod_e.func) or "").endswith("import_module") and mod_e.args):
        return None
    mname = _const_str(mod_e.args[0], f.module)
    if mname is None:
        return None
    if mname.startswith("."):
        pkg = f.module.name if getattr(f.module, "is_pkg", False) else f.module.name.rsplit(".", 1)[0]
        mname = pkg + mname
    mod = prog.modules.get(mname)
    if mod is None:
        return None
    return mod.classes.get(cls_name)


def dispatch(prog: Program, rep) -> None:
    for fq, eq, _ in FACTORIES:
        f = prog.func(fq)
        ff = facts_for(f)
        members = enum_members(prog, eq)
        seen: Dict[str, str] = {}
        classes: List[str] = []
        # selection sites: `return Class(..)`, or `var = Class` where the function finally returns `var(..)`
        sites = []
        table_vars = []
        for r in returns_of(f):
            v = r.value
            if not isinstance(v, ast.Call):
                continue
            tgt = prog.resolve_call_target(f, v)
            local_var = isinstance(v.func, ast.Name) and any(isinstance(n_, ast.Name) and n_.id == v.func.id and isinstance(n_.ctx, ast.Store) for n_ in own_nodes(f.node))
            if any(isinstance(t, ClassInfo) for t in tgt) and not local_var:
                sites.append((r, dotted(v.func) or ""))
            elif isinstance(v.func, (ast.Name, ast.Call, ast.Attribute)) and _class_by_name_lookup(prog, f, ff.resolved(r, v.func)) is not None:
                # the class looked up by module and class NAME (importlib + getattr on literals): that class
                sites.append((r, _class_by_name_lookup(prog, f, ff.resolved(r, v.func)).name))
            elif isinstance(v.func, ast.Name) and isinstance(ff.resolved(r, v.func), (ast.Name, ast.Attribute)) \
                    and isinstance(prog.resolve_expr_static(f.module, ff.resolved(r, v.func)), ClassInfo):
                # `cls = C` in this very branch, then `return cls(..)`: the return is the selection site
                sites.append((r, U(ff.resolved(r, v.func))))
            elif isinstance(v.func, ast.Name):
                for q in ff.order:
                    if isinstance(q.stmt, ast.Assign) and len(q.stmt.targets) == 1 and isinstance(q.stmt.targets[0], ast.Name) and q.index < ff.at(r).index:
                        val = q.stmt.value
                        if isinstance(val, (ast.Name, ast.Attribute)) and isinstance(prog.resolve_expr_static(f.module, val), ClassInfo):
                            # does this class value flow to the called name?
                            if U(ff.resolved(r, v.func)).find(U(val)) >= 0 or q.stmt.targets[0].id == v.func.id:
                                sites.append((q.stmt, U(val)))
        # table-driven form: for (member, cls) in TABLE: if key == member: return cls(..)
        for q in ff.order:
            if isinstance(q.stmt, ast.For) and isinstance(q.stmt.target, ast.Tuple) and len(q.stmt.target.elts) == 2:
                tab = ff.resolved(q.stmt, q.stmt.iter)
                if isinstance(tab, ast.Name):
                    tv = prog.resolve_symbol(f.module, tab.id)
                    tab = tv if isinstance(tv, ast.AST) else tab
                    for n_ in f.module.tree.body:
                        if isinstance(n_, ast.Assign) and any(isinstance(t, ast.Name) and t.id == U(q.stmt.iter) for t in n_.targets):
                            tab = n_.value
                        elif isinstance(n_, ast.AnnAssign) and n_.value is not None and U(n_.target) == U(q.stmt.iter):
                            tab = n_.value
                if isinstance(tab, (ast.Tuple, ast.List)) and all(isinstance(e, ast.Tuple) and len(e.elts) == 2 for e in tab.elts):
                    kn, cn = (U(e) for e in q.stmt.target.elts)
                    table_vars.append(cn)
                    body = [b for b in q.stmt.body]
                    okb = len(body) == 1 and isinstance(body[0], ast.If) and not body[0].orelse and len(body[0].body) == 1 and isinstance(body[0].body[0], ast.Return) \
                        and isinstance(body[0].body[0].value, ast.Call) and U(body[0].body[0].value.func) == cn
                    t_ = body[0].test if okb else None
                    okt = okb and isinstance(t_, ast.Compare) and len(t_.ops) == 1 and isinstance(t_.ops[0], ast.Eq) and kn in (U(t_.left), U(t_.comparators[0]))
                    if not okt:
                        raise AnalysisError(f"{f.short}: table-driven dispatch loop is not `for (member, cls) in TABLE: if key == member: return cls(..)`")
                    for e in tab.elts:
                        mm = enum_member(prog, f, e.elts[0], eq)
                        if mm is None:
                            rep.fail("dispatch-exhaustive", f.qualname, U(e), "VIOLATED: a dispatch table key is not a member of the enum", f.loc(q.stmt))
                            continue
                        if mm in seen:
                            rep.fail("dispatch-exhaustive", f.qualname, U(e), f"VIOLATED: enum member {mm} appears twice in the dispatch table", f.loc(q.stmt))
                        seen[mm] = U(e.elts[1])
                        classes.append(U(e.elts[1]))
        for r, cls_name in sites:
            mem = None
            for op, l, rr in ff.at(r).facts:
                if op == "==" and rr is not None:
                    for a, b in ((l, rr), (rr, l)):
                        try:
                            e = ast.parse(b, mode="eval").body
                        except SyntaxError:
                            continue
                        mm = enum_member(prog, f, e, eq)
                        if mm is not None:
                            mem = mm
            if mem is None:
                rep.fail("dispatch-exhaustive", f.qualname, short(r), "VIOLATED: a factory branch is not selected by an enum comparison / assertion", f.loc(r))
                continue
            if mem in seen:
                rep.fail("dispatch-exhaustive", f.qualname, short(r), f"VIOLATED: enum member {mem} selects two branches", f.loc(r))
            seen[mem] = cls_name
            classes.append(cls_name)
        missing = [m for m in members if m not in seen]
        if missing:
            # a selection the rule cannot read (classes looked up by name, built by a helper, ...) is not a missing branch
            accounted = {id(r) for r, _ in sites}
            var_sites = {r.targets[0].id for r, _ in sites if isinstance(r, ast.Assign)}
            unread = [r for r in returns_of(f) if isinstance(r.value, ast.Call) and id(r) not in accounted
                      and not (isinstance(r.value.func, ast.Name) and (r.value.func.id in table_vars or r.value.func.id in var_sites))]
            if unread:
                raise AnalysisError(f"{f.short}: the factory returns `{U(unread[0].value)[:60]}`, which the rule cannot relate to a class (selection not in a recognised form)")
        rep.check(not missing and len(set(classes)) == len(classes), "dispatch-exhaustive", f.qualname, f.name,
                  f"{f.name}: every member of {eq.rsplit('.', 1)[-1]} selects exactly one branch and every branch builds a distinct class (missing {missing}; classes {classes})", f.loc())
    # implementations are complete
    for base_q, needed in ((SS, ("solve", "update_derivs", "update_active_set", "func")), ("pygradflow.linear_solver.linear_solver.LinearSolver", ("solve",)),
                           ("pygradflow.newton.NewtonMethod", ("step",)), ("pygradflow.step.step_control.StepController", ("step",)),
                           ("pygradflow.penalty.PenaltyStrategy", ("update",))):
        b = prog.cls(base_q)
        for c in prog.all_subclasses(b, include_self=False):
            if c.subclasses or not prog.in_scope(c) or c.name == "FixedActiveSetNewtonMethod":
                continue
            for nm in needed:
                m = prog.lookup_method(c, nm)
                rep.check(m is not None and not prog.is_stub(m), "implementations-complete", c.qualname, nm, f"{c.name} implements {nm}", f"{c.module.relpath}:{c.node.lineno}")
    # symmetric solver asks for a symmetric linear solver
    symc = prog.cls("pygradflow.step.solver.symmetric_step_solver.SymmetricStepSolver")
    sym = prog.lookup_method(symc, "linear_solver")
    if sym is None:
        raise AnalysisError("SymmetricStepSolver.linear_solver has vanished")
    fsym = facts_for(sym)

    def is_factory_call(x):
        if not isinstance(x, ast.Call):
            return False
        if dotted(x.func) == "linear_solver":
            return True
        si_ = fsym.stmt_of(x)       # the factory bound to a local / reached through its module first
        return si_ is not None and (U(fsym.resolved(si_.stmt, x.func)) or "").split(".")[-1] == "linear_solver" and not is_self_attr(x.func)
    calls = [x for x in own_nodes(sym.node) if is_factory_call(x)]
    kv = kwarg(calls[0], "symmetric") if len(calls) == 1 else None
    ok = isinstance(kv, ast.Constant) and kv.value is True
    if not ok and is_self_attr(kv):
        # a class-level flag: the value SymmetricStepSolver's own class body (or the nearest base) binds, never stored on instances
        val = None
        for k_ in prog.mro(symc):
            for st_ in k_.node.body:
                tg_ = st_.targets[0] if isinstance(st_, ast.Assign) and len(st_.targets) == 1 else getattr(st_, "target", None)
                if isinstance(tg_, ast.Name) and tg_.id == kv.attr and getattr(st_, "value", None) is not None and val is None:
                    val = st_.value
            if val is not None:
                break
        stored = any(isinstance(n_, ast.Attribute) and n_.attr == kv.attr and isinstance(n_.ctx, ast.Store) for f_ in prog.functions.values() for n_ in own_nodes(f_.node))
        ok = isinstance(val, ast.Constant) and val.value is True and not stored
    rep.check(ok, "dispatch-exhaustive", sym.qualname, "linear_solver(..., symmetric=True)", "the symmetric formulation requests a symmetric linear solver", sym.loc())


def _index_kind(e: ast.AST, A: str) -> Optional[str]:
    """'active' / 'inactive' if e selects exactly the entries where the boolean mask A is set / not set: the mask itself (or its
    negation), or np.where / np.nonzero (..)[0] / np.flatnonzero of it."""
    def mask_kind(m):
        t = U(m)
        if t == A:
            return "active"
        if t in (f"np.logical_not({A})", f"~{A}", f"np.invert({A})"):
            return "inactive"
        return None
    k = mask_kind(e)
    if k:
        return k
    if isinstance(e, ast.Subscript) and const_value(e.slice) == 0 and np_call(e.value, "where", "nonzero") and len(e.value.args) == 1:
        return mask_kind(e.value.args[0])
    if np_call(e, "flatnonzero") and len(e.args) == 1:
        return mask_kind(e.args[0])
    return None


def standard_solver(prog: Program, rep) -> None:
    m = prog.func("pygradflow.step.solver.standard_step_solver.StandardStepSolver.solve")
    ff = facts_for(m)
    itp = [p for p in m.params if p != "self"][0]
    rs = returns_of(m)
    if not rs:
        raise AnalysisError("StandardStepSolver.solve: no return")
    sr = prog.func("pygradflow.step.solver.step_solver.StepResult.__init__")
    rhs = f"self.func.value_at({itp}, self.rho, self.active_set)"
    for r in rs:
        res = ff.resolved(r, r.value)
        b = bind_args(sr, res) if isinstance(res, ast.Call) else None
        if b is None:
            raise AnalysisError("StandardStepSolver.solve does not return StepResult(...)")
        dx, dy = U(b["dx"]), U(b["dy"])
        ok = dx.endswith("[:self.n]") and dy.endswith("[self.n:]") and dx[: -len("[:self.n]")] == dy[: -len("[self.n:]")] and f".solve({rhs})" in dx
        rep.check(ok, "standard-solver-wiring", m.qualname, short(r), "the Newton step is the solution of the linear system with right-hand side func.value_at(iterate, rho, active_set), split at n", m.loc(r))
    cd = prog.func("pygradflow.step.solver.standard_step_solver.StandardStepSolver._compute_deriv")
    st = [x for x in own_nodes(cd.node) if isinstance(x, ast.Assign) and any(U(t) == "self.deriv" for t in x.targets)]
    ok = len(st) == 1 and U(st[0].value) == "self.func.deriv(self.jac, self.hess, self.active_set)"
    if not ok and len(st) == 1 and isinstance(st[0].value, ast.Call) and U(st[0].value.func) == "self.func.deriv":
        # the same call with keyword arguments: bound by the parameter names of every `deriv` it can reach
        tg = [t for t in prog.resolve_call_target(cd, st[0].value) if isinstance(t, FuncInfo)]
        bs = [bind_args(t, st[0].value) for t in tg]
        ok = bool(tg) and all(b is not None and [U(b[p_]) for p_ in [q for q in t.params if q != "self"][:3]] == ["self.jac", "self.hess", "self.active_set"]
                              and len([q for q in t.params if q != "self"]) == 3 for t, b in zip(tg, bs))
    rep.check(ok, "standard-solver-wiring", cd.qualname, short(st[0]) if st else "", "the system matrix is func.deriv(jac, hess, active_set) of the same func and active set", cd.loc())
    ud = prog.func("pygradflow.step.solver.standard_step_solver.StandardStepSolver.update_derivs")
    itq = [p for p in ud.params if p != "self"][0]
    fu = facts_for(ud)
    st = {U(t): U(fu.resolved(x, x.value)) for x in own_nodes(ud.node) if isinstance(x, ast.Assign) for t in x.targets}
    ok = st.get("self._jac") == f"copy.copy({itq}.aug_lag_deriv_xy())"
    rep.check(ok, "standard-solver-wiring", ud.qualname, "self._jac", "the Jacobian block is the constraint Jacobian of the same iterate", ud.loc())


def asymmetric_structure(prog: Program, rep) -> None:
    """producer / consumer agreement inside AsymmetricStepSolver: overwrite_active_rows walks indptr/indices as ROWS, so the block
    matrix must be assembled in CSR; the active rows become identity rows and the right-hand side carries b0 there.  All
    constructs are identified by role (what they slice / what is stored into them), not by the names of the locals."""
    from ..symex import resolve as _res
    q = "pygradflow.step.solver.asymmetric_step_solver.AsymmetricStepSolver"
    cd = prog.func(q + ".compute_deriv")
    ff = facts_for(cd)
    bm = [n for n in own_nodes(cd.node) if isinstance(n, ast.Call) and (dotted(n.func) or "").endswith("sparse.bmat")]
    if len(bm) != 1:
        raise AnalysisError("AsymmetricStepSolver.compute_deriv: expected one bmat call")
    si = ff.stmt_of(bm[0])
    fmt = kwarg(bm[0], "format")
    fmt = ff.resolved(si.stmt, fmt) if fmt is not None else None
    ow = prog.func(q + ".overwrite_active_rows")
    fo = facts_for(ow)
    mat = [p for p in ow.params if p != "self"][0]
    uses_rows = any(isinstance(n, ast.Attribute) and n.attr == "indptr" and U(n.value) == mat for n in own_nodes(ow.node))
    if not uses_rows:
        raise AnalysisError("overwrite_active_rows no longer walks the matrix through indptr/indices")
    rep.check(isinstance(fmt, ast.Constant) and fmt.value == "csr", "asymmetric-row-format", cd.qualname, U(bm[0])[:80],
              f"the matrix whose ACTIVE ROWS are overwritten through indptr/indices is assembled in CSR (found format={U(fmt) if fmt is not None else None})", cd.loc(bm[0]))
    blocks = ff.resolved(si.stmt, bm[0].args[0]) if bm[0].args else None
    ok = False
    if isinstance(blocks, ast.List) and len(blocks.elts) == 2:
        r0, r1 = blocks.elts
        if isinstance(r0, ast.List) and isinstance(r1, ast.List) and len(r0.elts) == 2 and len(r1.elts) == 2:
            t = [U(e) for e in (r0.elts[0], r0.elts[1], r1.elts[0], r1.elts[1])]
            ok = t[1] == "self.jac.T" and t[2] == "self.jac" and "sparse.diags" in t[3] and "self.hess" in t[0] and "sparse.diags" in t[0]
    rep.check(ok, "asymmetric-blocks", cd.qualname, U(bm[0].args[0])[:80] if bm[0].args else "", "the asymmetric system is [[H + lambda I, J'], [J, -lambda/(1+lambda rho) I]] before the active rows are replaced", cd.loc(bm[0]))
    calls = [n for n in own_nodes(cd.node) if isinstance(n, ast.Call) and U(n.func) == "self.overwrite_active_rows"]
    tgt = si.stmt.targets[0] if isinstance(si.stmt, ast.Assign) else None
    rep.check(len(calls) == 1 and tgt is not None and U(calls[0].args[0]) == U(tgt), "asymmetric-blocks", cd.qualname, "overwrite_active_rows(deriv)",
              "the active rows of that matrix are replaced by identity rows", cd.loc())

    # identity rows: in the row slice [indptr[j], indptr[j+1]) all stored entries are zeroed and the diagonal entry set to one
    loops = [x for x in fo.order if isinstance(x.stmt, ast.For) and not x.loops]
    if len(loops) != 1 or not isinstance(loops[0].stmt.target, ast.Name):
        raise AnalysisError("overwrite_active_rows: expected one loop over the variables")
    lp = loops[0].stmt
    j = lp.target.id
    sub_stores = [x for x in fo.order if isinstance(x.stmt, ast.Assign) and len(x.stmt.targets) == 1 and isinstance(x.stmt.targets[0], ast.Subscript) and lp in x.loops]
    if not sub_stores:
        raise AnalysisError("overwrite_active_rows: no stores into the row slices found")

    def keep_j(x, e):
        """resolve e at x, then spell the loop variable's value as `j` again."""
        env = fo.at(x.stmt).env
        txt = U(_res(e, env))
        jt = U(env[j]) if j in env else j
        return ast.parse(txt.replace(jt, j), mode="eval").body if not isinstance(e, ast.Slice) else ast.parse("_[" + txt.replace(jt, j) + "]", mode="eval").body.slice

    def row_view(x, base, which):
        """base is <matrix>.<which>[indptr[j]:indptr[j + 1]]"""
        v = keep_j(x, base)
        return isinstance(v, ast.Subscript) and U(v.value) == f"{mat}.{which}" and isinstance(v.slice, ast.Slice) and v.slice.step is None \
            and v.slice.lower is not None and v.slice.upper is not None and U(v.slice.lower) == f"{mat}.indptr[{j}]" and U(v.slice.upper) == f"{mat}.indptr[{j} + 1]"

    zero = one = colfix = None
    other = []
    for x in sub_stores:
        t = x.stmt.targets[0]
        sl = t.slice
        full = isinstance(sl, ast.Slice) and sl.lower is None and sl.upper is None and sl.step is None
        if row_view(x, t.value, "data"):
            if full:
                zero = (x, const_value(x.stmt.value))
            else:
                kk = keep_j(x, sl)
                pos_ok = np_call(kk, "searchsorted") and len(kk.args) == 2 and U(kk.args[1]) == j and \
                    isinstance(kk.args[0], ast.Subscript) and U(kk.args[0].value) == f"{mat}.indices" and U(kk.args[0].slice) == f"{mat}.indptr[{j}]:{mat}.indptr[{j} + 1]"
                one = (x, const_value(x.stmt.value), pos_ok)
        elif row_view(x, t.value, "indices"):
            colfix = (x, U(keep_j(x, x.stmt.value)))
        else:
            other.append(x)
    if zero is None or one is None:
        raise AnalysisError("overwrite_active_rows: the zeroing / diagonal store into the row's data slice was not recognised")
    ok = zero[1] == 0 and one[1] == 1 and one[2] and zero[0].index < one[0].index and (colfix is None or colfix[1] == j) and not other
    rep.check(ok, "asymmetric-blocks", ow.qualname, "identity rows", "row j of an active variable becomes e_j (all stored entries zeroed, the diagonal entry - located by searchsorted "
              "in the row's column indices - set to one)", ow.loc(one[0].stmt))
    # ... and only for active j < n
    it = fo.resolved(lp, lp.iter)
    dom_ok = False
    act = f"self.active_set[{j}]"
    if isinstance(it, ast.Call) and dotted(it.func) == "range" and len(it.args) == 1 and U(it.args[0]) == "self.n":
        fs = [f for f in fo.at(one[0].stmt).facts]
        env_j = U(fo.at(one[0].stmt).env.get(j, ast.Name(id=j)))
        dom_ok = any(f[0] == "truthy" and f[1] in (act, f"self.active_set[{env_j}]") for f in fs)
    elif np_call(it, "flatnonzero") and len(it.args) == 1 and U(it.args[0]) in ("self.active_set", "self.active_set[:self.n]"):
        dom_ok = True
    elif isinstance(it, ast.Subscript) and const_value(it.slice) == 0 and np_call(it.value, "where", "nonzero") and len(it.value.args) == 1 and U(it.value.args[0]) in ("self.active_set", "self.active_set[:self.n]"):
        dom_ok = True
    elif isinstance(it, ast.ListComp) and len(it.generators) == 1 and isinstance(it.generators[0].target, ast.Name) and U(it.elt) == it.generators[0].target.id \
            and len(it.generators[0].ifs) == 1 and U(it.generators[0].iter) == "range(self.n)" and U(it.generators[0].ifs[0]) == f"self.active_set[{it.generators[0].target.id}]":
        dom_ok = True
    else:
        raise AnalysisError(f"overwrite_active_rows: iteration domain `{U(it)[:80]}` not recognised")
    rep.check(dom_ok, "asymmetric-blocks", ow.qualname, short(lp), "exactly the rows of ACTIVE variables are replaced", ow.loc(lp))

    cr = prog.func(q + ".compute_rhs")
    fr = facts_for(cr)
    b0, b1, b2t = [p for p in cr.params if p != "self"][:3]
    got = {}
    for x in fr.order:
        if isinstance(x.stmt, ast.Assign) and len(x.stmt.targets) == 1 and isinstance(x.stmt.targets[0], ast.Subscript):
            t = x.stmt.targets[0]
            got[U(fr.resolved(x.stmt, x.stmt.value))] = (U(fr.resolved(x.stmt, t.value)), U(fr.resolved(x.stmt, t.slice)))
    rets = returns_of(cr)
    base = U(fr.resolved(rets[0], rets[0].value)) if len(rets) == 1 else None
    ok = base is not None and got.get(b2t) == (base, "-self.m:") and got.get(b0) == (f"{base}[:self.n]", "self.active_set") and \
        got.get(b1) == (f"{base}[:self.n]", "np.logical_not(self.active_set)")
    rep.check(ok, "asymmetric-blocks", cr.qualname, "rhs", f"the right-hand side carries b0 on the active rows, b1 on the inactive ones and b2t on the constraint rows (found {got})", cr.loc())


def index_sets(prog: Program, rep) -> None:
    """The scaled formulations order the rows of their reduced system by index sets derived from the active set, and the
    right-hand side (ScaledStepSolver.initial_rhs / back-substitution) is ordered by index sets computed independently.  They
    agree only if every such set is the ASCENDING enumeration of the mask (np.where / np.nonzero / np.flatnonzero of the mask or
    its negation) - or the boolean mask itself.  Any other derivation from the active set is either rejected (unstable argsort)
    or not understood (analysis error)."""
    MASKS = {"self.active_set", "np.logical_not(self.active_set)", "~self.active_set", "self._active_set", "np.logical_not(self._active_set)",
             "active_set", "np.logical_not(active_set)", "~active_set"}

    def canonical(e: ast.AST) -> bool:
        t = U(e)
        if t in MASKS:
            return True
        if isinstance(e, ast.Subscript) and const_value(e.slice) == 0 and np_call(e.value, "where", "nonzero") and len(e.value.args) == 1 and U(e.value.args[0]) in MASKS:
            return True
        if np_call(e, "flatnonzero") and len(e.args) == 1 and U(e.args[0]) in MASKS:
            return True
        return False

    n = 0
    ss = prog.cls(SS)
    classes = [c for c in prog.all_subclasses(ss, include_self=True) if prog.in_scope(c)]
    for c in classes:
        for m in c.methods.values():
            if m.name in ("__init__", "update_active_set", "active_set", "overwrite_active_rows", "compute_rhs", "initial_sol"):
                continue   # mask-valued uses only; decided by the asymmetric-structure rules
            ff = facts_for(m)
            for s in ff.order:
                st = s.stmt
                if not isinstance(st, ast.Assign) or len(st.targets) != 1:
                    continue
                tgs = st.targets[0].elts if isinstance(st.targets[0], ast.Tuple) else [st.targets[0]]
                if not all(isinstance(t, ast.Name) for t in tgs):
                    continue
                v = ff.resolved(st, st.value)
                vals = v.elts if isinstance(v, ast.Tuple) and len(v.elts) == len(tgs) else ([v] if len(tgs) == 1 else [])
                for t, val in zip(tgs, vals):
                    txt = U(val)
                    if "active_set" not in txt:
                        continue
                    # index-valued: (a slice / component of) a call that enumerates or orders positions of the mask
                    top = val
                    while isinstance(top, ast.Subscript):
                        top = top.value
                    if not (np_call(top, "where", "nonzero", "flatnonzero", "argsort", "argwhere", "lexsort") or
                            (isinstance(top, ast.Call) and isinstance(top.func, ast.Attribute) and top.func.attr in ("argsort", "nonzero"))):
                        continue
                    n += 1
                    unstable = any(np_call(k, "argsort") and not any(kw.arg == "kind" and const_value(kw.value) in ("stable", "mergesort") for kw in k.keywords)
                                   for k in ast.walk(val)) or any(isinstance(k, ast.Call) and isinstance(k.func, ast.Attribute) and k.func.attr == "argsort" and
                                                                  not any(kw.arg == "kind" and const_value(kw.value) in ("stable", "mergesort") for kw in k.keywords) for k in ast.walk(val))
                    if unstable:
                        rep.fail("index-sets-ascending", m.qualname, short(st),
                                 f"VIOLATED: `{t.id}` is obtained by an argsort without kind='stable' ({txt[:80]}); the order inside the active / inactive group is then unspecified, "
                                 f"while the right-hand side is ordered by the ascending index sets", m.loc(st))
                    elif canonical(val):
                        rep.ok("index-sets-ascending", m.short, f"`{t.id}` = {txt[:70]} (ascending enumeration of the mask)")
                    else:
                        raise AnalysisError(f"{m.short}: index set `{t.id} = {txt[:80]}` is derived from the active set in an unrecognised way")
    rep.pin("index sets derived from the active set", n, 8)
