"""C09 - observation does not perturb the computation (observer-region effect analysis)."""
from __future__ import annotations

import ast
from typing import Dict, List, Optional, Set, Tuple

from ..excflow import ExcFlow, header_exprs, walk_expr
from ..model import AnalysisError, ClassInfo, FuncInfo, Program, dotted, own_nodes, unparse
from ..symex import atoms_of, facts_for, phi_alternatives
from .common import U, bind_args, const_value, is_self_attr, kwarg, np_call, parent_map, returns_of, short
from . import c10

EXPLANATION = (
    "Observer code is a syntactic category: statements control-dependent on display / display_iterate, the effective log level, "
    "collect_path / `path is not None`, params.report_rcond, and the observer-only functions (display.py, cond_estimate.py, "
    "StepController.display_step, the res_func closure, StepSolver.estimate_rcond, print_result, print_problem_stats).  Decided: "
    "(a) observer code stores only to its own locals, to objects of observer classes and to the two controller slots display / "
    "res_func (read only by observer code); (b) no feedback: rcond, the display flag and the log level are used only in observer "
    "conditions, display columns and result slots that only the display reads; (c) containment: no exception of the internal failure "
    "classes nor any explicit raise can leave an observer region or observer-only function (the lazy display entries are evaluated "
    "inside StateData.__getitem__'s `except Exception`; the condition estimator's solves inside estimate_rcond's handler); (d) "
    "randomness / clocks are private (C10.6); (e) the recorded path only appends fresh copies (Iterate.z concatenates).  "
    "Data-dependent asserts and math domain errors inside the condition estimator are listed as undecided."
)

OBSERVER_MODULES = ("pygradflow.display", "pygradflow.step.cond_estimate")
OBSERVER_FUNCS = (
    "pygradflow.step.step_control.StepController.display_step",
    "pygradflow.step.step_control.StepController.compute_step.<locals>.res_func",
    "pygradflow.step.solver.step_solver.StepSolver.estimate_rcond",
    "pygradflow.solver.Solver.print_result",
)
OBSERVER_CLASSES_PREFIX = ("pygradflow.display.", "pygradflow.step.cond_estimate.", "pygradflow.timer.SimpleTimer")
CONTROLLER_OBSERVER_SLOTS = {"display", "res_func"}
INTERNAL = ("pygradflow.eval.EvalError", "pygradflow.step.step_solver_error.StepSolverError", "pygradflow.linear_solver.linear_solver.LinearSolverError")


DERIVED_OBSERVERS: Set[str] = set()


def is_observer_func(fi: FuncInfo) -> bool:
    q = fi.qualname
    if any(q == o or q.startswith(o + ".") for o in DERIVED_OBSERVERS):
        return True
    return fi.module.name in OBSERVER_MODULES or any(q == o or q.startswith(o + ".") for o in OBSERVER_FUNCS)


def derive_observers(prog: Program) -> None:
    """A helper that did not exist on the pinned tree (extract-method) and whose every call site lies in observer code is
    observer code itself - all observer rules (stores, raises, no feedback) then apply to its body."""
    from ..inline import known_functions
    known = known_functions()
    DERIVED_OBSERVERS.clear()
    new = [f for f in prog.functions.values() if f.qualname not in known and "<locals>" not in f.qualname and prog.in_scope(f)]
    if not new:
        return
    sites: Dict[str, List[Tuple[FuncInfo, ast.Call]]] = {f.qualname: [] for f in new}
    for fi in prog.iter_functions():
        for c in own_nodes(fi.node):
            if isinstance(c, ast.Call):
                nm = c.func.attr if isinstance(c.func, ast.Attribute) else (c.func.id if isinstance(c.func, ast.Name) else None)
                if nm is None or not any(q.rsplit(".", 1)[-1] == nm for q in sites):
                    continue
                for t in prog.resolve_call_target(fi, c):
                    if isinstance(t, FuncInfo) and t.qualname in sites:
                        sites[t.qualname].append((fi, c))
    changed = True
    while changed:
        changed = False
        for q, ss in sites.items():
            if q in DERIVED_OBSERVERS or not ss:
                continue
            ok = True
            for fi, c in ss:
                if is_observer_func(fi):
                    continue
                s = facts_for(fi).stmt_of(c)
                if s is None or not any(observer_fact(f) for f in s.facts):
                    ok = False
            if ok:
                DERIVED_OBSERVERS.add(q)
                changed = True


GATED_TEXTS: Set[str] = set()


def derive_gated(prog: Program) -> None:
    """locals that are non-None only under an observer condition (`rec = Recorder(..) if collect_path else None`, or `rec = None`
    followed by a construction under `if collect_path:`): `rec is not None` then IS an observer condition.  The names and the
    texts their values resolve to are recorded for observer_fact."""
    GATED_TEXTS.clear()
    for fi in prog.iter_functions():
        if not prog.in_scope(fi):
            continue
        tests = [n for n in own_nodes(fi.node) if isinstance(n, ast.Compare) and len(n.ops) == 1 and isinstance(n.ops[0], (ast.Is, ast.IsNot)) and isinstance(n.left, ast.Name)
                 and isinstance(n.comparators[0], ast.Constant) and n.comparators[0].value is None]
        if not tests:
            continue
        ff = facts_for(fi)
        for v in {t.left.id for t in tests}:
            if v in fi.params:
                continue
            stores = [q for q in ff.order if isinstance(q.stmt, (ast.Assign, ast.AnnAssign)) and getattr(q.stmt, "value", None) is not None
                      and any(isinstance(t, ast.Name) and t.id == v for t in (q.stmt.targets if isinstance(q.stmt, ast.Assign) else [q.stmt.target]))]
            live = [q for q in stores if not (isinstance(q.stmt.value, ast.Constant) and q.stmt.value.value is None)]
            if not live or len(live) == len(stores) and not all(isinstance(q.stmt.value, ast.IfExp) for q in live):
                continue

            def gated(q):
                if any(_observer_fact0(f) for f in q.facts):
                    return True
                val = q.stmt.value
                return isinstance(val, ast.IfExp) and isinstance(val.orelse, ast.Constant) and val.orelse.value is None \
                    and any(_observer_fact0(f) for f in atoms_of(ff.resolved(q.stmt, val.test), True))
            if all(gated(q) for q in live):
                GATED_TEXTS.add(v)
                for q in ff.order:
                    e = q.env.get(v)
                    if e is not None and not (isinstance(e, ast.Constant) and e.value is None):
                        GATED_TEXTS.add(U(e))


def observer_fact(f) -> bool:
    op, l, r = f
    if op == "isnot" and r == "None" and l in GATED_TEXTS:
        return True
    return _observer_fact0(f)


def _observer_fact0(f) -> bool:
    op, l, r = f
    if op == "truthy":
        if l in ("display", "display_iterate") or l.endswith(".should_display()") or l.endswith("params.report_rcond") or l.endswith("params.collect_path") or l == "self.display":
            return True
    if op == "isnot" and r == "None" and ("collect_path" in l or l == "path"):
        return True
    if op == "isnot" and r == "None" and l.startswith("__phi__(") and "create_transformed_iterate" in l and l.endswith("None)"):
        return True  # `path is not None` with path = [initial.z] if collect_path else None
    return False


def getters_pure(prog: Program, rep) -> None:
    """display code reads members of iterates and step results lazily and in an order the algorithm does not control, so a
    property getter must not change the object it is read from (functools.cached_property keeps its memo itself): otherwise the
    value another member returns depends on whether a display row touched this one first."""
    n = 0
    for f in prog.iter_functions():
        if not prog.in_scope(f) or f.cls is None:
            continue
        decs = f.decorators if hasattr(f, "decorators") else []
        if not (f.is_property or any("cached_property" in d or "lazy" in d for d in decs)):
            continue
        n += 1
        selfn = f.node.args.args[0].arg if f.node.args.args else "self"
        bad = None
        for x in own_nodes(f.node):
            tg = []
            if isinstance(x, ast.Assign):
                tg = x.targets
            elif isinstance(x, (ast.AugAssign, ast.AnnAssign)):
                tg = [x.target]
            elif isinstance(x, ast.Delete):
                tg = x.targets
            for t in tg:
                for el in (t.elts if isinstance(t, (ast.Tuple, ast.List)) else [t]):
                    base = el
                    while isinstance(base, (ast.Subscript, ast.Attribute)):
                        if isinstance(base, ast.Attribute) and isinstance(base.value, ast.Name) and base.value.id == selfn:
                            bad = bad or x
                        base = base.value
        rep.check(bad is None, "getters-are-pure", f.qualname, short(bad) if bad is not None else f.name,
                  f"the getter {f.short} stores nothing on its object (what other members return cannot depend on whether it was read)", f.loc(bad) if bad is not None else f.loc())
    rep.pin("property getters examined", n, 35)


def run(prog: Program, rep, tier: str) -> None:
    rep.explanation = EXPLANATION
    rep.assumptions += ["user callbacks registered with Solver.callbacks are the user's code (exempt)",
                        "problem callbacks are deterministic functions of x, so filling an iterate's cached evaluation from display code is memoisation, not a state change"]
    # math-domain errors (math.pow / math.log / math.sqrt ...) are modelled as raise sites inside observer-only code: a
    # display-only computation must not be able to abort the solve through them either (exhibited: math.pow(0, -0.5) for an
    # empty reduced system under report_rcond, fixed in 9ba1357)
    derive_gated(prog)
    derive_observers(prog)
    # the evaluator is shared by observer code and the algorithm: if it remembers anything between calls, what the display
    # evaluates changes what the algorithm sees
    from . import c19 as _c19
    _c19.evaluator_memoryless(prog, rep)
    if DERIVED_OBSERVERS:
        rep.note(f"helpers called from observer code only, treated as observer code: {sorted(DERIVED_OBSERVERS)}")
    x = ExcFlow(prog, partial_math=lambda f: is_observer_func(f))
    obs_funcs = [f for f in prog.iter_functions() if prog.in_scope(f) and is_observer_func(f)]
    rep.pin("observer-only functions", len(obs_funcs), 40)

    # ---- regions in algorithm functions ----------------------------------------------------------
    regions: List[Tuple[FuncInfo, object]] = []
    for fi in prog.iter_functions():
        if not prog.in_scope(fi) or is_observer_func(fi):
            continue
        ff = facts_for(fi)
        for s in ff.order:
            if any(observer_fact(f) for f in s.facts):
                regions.append((fi, s))
    rep.pin("statements inside observer regions of algorithm code", len(regions), 25)

    # ---- (a) stores -------------------------------------------------------------------------------------
    def check_store(fi: FuncInfo, node: ast.AST, where: str):
        # node: an Attribute in Store context, or a Subscript store, or an in-place call
        base = node
        while isinstance(base, (ast.Subscript,)):
            base = base.value
        if isinstance(base, ast.Attribute):
            recv_types = prog.infer_type(fi, base.value)
            names = {t.qualname for t in recv_types}
            if names and all(n.startswith(OBSERVER_CLASSES_PREFIX) for n in names):
                return True, "observer object"
            if U(base.value) == "self":
                cls = prog.enclosing_class(fi)
                if cls is not None and cls.qualname.startswith(OBSERVER_CLASSES_PREFIX):
                    return True, "observer object"
                if base.attr in CONTROLLER_OBSERVER_SLOTS and cls is not None and any(c.qualname == "pygradflow.step.step_control.StepController" for c in prog.mro(cls)):
                    return True, "controller's display slot"
                return False, f"attribute {base.attr} of {cls.name if cls else '?'}"
            if not names:
                return False, f"attribute `{U(base)}` of an object of unknown class"
            return False, f"attribute of {sorted(names)}"
        return True, "local"

    n_stores = 0
    for fi in obs_funcs:
        for n in own_nodes(fi.node):
            if isinstance(n, ast.Attribute) and isinstance(n.ctx, (ast.Store, ast.Del)):
                n_stores += 1
                ok, why = check_store(fi, n, "observer function")
                rep.check(ok, "observer-writes-no-algorithm-state", fi.qualname, U(n), f"observer-only code stores to an observer object ({why})", fi.loc(n))
    algo_names_written = []
    for fi, s in regions:
        st = s.stmt
        if isinstance(st, (ast.If, ast.For, ast.While, ast.Try, ast.With)):
            continue
        for n in ast.walk(st):
            if isinstance(n, ast.Attribute) and isinstance(n.ctx, (ast.Store, ast.Del)):
                n_stores += 1
                ok, why = check_store(fi, n, "observer region")
                rep.check(ok, "observer-writes-no-algorithm-state", fi.qualname, short(st), f"a statement under an observer condition stores to an observer object ({why})", fi.loc(n))
            if isinstance(n, ast.Name) and isinstance(n.ctx, ast.Store):
                algo_names_written.append((fi, s, n.id))
    rep.pin("stores in observer code", n_stores, 20)
    # names assigned under observer conditions are read only by observer code / result slots
    def _alias_only(e: ast.AST) -> bool:
        """e merely hands an observer value on: a name, None, or `<name> if <x> is [not] None else None`."""
        if isinstance(e, ast.Name) or (isinstance(e, ast.Constant) and e.value is None):
            return True
        if isinstance(e, ast.IfExp) and isinstance(e.test, ast.Compare) and len(e.test.ops) == 1 and isinstance(e.test.ops[0], (ast.Is, ast.IsNot)) \
                and isinstance(e.test.left, ast.Name) and isinstance(e.test.comparators[0], ast.Constant) and e.test.comparators[0].value is None:
            return _alias_only(e.body) and _alias_only(e.orelse)
        return False

    seen_names = {(fi.qualname, name) for fi, _, name in algo_names_written}
    k_ = 0
    while k_ < len(algo_names_written):
        fi, s, name = algo_names_written[k_]
        k_ += 1
        ff = facts_for(fi)
        pm = parent_map(fi.node)
        uses = [m for m in own_nodes(fi.node) if isinstance(m, ast.Name) and m.id == name and isinstance(m.ctx, ast.Load)]
        bad = None
        defs_ = [q for q in ff.order if isinstance(q.stmt, (ast.Assign, ast.AnnAssign, ast.AugAssign)) and not any(observer_fact(f) for f in q.facts)
                 and any(isinstance(n_, ast.Name) and n_.id == name and isinstance(n_.ctx, ast.Store) for t_ in (q.stmt.targets if isinstance(q.stmt, ast.Assign) else [q.stmt.target]) for n_ in ast.walk(t_))
                 and not isinstance(q.stmt, ast.AugAssign)]
        for u_ in uses:
            us = ff.stmt_of(u_)
            if us is None or any(observer_fact(f) for f in us.facts) or us.index <= s.index and us.stmt is s.stmt:
                continue
            # the observer's value cannot reach this use if an unconditional (non-observer) definition of the name dominates the
            # use and lies between the observer's assignment and the use (along the loop's back edge if the assignment comes later)
            if any(d.index < us.index and d.loops == us.loops[:len(d.loops)] and all(f in us.facts for f in d.facts) and (d.index > s.index or s.index > us.index)
                   and (s.index < us.index or (d.loops and s.loops[:len(d.loops)] == d.loops)) for d in defs_):
                continue
            par = pm.get(id(u_))
            # allowed sinks: the rcond slot of a result, logger arguments, and being the test of an observer condition itself
            okuse = False
            if isinstance(us.stmt, ast.If) and any(m is u_ for m in ast.walk(us.stmt.test)):
                rt = ff.resolved(us.stmt, us.stmt.test)
                if observer_fact((atoms_of(rt, True) or [("", "", None)])[0]) or observer_fact((atoms_of(rt, False) or [("", "", None)])[0]):
                    okuse = True   # the test of an observer condition itself (`if path is not None:` / `if path is None: return ..`)
            while par is not None and not isinstance(par, ast.stmt):
                if isinstance(par, ast.Call):
                    d = dotted(par.func) or ""
                    if d.startswith("logger.") or d in ("StepResult", "StepControlResult") or d.endswith("from_step_result"):
                        okuse = True
                par = pm.get(id(par))
            if isinstance(us.stmt, ast.Return) and isinstance(us.stmt.value, ast.Tuple) and (name == "rcond" or (
                    fi.name == "solve_scaled" and len(us.stmt.value.elts) == 3 and us.stmt.value.elts[2] is u_)):
                okuse = True  # (dx, dy, rcond) of solve_scaled: the third slot is the condition estimate
            if not okuse and isinstance(us.stmt, ast.Assign) and len(us.stmt.targets) == 1 and isinstance(us.stmt.targets[0], ast.Name) and _alias_only(us.stmt.value):
                # a temporary that merely carries the observer value on: it is held to the same rule
                okuse = True
                key = (fi.qualname, us.stmt.targets[0].id)
                if key not in seen_names:
                    seen_names.add(key)
                    algo_names_written.append((fi, us, us.stmt.targets[0].id))
            if not okuse:
                bad = (u_, us)
                break
        rep.check(bad is None, "observer-no-feedback", fi.qualname, short(s.stmt),
                  f"`{name}`, assigned under an observer condition, is read only by observer code, logging or the rcond slot of a step result" +
                  (f" (also read by `{short(bad[1].stmt, 60)}`)" if bad else ""), fi.loc(bad[0]) if bad else fi.loc(s.stmt))

    no_feedback(prog, rep)
    containment(prog, rep, x, obs_funcs, regions)
    # (d) private randomness / clock
    c10.sources(prog, rep)
    tm = prog.cls("pygradflow.timer.Timer")
    n_reset = 0
    for fi in prog.iter_functions():
        if not prog.in_scope(fi):
            continue
        for node in own_nodes(fi.node):
            if isinstance(node, ast.Call) and isinstance(node.func, ast.Attribute) and node.func.attr == "reset":
                ts = prog.infer_type(fi, node.func.value)
                if any(t.module.name == "pygradflow.timer" for t in ts):
                    n_reset += 1
                    rep.check(tm not in ts, "algorithm-clock-not-reset", fi.qualname, U(node), "only a display's private SimpleTimer is ever reset, never the solve's time-limit Timer", fi.loc(node))
    dsp = prog.func("pygradflow.display.Display.__init__")
    from .common import leaf_stores as _leaf
    fd_ = facts_for(dsp)
    tv = []
    for n in own_nodes(dsp.node):
        if isinstance(n, ast.Assign) and any(is_self_attr(t, "timer") for t in n.targets):
            if isinstance(n.value, ast.Name):
                # the value computed into a local first (an expanded helper's result)
                ls_ = _leaf(fd_, n.value.id, fd_.stmt_of(n).index)
                tv += [U(q.stmt.value) for q in ls_] or [U(n.value)]
            else:
                tv.append(U(n.value))
    rep.check(set(tv) <= {"None", "SimpleTimer()"} and "SimpleTimer()" in tv, "algorithm-clock-not-reset", dsp.qualname, "self.timer = SimpleTimer()", "a Display creates its own private timer", dsp.loc())
    rep.pin("timer reset sites", n_reset, 1)
    # the linear solver shared between the step and its condition estimate keeps no state across solves
    from . import c17
    c17.stateless_solve(prog, rep)
    getters_pure(prog, rep)
    # (e) path collection appends fresh copies
    z = prog.func("pygradflow.iterate.Iterate.z")
    r = returns_of(z)
    rep.check(len(r) == 1 and np_call(r[0].value, "concatenate"), "path-appends-copies", z.qualname, short(r[0]) if r else "", "Iterate.z builds a fresh array (the recorded path cannot alias iterate storage)", z.loc())
    rep.undecided += ["cond_estimate.ConditionEstimator.estimate_rcond: `assert y.dot(yprod) > 0.0`, `assert num_its > 0` are data dependent (not decided); "
                      "math-domain errors there are contained by StepSolver.estimate_rcond (decided)"]


def no_feedback(prog: Program, rep) -> None:
    # .rcond reads
    n = 0
    for fi in prog.iter_functions():
        if not prog.in_scope(fi):
            continue
        pm = None
        for node in own_nodes(fi.node):
            if isinstance(node, ast.Attribute) and node.attr == "rcond" and isinstance(node.ctx, ast.Load):
                n += 1
                pm = pm or parent_map(fi.node)
                ok = is_observer_func(fi)
                par = pm.get(id(node))
                while par is not None and not ok:
                    if isinstance(par, ast.Lambda):
                        ok = True
                    if isinstance(par, ast.Call) and ((dotted(par.func) or "") in ("StepControlResult", "StepResult") or (dotted(par.func) or "").endswith("from_step_result")):
                        ok = True
                    if isinstance(par, ast.stmt):
                        break
                    par = pm.get(id(par))
                if not ok:
                    # `rcond = step.rcond` followed only by forwarding into a result slot
                    par = pm.get(id(node))
                    if isinstance(par, ast.Assign) and len(par.targets) == 1 and isinstance(par.targets[0], ast.Name):
                        nm = par.targets[0].id
                        ok = True
                        for m in own_nodes(fi.node):
                            if isinstance(m, ast.Name) and m.id == nm and isinstance(m.ctx, ast.Load):
                                q = pm.get(id(m))
                                if isinstance(q, ast.keyword):
                                    q = pm.get(id(q))
                                if not (isinstance(q, ast.Call) and ((dotted(q.func) or "") in ("StepControlResult", "StepResult") or (dotted(q.func) or "").endswith("from_step_result"))):
                                    ok = False
                rep.check(ok, "observer-no-feedback", fi.qualname, U(node), "a condition estimate is read only to be displayed or forwarded in the rcond slot of a result", fi.loc(node))
    # log level queries
    for fi in prog.iter_functions():
        if not prog.in_scope(fi):
            continue
        for node in own_nodes(fi.node):
            if isinstance(node, ast.Call) and isinstance(node.func, ast.Attribute) and node.func.attr in ("getEffectiveLevel", "isEnabledFor"):
                n += 1
                rep.check(is_observer_func(fi), "observer-no-feedback", fi.qualname, U(node), "the log level is queried only by observer-only code", fi.loc(node))
    # the display flag handed down to the controllers
    sc = prog.cls("pygradflow.step.step_control.StepController")
    for m in prog.dispatch(sc, "step") + [sc.methods["compute_step"]]:
        ps = [p for p in m.params if p != "self"]
        if "display" not in ps:
            continue
        pm = parent_map(m.node)
        for node in own_nodes(m.node):
            if isinstance(node, ast.Name) and node.id == "display" and isinstance(node.ctx, ast.Load):
                n += 1
                par = pm.get(id(node))
                # `if display:` / `if not display:` / `x if display else y`, or handed on as an argument (to step / compute_step, or
                # to a helper that is observer code itself)
                top = node
                while isinstance(pm.get(id(top)), ast.UnaryOp) and isinstance(pm.get(id(top)).op, ast.Not):
                    top = pm.get(id(top))
                ptop = pm.get(id(top))
                ok = (isinstance(ptop, (ast.If, ast.IfExp)) and ptop.test is top)
                if not ok and isinstance(par, ast.Call) and (node in par.args or any(k.value is node for k in par.keywords)):
                    if isinstance(par.func, ast.Attribute) and par.func.attr in ("step", "compute_step"):
                        ok = True
                    else:
                        tg = [t for t in prog.resolve_call_target(m, par) if isinstance(t, FuncInfo)]
                        ok = bool(tg) and all(is_observer_func(t) for t in tg)
                rep.check(ok, "observer-no-feedback", m.qualname, U(par)[:60] if par is not None else "display", "the display flag is only tested by `if display:` or handed on as the display argument", m.loc(node))
    # slots of the controller used by observers only
    for fi in prog.iter_functions():
        if not prog.in_scope(fi):
            continue
        for node in own_nodes(fi.node):
            if is_self_attr(node) and node.attr in CONTROLLER_OBSERVER_SLOTS and isinstance(node.ctx, ast.Load):
                cls = prog.enclosing_class(fi)
                if cls is None or not any(c.qualname == "pygradflow.step.step_control.StepController" for c in prog.mro(cls)):
                    continue
                n += 1
                ok = is_observer_func(fi)
                if not ok:
                    s = facts_for(fi).stmt_of(node)
                    ok = s is not None and any(observer_fact(f) for f in s.facts)
                rep.check(ok, "observer-no-feedback", fi.qualname, U(node), f"the controller slot `{node.attr}` is read only by observer code", fi.loc(node))
    rep.pin("feedback-relevant reads classified", n, 5)


def containment(prog: Program, rep, x: ExcFlow, obs_funcs, regions) -> None:
    # lazily evaluated display entries are contained by StateData.__getitem__
    gi = prog.func("pygradflow.display.StateData.__getitem__")
    fg = facts_for(gi)
    calls = [n for n in own_nodes(gi.node) if isinstance(n, ast.Call) and isinstance(n.func, ast.Name) and not dotted(n.func) in ("callable",)]
    entry_calls = [c for c in calls if len(c.args) == 2]
    ok = False
    for c in entry_calls:
        si = fg.stmt_of(c)
        for t in si.tries:
            for h in t.handlers:
                if any(hc in ("Exception", "BaseException") for hc in x.handler_classes(gi, h)):
                    if not any(isinstance(b, ast.Raise) for b in ast.walk(h)):
                        ok = True
    rep.check(ok and len(entry_calls) == 1, "lazy-display-entries-contained", gi.qualname, "entry(self.iterate, self.step_result)",
              "the lazy display entry is called inside a handler for Exception that does not re-raise", gi.loc())
    # lambdas defined in observer code are stored into StateData objects only
    n_l = 0
    sd = prog.cls("pygradflow.display.StateData")
    for fi in prog.iter_functions():
        if not prog.in_scope(fi):
            continue
        ff = facts_for(fi)
        for s in ff.order:
            if not (is_observer_func(fi) or any(observer_fact(f) for f in s.facts)):
                continue
            st = s.stmt
            if isinstance(st, (ast.If, ast.For, ast.While, ast.Try, ast.With)):
                continue
            for n in ast.walk(st):
                if isinstance(n, ast.Lambda):
                    n_l += 1
                    okl = isinstance(st, ast.Assign) and st.value is n and isinstance(st.targets[0], ast.Subscript) and sd in prog.infer_type(fi, st.targets[0].value)
                    rep.check(okl, "lazy-display-entries-contained", fi.qualname, short(st), "a lambda created by observer code is stored as a StateData entry (and therefore evaluated inside its handler)", fi.loc(n))
    rep.pin("lazy display entries", n_l, 10)
    # observer-only functions let nothing escape
    for fi in obs_funcs:
        if fi.qualname.endswith("StateData.__getitem__") or prog.is_stub(fi):
            continue
        esc = [(c, o, ch) for c, o, ch in x.escapes(fi.qualname) if c not in ("NotImplementedError",)]
        # only functions that the algorithm calls matter: everything, conservatively
        bad = [(c, o, ch) for c, o, ch in esc if c in INTERNAL or not c.startswith("ext:")]
        if fi.qualname in ("pygradflow.display.print_problem_stats", "pygradflow.solver.Solver.print_result"):
            # these run in every solve irrespective of the observer settings (logger arguments are evaluated eagerly):
            # what they may raise is not observer-dependent and is decided by C07's validated-iterate rule
            continue
        if fi.module.name == "pygradflow.step.cond_estimate" or fi.qualname.endswith(".res_func"):
            # boundary for these is estimate_rcond / StateData.__getitem__ (checked below)
            continue
        if bad:
            c, o, ch = bad[0]
            rep.fail("observer-cannot-raise", fi.qualname, f"escape of {c.rsplit('.', 1)[-1]} raised at {o.split(':')[0]}",
                     f"VIOLATED: {c.rsplit('.', 1)[-1]} (raised at {o}) can escape the observer-only function {fi.short}", fi.loc(), list(ch))
        else:
            rep.ok("observer-cannot-raise", fi.short, "no internal failure class and no explicit raise can escape")
    # observer regions in algorithm code
    seen = set()
    for fi, s in regions:
        for si, kind, payload in x.sites[fi.qualname]:
            if si is not s:
                continue
            if kind in ("raise", "reraise"):
                if x.caught_by(fi, si, payload) is None:
                    rep.fail("observer-cannot-raise", fi.qualname, short(s.stmt), f"VIOLATED: explicit raise of {payload} under an observer condition", fi.loc(s.stmt))
                continue
            if kind == "assert":
                continue
            for cal in x.callees(fi, kind, payload):
                for (cls, origin), chain in x.esc[cal.qualname].items():
                    if cls in ("AssertionError", "NotImplementedError"):
                        continue
                    if x.caught_by(fi, si, cls) is not None:
                        continue
                    key = (fi.qualname, id(s.stmt), cls)
                    if key in seen:
                        continue
                    seen.add(key)
                    rep.fail("observer-cannot-raise", fi.qualname, short(s.stmt),
                             f"VIOLATED: {cls.rsplit('.', 1)[-1]} (raised at {origin}) can escape from a statement that only runs when observation is switched on",
                             fi.loc(s.stmt), [f"{fi.loc(s.stmt)}: {fi.short} -> {cal.short}"] + list(chain))
    rep.ok("observer-cannot-raise", "observer regions", f"{len(regions)} statements under observer conditions examined for escaping exceptions")
    # arity of calls inside observer code (certain TypeError when executed)
    from .c06 import arity_findings
    for fi, node, msg in arity_findings(prog, [f for f in obs_funcs] + sorted({r[0] for r in regions}, key=lambda f: f.qualname)):
        if is_observer_func(fi) or any(observer_fact(f) for f in (facts_for(fi).stmt_of(node).facts if facts_for(fi).stmt_of(node) else [])):
            rep.fail("observer-cannot-raise", fi.qualname, U(node)[:80], f"VIOLATED: {msg} - a certain TypeError as soon as this observer code runs", fi.loc(node))
