"""C06 - solve() ends with a status or a deliberate error (certain-crash constructs, raise inventory, domain guards)."""
from __future__ import annotations

import ast
from typing import Dict, List, Optional, Set, Tuple

from ..excflow import ExcFlow
from ..model import AnalysisError, ClassInfo, FuncInfo, Program, dotted, own_nodes, unparse
from ..symex import atoms_of, facts_for, phi_alternatives
from .common import U, bind_args, const_value, is_self_attr, kwarg, np_call, parent_map, returns_of, short

EXPLANATION = (
    "Whether a data-dependent assert or an overflow is reachable depends on run-time numbers and is NOT decided (the reachable "
    "asserts are inventoried in this evidence, split into structural and data-dependent ones).  Decided: (1) no certain crash in "
    "in-scope code - every call whose callee resolves to a repo function / constructor fits its signature, and every method called "
    "on a receiver of certain repo type exists (unless the statement is dead under attribute-constant propagation); (2) raise-site "
    "inventory - every explicit raise that can escape Solver.__init__ / Solver.solve is classified deliberate / configuration / "
    "optional-backend / abstract with one line of reason; the three internal failure classes cannot escape solve() (C07); anything "
    "else is reported; (3) two domain guards that are visible in the code: a min/max over a masked selection A[cond] is dominated by "
    "the early exit under (not cond).all() with the exact complement, and the argument of the log-scale PI controller is a quotient "
    "whose numerator and denominator are dominated by non-zero facts."
)

# (function qualname, exception class) -> (category, reason)
RAISE_TABLE = {
    ("pygradflow.solver.Solver.solve", "Exception"): ("deliberate", "'Failed to evaluate initial iterate' / 'Inverse step size ... exceeded maximum' (message-carrying failures named in the statement)"),
    ("pygradflow.newton.GlobalizedNewtonMethod.*", "Exception"): ("deliberate", "'Line search failed to converge'"),
    ("pygradflow.deriv_check.deriv_check", "pygradflow.deriv_check.DerivError"): ("deliberate", "derivative check failed"),
    ("pygradflow.scale.create_scaling", "ValueError"): ("configuration", "inconsistent scaling options; raised from Solver.__init__"),
    ("pygradflow.scale.scale_symmetric", "Exception"): ("configuration", "'Equilibration failed to converge'; raised from Solver.__init__ with ScalingType.KKT"),
    ("pygradflow.penalty.penalty_strategy", "ValueError"): ("configuration", "unknown penalty update (unreachable for enum values)"),
    ("pygradflow.step.solver.symmetric_step_solver.SymmetricStepSolver.*", "Exception"): ("configuration", "inertia correction requested with a linear solver that cannot report inertia (explicitly unsupported option pair)"),
    ("pygradflow.linear_solver.ma57_solver.MA57Solver._try_fact", "Exception"): ("optional-backend", "MA57 (pyomo/HSL) is not installed in this image"),
    ("pygradflow.linear_solver.ma57_solver.MA57Solver._handle_fact_status", "Exception"): ("optional-backend", "MA57 (pyomo/HSL) is not installed in this image"),
}
EXEMPT_ESCAPES = {
    "pygradflow.eval.EvalError": "only through the opt-in derivative check, which evaluates at perturbed points by design (premise: finite smooth functions)",
}


# ---------------------------------------------------------------------------------------------------
def _signature_ok(callee: FuncInfo, call: ast.Call, is_ctor: bool) -> Optional[str]:
    a = callee.node.args
    names = [x.arg for x in a.posonlyargs + a.args]
    if (callee.cls is not None and not callee.is_static and names and names[0] in ("self", "cls")) or is_ctor:
        names = names[1:] if names and names[0] in ("self", "cls") else names
    if any(isinstance(x, ast.Starred) for x in call.args) or any(k.arg is None for k in call.keywords):
        return None
    npos = len(call.args)
    if npos > len(names) and a.vararg is None:
        return f"{npos} positional argument(s) for {len(names)} parameter(s) ({', '.join(names)})"
    bound = set(names[:npos])
    kwonly = [x.arg for x in a.kwonlyargs]
    for k in call.keywords:
        if k.arg in bound:
            return f"argument `{k.arg}` given twice"
        if k.arg not in names and k.arg not in kwonly and a.kwarg is None:
            return f"unexpected keyword `{k.arg}`"
        bound.add(k.arg)
    ndef = len(a.defaults)
    required = names[: len(names) - ndef] if ndef else names
    missing = [n for n in required if n not in bound]
    missing += [x.arg for x, d in zip(a.kwonlyargs, a.kw_defaults) if d is None and x.arg not in bound]
    if missing:
        return f"missing required argument(s) {missing}"
    return None


def _dataclass_fields(ci: ClassInfo) -> Optional[List[Tuple[str, bool]]]:
    is_dc = any((dotted(d.func) if isinstance(d, ast.Call) else dotted(d)) in ("dataclass", "dataclasses.dataclass") for d in ci.node.decorator_list)
    if not is_dc:
        return None
    out = []
    for st in ci.node.body:
        if isinstance(st, ast.AnnAssign) and isinstance(st.target, ast.Name):
            out.append((st.target.id, st.value is not None))
    return out


def arity_findings(prog: Program, funcs) -> List[Tuple[FuncInfo, ast.AST, str]]:
    out = []
    for fi in funcs:
        for c in [n for n in own_nodes(fi.node) if isinstance(n, ast.Call)] + [m for lam in own_nodes(fi.node) if isinstance(lam, ast.Lambda) for m in ast.walk(lam.body) if isinstance(m, ast.Call)]:
            f = c.func
            # only certain resolutions: a plain name / dotted module path / self.method / super().method
            static = prog._resolve_callable_static(fi, f) if isinstance(f, (ast.Name, ast.Attribute)) else None
            targets: List[Tuple[FuncInfo, bool]] = []
            if isinstance(static, ClassInfo):
                fields = _dataclass_fields(static)
                init = prog.lookup_method(static, "__init__")
                if fields is not None and init is None:
                    names = [n for n, _ in fields]
                    req = [n for n, has in fields if not has]
                    bound = set(names[: len(c.args)])
                    msg = None
                    if len(c.args) > len(names):
                        msg = f"{len(c.args)} positional arguments for {len(names)} fields"
                    for k in c.keywords:
                        if k.arg is not None and k.arg not in names:
                            msg = f"unexpected keyword `{k.arg}` for dataclass {static.name}"
                        bound.add(k.arg)
                    if msg is None and [n for n in req if n not in bound] and not any(k.arg is None for k in c.keywords):
                        msg = f"missing required field(s) {[n for n in req if n not in bound]}"
                    if msg:
                        out.append((fi, c, f"{static.name}(...): {msg}"))
                    continue
                if init is not None:
                    targets.append((init, True))
            elif isinstance(static, FuncInfo):
                targets.append((static, False))
            elif isinstance(f, ast.Attribute) and U(f.value) == "self":
                cls = prog.enclosing_class(fi)
                if cls is not None:
                    ms = prog.dispatch(cls, f.attr)
                    ms = [m for m in ms if not m.is_property]
                    targets += [(m, False) for m in ms]
            elif isinstance(f, ast.Attribute) and isinstance(f.value, ast.Call) and U(f.value.func) == "super":
                tg = [t for t in prog.resolve_call_target(fi, c) if isinstance(t, FuncInfo)]
                targets += [(t, False) for t in tg]
            for callee, is_ctor in targets:
                if callee.is_property:
                    continue
                msg = _signature_ok(callee, c, is_ctor)
                if msg:
                    out.append((fi, c, f"call `{U(c)[:60]}` does not fit {callee.short}: {msg}"))
    return out


_ATTR_NAMES_CACHE: Dict[int, object] = {}


def _attr_names(prog: Program, ci: ClassInfo) -> Optional[Set[str]]:
    key = (id(prog), ci.qualname)
    if key not in _ATTR_NAMES_CACHE:
        _ATTR_NAMES_CACHE[key] = _attr_names_uncached(prog, ci)
    return _ATTR_NAMES_CACHE[key]


def _attr_names_uncached(prog: Program, ci: ClassInfo) -> Optional[Set[str]]:
    """all attribute / method names an instance of ci may have; None if it has external bases we cannot see."""
    names: Set[str] = set()
    for c in prog.mro(ci):
        if any(b not in ("object", "ABC", "abc.ABC", "Exception", "ValueError", "Enum", "Flag") for b in c.ext_bases):
            return None
        names |= set(c.methods)
        for st in c.node.body:
            if isinstance(st, ast.AnnAssign) and isinstance(st.target, ast.Name):
                names.add(st.target.id)
            if isinstance(st, ast.Assign):
                names |= {t.id for t in st.targets if isinstance(t, ast.Name)}
    for c in prog.mro(ci) + prog.all_subclasses(ci, include_self=False):
        for m in c.methods.values():
            for n in own_nodes(m.node):
                if isinstance(n, ast.Attribute) and isinstance(n.ctx, ast.Store) and is_self_attr(n):
                    names.add(n.attr)
    return names


def _attr_constant(prog: Program, ci: ClassInfo, attr: str):
    """the literal value every store to ci.<attr> assigns, if they all agree (and nobody else stores it)."""
    vals = set()
    for c in prog.mro(ci) + prog.all_subclasses(ci, include_self=False):
        for m in c.methods.values():
            for n in own_nodes(m.node):
                if isinstance(n, (ast.Assign, ast.AugAssign, ast.AnnAssign)):
                    tg = n.targets if isinstance(n, ast.Assign) else [n.target]
                    for t in tg:
                        if is_self_attr(t, attr):
                            v = const_value(n.value) if isinstance(n, ast.Assign) else None
                            vals.add(v)
    for f in prog.iter_functions():
        for n in own_nodes(f.node):
            if isinstance(n, ast.Attribute) and isinstance(n.ctx, ast.Store) and n.attr == attr and not is_self_attr(n):
                if ci in prog.infer_type(f, n.value) or not prog.infer_type(f, n.value):
                    return None
    if len(vals) == 1 and None not in vals:
        return next(iter(vals))
    return None


def _dead_under_constants(prog: Program, fi: FuncInfo, facts) -> Optional[str]:
    for op, l, r in facts:
        if r is None or op not in ("<", "<=", "==", "!="):
            continue
        try:
            le, re_ = ast.parse(l, mode="eval").body, ast.parse(r, mode="eval").body
        except SyntaxError:
            continue
        def val(e):
            k = const_value(e)
            if k is not None:
                return k
            if isinstance(e, ast.Attribute):
                for t in prog.infer_type(fi, e.value):
                    k = _attr_constant(prog, t, e.attr)
                    if k is not None:
                        return k
            return None
        a, b = val(le), val(re_)
        if a is None or b is None:
            continue
        truth = {"<": a < b, "<=": a <= b, "==": a == b, "!=": a != b}[op]
        if not truth:
            return f"`{l} {op} {r}` is always false ({a} {op} {b}: every store to that attribute assigns {a if isinstance(le, ast.Attribute) else b})"
    return None


def run(prog: Program, rep, tier: str) -> None:
    rep.explanation = EXPLANATION
    from . import c12
    c12.path_shape_rule(prog, rep)
    unbound_locals(prog, rep)
    none_dereference(prog, rep)
    # restoring a solution applies the inverse stages in reverse order (un-scale what was scaled last ...): in the wrong order the
    # unscaling is applied to vectors that still carry the slack block and numpy raises a broadcasting ValueError at the very end
    from . import c04
    from .c01 import _SubReport
    c04.pipeline(prog, _SubReport(rep, keep=("pipeline-order", "restore-wiring")))
    # a second solve() on the same Solver must start from the same state as the first: policy / controller objects that outlive a
    # solve carry penalties, filters and step-size histories into the next one, where the asserts of the step solvers (fact > 0,
    # rho > 0, next_rho > rho) then fail - an internal crash that depends on the history of the object, not on the call
    from . import c10
    c10.per_solve(prog, _SubReport(rep, keep=("per-solve-construction", "accumulating-state-reinitialised", "solver-holds-no-state")))
    funcs = [f for f in prog.iter_functions() if prog.in_scope(f) and "FixedActiveSetNewtonMethod" not in f.qualname]
    # ---- (1) certain crashes ---------------------------------------------------------------------------
    n_calls = sum(1 for f in funcs for n in own_nodes(f.node) if isinstance(n, ast.Call))
    finds = arity_findings(prog, funcs)
    for fi, node, msg in finds:
        rep.fail("certain-crash-arity", fi.qualname, U(ast.Expr(node) if False else node)[:100] if not isinstance(node, ast.Call) else _stmt_text(fi, node), f"VIOLATED: {msg} (TypeError as soon as this line runs)", fi.loc(node))
    if not finds:
        rep.ok("certain-crash-arity", "all in-scope functions", f"{n_calls} call sites; every call with a statically certain repo callee fits its signature")
    rep.pin("call sites examined for arity", n_calls, 1000)
    n_attr = 0
    for fi in funcs:
        ff = None
        for n in own_nodes(fi.node):
            if not (isinstance(n, ast.Call) and isinstance(n.func, ast.Attribute)):
                continue
            ts = prog.infer_type(fi, n.func.value)
            if not ts:
                continue
            known = [_attr_names(prog, t) for t in ts]
            if any(k is None for k in known):
                continue
            n_attr += 1
            if any(n.func.attr in k for k in known):
                continue
            # the receiver may be an instance of a subclass (`self` in a template method, a parameter annotated with the base)
            if any(n.func.attr in (_attr_names(prog, c) or {n.func.attr}) for t in ts for c in prog.all_subclasses(t, include_self=False)):
                continue
            ff = ff or facts_for(fi)
            si = ff.stmt_of(n)
            dead = _dead_under_constants(prog, fi, si.facts) if si else None
            if dead:
                rep.ok("certain-crash-attribute", fi.short, f"`{U(n)[:50]}` names a method {sorted(t.name for t in ts)} does not have, but the statement is dead: {dead}")
                rep.note(f"latent: {fi.loc(n)} `{U(n)}` would raise AttributeError if it were reachable ({dead})")
            else:
                rep.fail("certain-crash-attribute", fi.qualname, _stmt_text(fi, n), f"VIOLATED: `{U(n)[:60]}`: no class in {sorted(t.name for t in ts)} defines `{n.func.attr}` (AttributeError when executed)", fi.loc(n))
    rep.pin("method calls on receivers of certain repo type", n_attr, 150)
    # loads of self.<attr> that no class of the hierarchy defines
    # (method name, class) pairs that are used as an attribute somewhere: `recv.name` refers to class C's method when recv may be a C
    # (`self` inside C's hierarchy, a receiver whose inferred type is in C's hierarchy, or a receiver of unknown type)
    ref_any: Set[str] = set()
    ref_typed: Dict[str, Set[str]] = {}
    for f in prog.iter_functions():
        for n in own_nodes(f.node):
            if isinstance(n, ast.Attribute):
                ts = None
                if isinstance(n.value, ast.Name) and n.value.id == "self" and f.cls is not None:
                    ts = {f.cls}
                else:
                    inferred = prog.infer_type(f, n.value)
                    ts = set(inferred) if inferred else None
                if ts is None:
                    ref_any.add(n.attr)
                else:
                    for t in ts:
                        for c in prog.mro(t) + prog.all_subclasses(t, include_self=False):
                            ref_typed.setdefault(n.attr, set()).add(c.qualname)

    def is_referenced(name: str, cls) -> bool:
        return name in ref_any or (cls is not None and cls.qualname in ref_typed.get(name, set()))
    n_self = 0
    for fi in funcs:
        cls = fi.cls
        if cls is None:
            continue
        names = _attr_names(prog, cls)
        if names is None:
            continue
        sub_names = set()
        for c in prog.all_subclasses(cls, include_self=False):
            sub_names |= (_attr_names(prog, c) or set())
        for n in own_nodes(fi.node):
            if is_self_attr(n) and isinstance(n.ctx, ast.Load):
                n_self += 1
                if n.attr in names or n.attr in sub_names or n.attr.startswith("__"):
                    continue
                if not is_referenced(fi.name, cls):
                    rep.note(f"latent: {fi.loc(n)} `{U(n)}` is undefined, but {fi.short} is never referenced anywhere (dead code)")
                    continue
                rep.fail("certain-crash-attribute", fi.qualname, _stmt_text(fi, n), f"VIOLATED: `{U(n)}`: no class in the hierarchy of {cls.name} defines `{n.attr}` (AttributeError when executed)", fi.loc(n))
    rep.pin("self attribute loads examined", n_self, 400)
    # containers changed while being iterated over: RuntimeError("dictionary changed size during iteration") for dicts / sets
    from .common import mutation_while_iterating
    n_mut = 0
    for fi in funcs:
        for lp, hit, ctxt in mutation_while_iterating(fi):
            n_mut += 1
            rep.fail("no-mutation-while-iterating", fi.qualname, short(hit), f"VIOLATED: `{U(hit)[:60]}` changes `{ctxt}` inside `for .. in {U(lp.iter)[:40]}` and the loop goes on: "
                     f"a dict / set raises RuntimeError at the next step (a list silently skips elements); iterate over a snapshot instead", fi.loc(hit))
    if not n_mut:
        rep.ok("no-mutation-while-iterating", "all in-scope functions", "no loop changes the container it iterates over")

    # ---- (2) raise inventory ------------------------------------------------------------------------------
    x = ExcFlow(prog)
    entries = ["pygradflow.solver.Solver.__init__", "pygradflow.solver.Solver.solve"]
    # EvalError: decided in the context 'iterates in the main loop are validated' (C07's typestate flow); the opt-in derivative
    # check is exempt there
    from . import c07
    x3 = c07.typestate(prog, rep, x, only_flow=True)
    ev = [e for e in x3.escapes("pygradflow.solver.Solver.solve") if x3.is_subclass(e[0], "pygradflow.eval.EvalError")]
    rep.check(not ev, "internal-signal-contained", "pygradflow.solver.Solver.solve", f"escape of EvalError raised at {ev[0][1]}" if ev else "EvalError",
              "EvalError cannot escape solve() (validated iterates; failures at trial points are handled; the derivative check is exempt)", ev[0][1] if ev else "", list(ev[0][2]) if ev else None)
    inv: Dict[Tuple[str, str], Tuple[str, str]] = {}
    n_r = 0
    for e in entries:
        for cls, origin, chain in x.escapes(e):
            n_r += 1
            # the raise is attributed to the innermost function of the pinned tree on the path to it: a raise that moved into a
            # new helper (`_line_search`, `_check_inertia`) still belongs to the function it was extracted from
            from ..inline import known_functions
            kf = known_functions()
            fn = "?"
            seq = []   # functions from the raise outwards
            for hop in reversed(chain):
                body_ = hop.split(": ", 1)[1] if ": " in hop else hop
                if body_.startswith("raise in "):
                    seq.append(body_[len("raise in "):].split(":", 1)[0])
                elif " -> " in body_:
                    a_, b_ = body_.split(" -> ", 1)
                    seq += [b_.strip(), a_.strip()]
            for cand in seq:
                if fn == "?":
                    fn = cand
                if "pygradflow." + cand in kf:
                    fn = cand
                    break
            fq = "pygradflow." + fn
            key = (fq, cls)
            if cls in ("pygradflow.step.step_solver_error.StepSolverError", "pygradflow.linear_solver.linear_solver.LinearSolverError"):
                rep.fail("internal-signal-contained", e, f"escape of {cls.rsplit('.', 1)[-1]} raised in {fn}",
                         f"VIOLATED: the internal signal {cls.rsplit('.', 1)[-1]} (raised at {origin}) can escape {e.rsplit('.', 2)[-2]}.{e.rsplit('.', 1)[-1]}", origin, list(chain))
                continue
            if cls in EXEMPT_ESCAPES:
                inv[key] = ("internal-signal", "EvalError: decided by the validated-iterate flow above")
                continue
            if cls == "NotImplementedError":
                inv[key] = ("abstract", "abstract stub")
                continue
            if key in RAISE_TABLE:
                inv[key] = RAISE_TABLE[key]
                continue
            # class-level entries ("<class>.*"): the raise may sit in any method of that class
            ck = next((k for k in RAISE_TABLE if k[0].endswith(".*") and k[1] == cls and fq.startswith(k[0][:-1])), None)
            if ck is not None:
                inv[key] = RAISE_TABLE[ck]
                continue
            rep.fail("raise-inventory", fq, f"raise of {cls} in {fn}", f"VIOLATED: unclassified raise of {cls} at {origin} is reachable from {e.rsplit('.', 1)[-1]}() "
                     f"(neither one of the deliberate failures nor a listed configuration error)", origin, list(chain))
    for (fq, cls), (cat, why) in sorted(inv.items()):
        rep.ok("raise-inventory", fq.replace("pygradflow.", ""), f"raise of {cls.rsplit('.', 1)[-1]}: {cat} - {why}")
    rep.pin("escaping raise sites classified", n_r, 8)
    # the deliberate failures carry a message
    for q in ("pygradflow.solver.Solver.solve", "pygradflow.newton.GlobalizedNewtonMethod.step"):
        f = prog.func(q)
        for n in own_nodes(f.node):
            if isinstance(n, ast.Raise) and isinstance(n.exc, ast.Call) and dotted(n.exc.func) == "Exception":
                a0 = n.exc.args[0] if n.exc.args else None
                ok = isinstance(a0, (ast.Constant, ast.JoinedStr)) and (not isinstance(a0, ast.Constant) or (isinstance(a0.value, str) and a0.value.strip()))
                rep.check(ok, "deliberate-failures-carry-message", f.qualname, short(n), "a deliberate failure carries a message", f.loc(n))

    # ---- asserts: inventory only -------------------------------------------------------------------------------
    structural, data_dep = 0, []
    for fi in funcs:
        for n in own_nodes(fi.node):
            if isinstance(n, ast.Assert):
                t = U(n.test)
                if any(k in t for k in (".shape", ".dtype", "is not None", "is None", ".ndim", "isinstance(", "Type.", ".size ==", "symmetric", ".format")) and not any(k in t for k in ("> 0.0", ">= 0.0", "isfinite", ".all()")):
                    structural += 1
                else:
                    data_dep.append(f"{fi.loc(n)}: assert {t[:70]}")
    rep.extra["asserts_structural"] = structural
    rep.extra["asserts_data_dependent"] = len(data_dep)
    rep.undecided += data_dep[:80]
    domain_guards(prog, rep)


def thorough(prog: Program, rep) -> None:
    """E8 cross-reference: mypy (part of the repository's own dev environment) as an independent resolver.  Every `call-arg`
    diagnostic inside in-scope modules is a certain TypeError when the line runs; it must already be among the arity findings."""
    import os, re, subprocess
    from ..model import REPO
    repo = os.environ.get("PGF_REPO") or REPO
    try:
        r = subprocess.run(["/venv/bin/python", "-m", "mypy", "pygradflow", "--check-untyped-defs", "--no-incremental", "--cache-dir", os.devnull,
                            "--ignore-missing-imports", "--no-error-summary", "--show-error-codes"], cwd=repo, capture_output=True, text=True, timeout=600)
    except Exception as ex:
        rep.note(f"mypy cross-reference not available: {ex}")
        return
    mine = {(f.loc.split(":")[0], f.loc.split(":")[1] if ":" in f.loc else "") for f in rep.findings if f.rule == "certain-crash-arity"}
    n = 0
    extra = []
    for line in r.stdout.splitlines():
        m = re.match(r"(pygradflow/[^:]+):(\d+): error: (.*)\[call-arg\]", line)
        if not m:
            continue
        path, ln, msg = m.group(1), m.group(2), m.group(3)
        modname = path[:-3].replace("/", ".")
        if any(modname == p or modname.startswith(p + ".") for p in prog.OUT_OF_SCOPE) or "FixedActiveSet" in msg:
            continue
        n += 1
        if (path, ln) not in mine:
            extra.append((path, ln, msg.strip()))
    for path, ln, msg in extra:
        rep.fail("certain-crash-arity-mypy", path, f"{path}: {msg}", f"VIOLATED: mypy reports a call that cannot succeed ({msg}) which the arity rule did not resolve", f"{path}:{ln}")
    rep.extra["mypy_call_arg_in_scope"] = n
    rep.extra["mypy_other_diagnostics"] = sum(1 for l in r.stdout.splitlines() if ": error:" in l) - n
    if not extra:
        rep.ok("certain-crash-arity-mypy", "mypy --check-untyped-defs", f"{n} call-arg diagnostics in scope, all already reported by the arity rule")


def _stmt_text(fi: FuncInfo, node: ast.AST) -> str:
    s = facts_for(fi).stmt_of(node)
    return short(s.stmt) if s is not None else U(node)[:100]


def domain_guards(prog: Program, rep) -> None:
    # (a) reductions over masked selections
    n = 0
    for fi in [f for f in prog.iter_functions() if prog.in_scope(f)]:
        ff = None
        for node in own_nodes(fi.node):
            if not (isinstance(node, ast.Call) and (dotted(node.func) or "") in ("np.min", "np.max", "min", "max", "np.amin", "np.amax") and len(node.args) == 1):
                continue
            a = node.args[0]
            if isinstance(a, ast.Name):
                # a temporary holding the selection (`positive = vals[vals > 0]; np.min(positive)`)
                ff = ff or facts_for(fi)
                si0 = ff.stmt_of(node)
                ra = ff.resolved(si0.stmt, a) if si0 is not None else a
                if isinstance(ra, ast.Subscript) and isinstance(ra.slice, ast.Compare):
                    a = ra
            if not (isinstance(a, ast.Subscript) and isinstance(a.slice, ast.Compare)):
                continue
            n += 1
            ff = ff or facts_for(fi)
            si = ff.stmt_of(node)
            cond = ff.resolved(si.stmt, a.slice)
            neg = atoms_of(cond, False)
            ok = False
            if len(neg) == 1:
                op, l, r = neg[0]
                comp = f"({l} {op} {r}).all()"
                comp2 = f"({r} {'>=' if op == '<=' else '>' if op == '<' else op} {l}).all()"
                ok = any(f[0] == "falsy" and f[1] in (comp, comp2) for f in si.facts)
            rep.check(ok, "empty-selection-guard", fi.qualname, short(si.stmt),
                      f"the reduction over `{U(a)[:50]}` is dominated by an early exit taken when the selection is empty, i.e. when (not cond).all() with the exact complement {neg}", fi.loc(node))
    rep.pin("reductions over masked selections", n, 1)
    # (b) argument of the log-scale controller
    lc = prog.cls("pygradflow.controller.LogController")
    n = 0
    for fi in [f for f in prog.iter_functions() if prog.in_scope(f)]:
        ff = None
        for node in own_nodes(fi.node):
            if isinstance(node, ast.Call) and isinstance(node.func, ast.Attribute) and node.func.attr == "update" and lc in prog.infer_type(fi, node.func.value) and len(node.args) == 1:
                n += 1
                ff = ff or facts_for(fi)
                si = ff.stmt_of(node)
                v = ff.resolved(si.stmt, node.args[0])
                ok = False
                why = ""
                if isinstance(v, ast.BinOp) and isinstance(v.op, ast.Div):
                    num, den = U(v.left), U(v.right)
                    def nonzero(t):
                        for f in si.facts:
                            if f[0] == "!=" and ((f[1] == t and f[2] in ("0.0", "0")) or (f[2] == t and f[1] in ("0.0", "0"))):
                                return True
                            if f[0] == "<" and f[2] == t and ("tol" in f[1] or const_value(ast.parse(f[1], mode="eval").body) is not None and const_value(ast.parse(f[1], mode="eval").body) >= 0):
                                return True
                        return False
                    nz_num = nonzero(num)
                    # the quotient itself is bounded above on this path (theta <= theta_max), so a zero denominator (theta = inf/nan) cannot reach the call
                    bounded = any(f[0] == "<=" and f[1] == U(v) for f in si.facts)
                    ok = nz_num and (nonzero(den) or bounded)
                    why = f"numerator non-zero: {nz_num}; denominator non-zero or quotient bounded on this path: {nonzero(den) or bounded}"
                rep.check(ok, "log-controller-domain", fi.qualname, short(si.stmt),
                          f"the value handed to the log-scale PI controller (which asserts val > 0) is a quotient of norms whose numerator is dominated by a non-zero fact ({why})", fi.loc(node))
    rep.pin("LogController.update call sites", n, 2)


# ------------------------------------------------------------------------------------------------------------------------
def _positive_const_attr(prog: Program, fi: FuncInfo, e: ast.AST) -> bool:
    """e is `self.<a>` whose every store in the class hierarchy is a constructor parameter with a positive literal default that no
    in-scope construction site overrides - or a positive literal."""
    if isinstance(e, ast.Constant) and isinstance(e.value, int) and e.value > 0:
        return True
    if not (is_self_attr(e) and fi.cls is not None):
        return False
    vals = prog.attr_values(fi.cls, e.attr)
    if not vals:
        return False
    for m, v in vals:
        if isinstance(v, ast.Constant) and isinstance(v.value, int) and v.value > 0:
            continue
        if isinstance(v, ast.Name) and m.name == "__init__" and v.id in m.params:
            a = m.node.args
            pos = a.posonlyargs + a.args
            dmap = {x.arg: d for x, d in zip(pos[len(pos) - len(a.defaults):], a.defaults)}
            d = dmap.get(v.id)
            if not (isinstance(d, ast.Constant) and isinstance(d.value, int) and d.value > 0):
                return False
            # no construction site passes the parameter
            idx = [p for p in m.params if p != "self"].index(v.id)
            cls_names = {c.name for c in prog.all_subclasses(m.cls, include_self=True)}
            for f in prog.iter_functions():
                for c in own_nodes(f.node):
                    if isinstance(c, ast.Call) and (dotted(c.func) or "").split(".")[-1] in cls_names:
                        if len(c.args) > idx or any(k.arg == v.id or k.arg is None for k in c.keywords):
                            return False
            continue
        return False
    return True


def _guard_idiom(fn: ast.AST, name: str, use_stmt: ast.stmt, use_node: Optional[ast.AST] = None, fi: Optional[FuncInfo] = None) -> Optional[str]:
    """two correlated-guard idioms under which a name assigned in a conditional block is certainly bound at a later guarded use:
      A  `if c: g = <not None>; name = ..  else: g = None`  ...  `if g is not None: use(name)`
      B  `if flag: name = ..; flag = <narrowed>`            ...  `if flag: use(name)`     (flag not assigned in between)
    returns a description, or None."""
    parents = {}
    for n in ast.walk(fn):
        for c in ast.iter_child_nodes(n):
            parents[id(c)] = n

    def enclosing_ifs(st):
        out = []
        cur = st
        while id(cur) in parents:
            p = parents[id(cur)]
            if isinstance(p, ast.If) and any(cur is b for b in p.body):
                out.append(p)
            cur = p
            if cur is fn:
                break
        return out

    def assigns(nm):
        return [n for n in ast.walk(fn) if isinstance(n, (ast.Assign, ast.AnnAssign, ast.AugAssign)) and
                any(isinstance(t, ast.Name) and t.id == nm for tt in (n.targets if isinstance(n, ast.Assign) else [n.target]) for t in ast.walk(tt) if isinstance(t, ast.Name) and isinstance(t.ctx, ast.Store))]

    def body_list_of(st):
        p = parents.get(id(st))
        for fld in ("body", "orelse", "finalbody"):
            b = getattr(p, fld, None)
            if isinstance(b, list) and any(x is st for x in b):
                return b
        return None
    defs = assigns(name)
    guards = list(enclosing_ifs(use_stmt))
    # guards inside the expression: `<use> if g is not None else ..`, `g is not None and <use>`
    cur = use_node
    while cur is not None and id(cur) in parents and cur is not use_stmt:
        p = parents[id(cur)]
        if isinstance(p, ast.IfExp) and cur is p.body:
            guards.append(p)
        if isinstance(p, ast.BoolOp) and isinstance(p.op, ast.And) and cur is not p.values[0]:
            for v in p.values[:p.values.index(cur)]:
                guards.append(ast.IfExp(test=v, body=cur, orelse=cur))
        cur = p
    # a guard established by an earlier early exit (`if g is None: return ..`) shows up as a path fact of the use statement
    if fi is not None:
        ffg = facts_for(fi)
        su = ffg.stmt_of(use_stmt) if hasattr(ffg, "stmt_of") else None
        if su is not None:
            # `g is not None` on an optional carrier (`g = None`, bound in one branch only) is recorded as the condition of the branch
            # that bound it: the guard holds where those facts hold
            pc = getattr(ffg, "phi_cond", None) or {}
            if pc:
                for g in {n.id for n in ast.walk(fn) if isinstance(n, ast.Name) and isinstance(n.ctx, ast.Store)}:
                    if g == name:
                        continue
                    gv = ffg.at(su.stmt).env.get(g) if hasattr(ffg, "at") else None
                    for key, cond in pc.items():
                        if cond and all(f in su.facts for f in cond) and gv is not None and (U(gv) == key or key.startswith("__phi__(" + U(gv))):
                            guards.append(ast.IfExp(test=ast.Compare(left=ast.Name(id=g, ctx=ast.Load()), ops=[ast.IsNot()], comparators=[ast.Constant(value=None)]),
                                                    body=ast.Constant(value=None), orelse=ast.Constant(value=None)))
            for op, l, r in su.facts:
                if op == "isnot" and r == "None":
                    for g in {n.id for n in ast.walk(fn) if isinstance(n, ast.Name) and isinstance(n.ctx, ast.Store)}:
                        if g != name and U(ffg.resolved(su.stmt, ast.Name(id=g, ctx=ast.Load()))) == l:
                            guards.append(ast.IfExp(test=ast.Compare(left=ast.Name(id=g, ctx=ast.Load()), ops=[ast.IsNot()], comparators=[ast.Constant(value=None)]),
                                                    body=ast.Constant(value=None), orelse=ast.Constant(value=None)))
    for guard in guards:
        t = guard.test
        # idiom A
        if isinstance(t, ast.Compare) and len(t.ops) == 1 and isinstance(t.ops[0], ast.IsNot) and isinstance(t.left, ast.Name) \
                and isinstance(t.comparators[0], ast.Constant) and t.comparators[0].value is None:
            g = t.left.id
            gdefs = assigns(g)
            ok = bool(gdefs)
            for d in gdefs:
                v = d.value
                if isinstance(v, ast.Constant) and v.value is None:
                    continue
                bl = body_list_of(d)
                if bl is None or not any(x in defs for x in bl):
                    ok = False
            if ok:
                return f"`{name}` is assigned in every block that gives `{g}` a non-None value, and the use is guarded by `{g} is not None`"
        # idiom B
        if isinstance(t, ast.Name):
            flag = t.id
            for d in defs:
                for g2 in enclosing_ifs(d):
                    if isinstance(guard, ast.If) and isinstance(g2.test, ast.Name) and g2.test.id == flag and g2 is not guard and g2.lineno < guard.lineno and body_list_of(g2) is body_list_of(guard):
                        between = [a for a in assigns(flag) if g2.end_lineno < a.lineno < guard.lineno]
                        if not between:
                            return f"`{name}` is assigned under `if {flag}:`; `{flag}` is only narrowed inside that block before the guarded use"
    # idiom B': `if flag: name = ..; flag = <narrowed>` ... `if not flag: continue / return / raise` ... use(name)
    from ..symex import always_leaves
    for d in defs:
        for g2 in enclosing_ifs(d):
            if not isinstance(g2.test, ast.Name):
                continue
            flag = g2.test.id
            bl = body_list_of(g2)
            if bl is None:
                continue
            anc = use_stmt
            while anc is not None and not any(anc is x for x in bl):
                anc = parents.get(id(anc))
            if anc is None or anc is g2:
                continue
            i0, i1 = [k for k, x in enumerate(bl) if x is g2][0], [k for k, x in enumerate(bl) if x is anc][0]
            for s_ in bl[i0 + 1:i1]:
                if isinstance(s_, ast.If) and not s_.orelse and isinstance(s_.test, ast.UnaryOp) and isinstance(s_.test.op, ast.Not) and isinstance(s_.test.operand, ast.Name) \
                        and s_.test.operand.id == flag and always_leaves(s_.body):
                    between = [a for a in assigns(flag) if g2.end_lineno < a.lineno <= getattr(use_stmt, "lineno", 0)]
                    if not between:
                        return f"`{name}` is assigned under `if {flag}:`; `{flag}` is only narrowed inside that block and `if not {flag}:` leaves before the use"
    return None


def none_dereference(prog: Program, rep) -> None:
    """A value the function itself tests against None (so it can be None there) must not be dereferenced where no such test
    protects it: `None.attr` is an AttributeError escaping solve().  Single-binding values only (engine: nonecheck.py)."""
    from .. import nonecheck
    CANARY = """
def bad(state, key, prev):
    cur = state[key]
    if prev is not None:
        if cur is None or not (cur != prev).any():
            return 0
    return cur.sum()
def good(state, key, prev):
    cur = state[key]
    if cur is None:
        return 0
    if prev is not None and not (cur != prev).any():
        return 0
    return cur.sum()
def rebinding(x):
    if x is None:
        x = []
    return x.copy()
"""
    got = {f.name: [v for v, _ in nonecheck.unguarded_derefs(f)] for f in ast.parse(CANARY).body}
    if got != {"bad": ["cur"], "good": [], "rebinding": []}:
        raise AnalysisError(f"None-dereference canary failed: {got}")
    n = n_c = 0
    for fi in prog.iter_functions():
        if not prog.in_scope(fi) or not isinstance(fi.node, (ast.FunctionDef, ast.AsyncFunctionDef)):
            continue
        n += 1
        cand = nonecheck.candidates(fi.node)
        n_c += len(cand)
        hits = nonecheck.unguarded_derefs(fi.node)
        for v, node in hits:
            rep.fail("none-dereference", fi.qualname, _stmt_text(fi, node),
                     f"VIOLATED: `{U(node)[:60]}` dereferences `{v}` where it is not known to be non-None, but {fi.name} itself tests `{v}` against None "
                     f"elsewhere (so it can be None): AttributeError / TypeError on that case", fi.loc(node))
        if cand and not hits:
            rep.ok("none-dereference", fi.short, f"values tested against None {sorted(cand)}: every dereference is under the non-None side of a test")
    rep.pin("functions examined for None dereferences", n, 300)
    rep.pin("values tested against None (single binding)", n_c, 10)


def unbound_locals(prog: Program, rep) -> None:
    """UnboundLocalError is an internal crash: no local may be read on a path on which it was never assigned.  Definite-assignment
    analysis over every in-scope function.  A name that is unbound only if some loop executes zero times is listed as undecided
    (emptiness of an iterable is data); a name unbound along an ordinary path (a `break` / branch before its assignment) is a
    violation unless one of two correlated-guard idioms proves the path infeasible."""
    from ..defassign import possibly_unbound
    # canaries: the analysis must report the three shapes it exists for, and stay silent on their repaired twins - on every run
    CANARY = """
def break_first(xs, t):
    for x in xs:
        if t.expired():
            break
        last = x
    return last
def branch_only(a):
    if a:
        v = 1
    return v
def fine_loop(xs, t):
    last = None
    for x in xs:
        if t.expired():
            break
        last = x
    return last
def fine_while(t):
    while True:
        v = t.next()
        if v:
            break
    return v
"""
    ctree = ast.parse(CANARY)
    got = {f.name: [r.name for r in possibly_unbound(f, optimistic_loops=True)] for f in ctree.body}
    if got != {"break_first": ["last"], "branch_only": ["v"], "fine_loop": [], "fine_while": []}:
        raise AnalysisError(f"definite-assignment canary failed: {got}")
    n = 0
    for fi in prog.iter_functions():
        if not prog.in_scope(fi) or not isinstance(fi.node, (ast.FunctionDef, ast.AsyncFunctionDef)):
            continue
        n += 1

        def once(loop, fi=fi):
            it = getattr(loop, "iter", None)
            return isinstance(it, ast.Call) and dotted(it.func) == "range" and len(it.args) == 1 and _positive_const_attr(prog, fi, it.args[0])
        reps = possibly_unbound(fi.node, once)
        if not reps:
            continue
        hard = {(r.name, id(r.stmt)) for r in possibly_unbound(fi.node, once, optimistic_loops=True)}
        for r in reps:
            if (r.name, id(r.stmt)) not in hard:
                rep.note(f"undecided: {fi.loc(r.node)} `{r.name}` in {fi.short} is unbound if a loop before it executes zero times (emptiness of the iterable is not decided)")
                continue
            why = _guard_idiom(fi.node, r.name, r.stmt, r.node, fi)
            rep.check(why is not None, "no-unbound-local", fi.qualname, short(r.stmt),
                      (f"`{r.name}` is bound whenever it is read ({why})" if why else
                       f"`{r.name}` is bound whenever it is read (there is a path to this statement - a break, an early branch or an untaken `if` before its only assignments - on which it was never assigned: UnboundLocalError)"),
                      fi.loc(r.node))
    rep.pin("functions examined for unbound locals", n, 400)
