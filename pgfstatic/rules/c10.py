"""C10 - a solve is a deterministic function of its inputs (state-carrier inventory)."""
from __future__ import annotations

import ast
from typing import Dict, List, Optional, Set, Tuple

from ..model import AnalysisError, ClassInfo, FuncInfo, Module, Program, dotted, own_nodes, unparse
from ..symex import facts_for
from .common import U, const_value, is_self_attr, parent_map, short

EXPLANATION = (
    "History independence is the absence of a carrier.  Decided: (1) every module-level binding, class-level attribute and "
    "default argument value of the package is a constant / enum / function / class / logger, except the explicit table (the two "
    "warn-once closures, whose value reaches only logger.warning, and the shared default Params()); no global/nonlocal; (2) no "
    "attribute of a Params object is written outside Params.__post_init__; (3) the penalty policy, step controller, display and "
    "timer are constructed inside solve(); every Solver attribute read during a solve is either written earlier in the same "
    "solve or holds a construction-time immutable object; (4) Transformation, Scaling, ScaledProblem, ConstrainedProblem, the "
    "evaluators and Callbacks have attribute stores only in __init__, init-only helpers and cached properties (exceptions: "
    "Evaluator.num_evals counter, Callbacks._callbacks registration); (5) controller / penalty / filter state lives in objects "
    "from (3); (6) no global RNG, no clock value in data flow (time.time only in timer.py), no iteration over sets, no id()/hash()."
)

# one line of reason per exception
ALLOWED_MODULE_STATE = {
    ("pygradflow.eval", "warn_hessian_pattern"): "one-shot logging flag; value flows only into logger.warning",
    ("pygradflow.eval", "warn_hessian_values"): "one-shot logging flag; value flows only into logger.warning",
}
ALLOWED_DEFAULT_CALLS = {
    ("pygradflow.solver.Solver.__init__", "Params()"): "shared default Params; never written (rule 2)",
    ("pygradflow.integration.integration_solver.IntegrationSolver.__init__", "Params()"): "shared default Params; never written (rule 2)",
}
IMMUTABLE_AFTER_INIT = {
    "pygradflow.transform.Transformation": {},
    "pygradflow.scale.Scaling": {},
    "pygradflow.scale.ScaledProblem": {},
    "pygradflow.cons_problem.ConstrainedProblem": {},
    "pygradflow.problem.Problem": {},
    "pygradflow.eval.Evaluator": {"num_evals": "evaluation counter; flows only into the final log report"},
    "pygradflow.eval.SimpleEvaluator": {"num_evals": "evaluation counter"},
    "pygradflow.eval.ValidatingEvaluator": {"num_evals": "evaluation counter"},
    "pygradflow.callbacks.Callbacks": {"_callbacks": "user-managed registration (register/unregister)"},
    "pygradflow.params.Params": {},
}
PER_SOLVE_FACTORIES = ("penalty_strategy", "step_controller", "solver_display", "Timer")


def _is_constant_expr(prog: Program, mod: Module, e: ast.AST) -> bool:
    if isinstance(e, ast.Constant):
        return True
    if isinstance(e, (ast.UnaryOp,)):
        return _is_constant_expr(prog, mod, e.operand)
    if isinstance(e, ast.BinOp):
        return _is_constant_expr(prog, mod, e.left) and _is_constant_expr(prog, mod, e.right)
    if isinstance(e, ast.Tuple):
        return all(_is_constant_expr(prog, mod, x) for x in e.elts)
    if isinstance(e, ast.Call) and isinstance(e.func, ast.Name) and e.func.id == "object" and not e.args and not e.keywords:
        return True      # a sentinel: no state, compared by identity only
    if isinstance(e, ast.Call) and isinstance(e.func, ast.Name):
        # an instance of a NamedTuple class of this package built from constants: an immutable record
        ci_ = prog.resolve_symbol(mod, e.func.id)
        if isinstance(ci_, ClassInfo) and any(b in ("NamedTuple", "typing.NamedTuple") for b in ci_.ext_bases) and not ci_.bases \
                and not any(isinstance(a_, ast.Starred) for a_ in e.args) and all(k_.arg is not None for k_ in e.keywords):
            return all(_is_constant_expr(prog, mod, a_) for a_ in list(e.args) + [k_.value for k_ in e.keywords])
    if isinstance(e, ast.Subscript) and isinstance(e.value, (ast.Name, ast.Attribute)):
        # a type alias: Tuple[float, float], Optional[np.ndarray], typing.Callable[..]
        root = e.value.id if isinstance(e.value, ast.Name) else (dotted(e.value) or "").split(".")[0]
        src = mod.imports.get(root, (None, None))[0]
        if src in ("typing", "collections.abc", "typing_extensions") or root in ("tuple", "list", "dict", "type", "set", "frozenset"):
            return True
    if isinstance(e, ast.Name):
        import builtins as _b
        if e.id not in mod.imports and e.id not in mod.functions and e.id not in mod.classes and isinstance(getattr(_b, e.id, None), type):
            return True  # a builtin class (exception types in a tuple for an except clause, int / float as converters)
        tgt = prog.resolve_symbol(mod, e.id)
        if tgt is not None:
            return True  # function / class / module
        # another module-level constant
        for st in mod.tree.body:
            if isinstance(st, ast.Assign) and any(isinstance(t, ast.Name) and t.id == e.id for t in st.targets):
                return _is_constant_expr(prog, mod, st.value)
        return e.id in ("None", "True", "False")
    if isinstance(e, ast.Attribute):
        d = dotted(e) or ""
        if d in ("np.inf", "numpy.inf", "np.float32", "np.float64", "np.nan", "np.newaxis", "math.inf", "math.pi"):
            return True
        # a plain attribute of an external library module (np.int64, np.float32, math.e, ...): a type or constant of that library
        if isinstance(e.value, ast.Name) and e.value.id in ("np", "numpy", "math", "sp", "scipy") and mod.imports.get(e.value.id, (None, None))[0] in ("numpy", "math", "scipy", None):
            return True
        base = prog.resolve_expr_static(mod, e.value)
        if isinstance(base, ClassInfo):  # enum member / class attribute
            return True
        if isinstance(e.value, ast.Call) and (dotted(e.value.func) or "") in ("np.finfo", "numpy.finfo"):
            return True
        return False
    if isinstance(e, ast.Call):
        d = dotted(e.func) or ""
        if d in ("float", "int", "auto", "enum.auto", "np.finfo", "numpy.finfo", "frozenset", "tuple") and all(_is_constant_expr(prog, mod, a) for a in e.args):
            return True
        if d in ("logging.getLogger",) or d.endswith(".getChild"):
            return True
        return False
    return False


def _is_constant_table(prog: Program, mod: Module, e: ast.AST) -> bool:
    """a literal dict / list / set / tuple of constants (a lookup table)."""
    if isinstance(e, ast.Dict):
        return all(k is not None and _is_constant_expr(prog, mod, k) and (_is_constant_expr(prog, mod, v) or _is_constant_table(prog, mod, v)) for k, v in zip(e.keys, e.values))
    if isinstance(e, (ast.List, ast.Set, ast.Tuple)):
        return all(_is_constant_expr(prog, mod, x) or _is_constant_table(prog, mod, x) for x in e.elts)
    return False


def _never_mutated(prog: Program, mod: Module, name: str) -> bool:
    """no statement of the package stores into / calls a mutating method on / rebinds the module-level table `name`."""
    muts = ("append", "extend", "insert", "remove", "pop", "clear", "update", "add", "discard", "setdefault", "sort", "reverse", "popitem")
    for m in prog.modules.values():
        local = name if m is mod else None
        if m is not mod:
            imp = [k for k, (tm, sym) in m.imports.items() if tm == mod.name and sym == name]
            local = imp[0] if imp else None
        for node in ast.walk(m.tree):
            if local is not None:
                if isinstance(node, ast.Subscript) and isinstance(node.ctx, (ast.Store, ast.Del)) and isinstance(node.value, ast.Name) and node.value.id == local:
                    return False
                if isinstance(node, ast.Call) and isinstance(node.func, ast.Attribute) and node.func.attr in muts and isinstance(node.func.value, ast.Name) and node.func.value.id == local:
                    return False
                if isinstance(node, ast.AugAssign) and isinstance(node.target, ast.Name) and node.target.id == local:
                    return False
                if isinstance(node, ast.Global) and local in node.names:
                    return False
            if isinstance(node, ast.Attribute) and node.attr == name and isinstance(node.ctx, (ast.Store, ast.Del)):
                return False
    return True


def static_state(prog: Program, rep, mods) -> int:
    """module-level and class-level bindings of the given modules are constants (no hidden state carrier, no cache shared by all solves)"""
    n_bind = 0
    for mod in mods:
        for st in mod.tree.body:
            targets = []
            if isinstance(st, ast.Assign):
                targets = [(t, st.value) for t in st.targets]
            elif isinstance(st, ast.AnnAssign) and st.value is not None:
                targets = [(st.target, st.value)]
            for t, v in targets:
                if not isinstance(t, ast.Name):
                    continue
                n_bind += 1
                if t.id == "__all__":
                    continue
                ok = _is_constant_expr(prog, mod, v) or (_is_constant_table(prog, mod, v) and _never_mutated(prog, mod, t.id))
                why = ALLOWED_MODULE_STATE.get((mod.name, t.id))
                rep.check(ok or why is not None, "module-state", mod.name, U(st).splitlines()[0][:100],
                          f"module-level `{t.id}` is a constant / logger / function object" + (f" (listed exception: {why})" if why else ""), f"{mod.relpath}:{st.lineno}")
        for node in ast.walk(mod.tree):
            if isinstance(node, (ast.Global, ast.Nonlocal)):
                # the one listed exception: the one-shot flag of eval.warn_once kept as a nonlocal instead of a list cell (the closure
                # is separately shown to log only and return nothing)
                if isinstance(node, ast.Nonlocal) and mod.name == "pygradflow.eval":
                    wo_ = mod.functions.get("warn_once")
                    if wo_ is not None and any(node in ast.walk(nf.node) for nf in wo_.nested.values()):
                        continue
                rep.fail("module-state", mod.name, U(node), "VIOLATED: global / nonlocal statement (a hidden state carrier)", f"{mod.relpath}:{node.lineno}")
        for ci in mod.classes.values():
            is_enum = any(b in ("Enum", "Flag", "enum.Enum", "enum.Flag") for b in ci.ext_bases)
            is_dc = any((dotted(d.func) if isinstance(d, ast.Call) else dotted(d)) in ("dataclass", "dataclasses.dataclass") for d in ci.node.decorator_list)
            local_consts: Set[str] = set()
            for st in ci.node.body:
                tv = []
                if isinstance(st, ast.Assign):
                    tv = [(t, st.value) for t in st.targets]
                elif isinstance(st, ast.AnnAssign) and st.value is not None:
                    tv = [(st.target, st.value)]
                for t, v in tv:
                    n_bind += 1
                    ok = _is_constant_expr(prog, mod, v) or (all(isinstance(x, (ast.Name, ast.BinOp, ast.BitOr, ast.BitAnd, ast.Load)) for x in ast.walk(v))
                                                             and all(x.id in local_consts for x in ast.walk(v) if isinstance(x, ast.Name)))
                    if not ok and is_dc and isinstance(st, ast.AnnAssign) and isinstance(v, ast.Call) and (dotted(v.func) or "") in ("field", "dataclasses.field") and not v.args:
                        # a dataclass field: `default_factory` builds a fresh value per instance, `default` must be a constant
                        def fresh_factory(f_):
                            if isinstance(f_, ast.Name) and f_.id in ("list", "dict", "set"):
                                return True
                            return isinstance(f_, ast.Lambda) and not f_.args.args and isinstance(f_.body, (ast.List, ast.Dict, ast.Set, ast.Constant, ast.Tuple)) \
                                and all(isinstance(x_, (ast.Constant, ast.List, ast.Dict, ast.Set, ast.Tuple, ast.Load)) for x_ in ast.walk(f_.body))
                        ok = all((k_.arg == "default_factory" and fresh_factory(k_.value)) or (k_.arg == "default" and _is_constant_expr(prog, mod, k_.value))
                                 or (k_.arg in ("init", "repr", "compare", "hash", "kw_only") and isinstance(k_.value, ast.Constant)) for k_ in v.keywords)
                    if ok and isinstance(t, ast.Name):
                        local_consts.add(t.id)
                    rep.check(ok, "class-level-state", ci.qualname, U(st).splitlines()[0][:100],
                              f"class-level attribute `{U(t)}` of {ci.name} is a constant (a mutable object here would be shared by all instances and solves)",
                              f"{mod.relpath}:{st.lineno}")
    return n_bind


def run(prog: Program, rep, tier: str) -> None:
    rep.explanation = EXPLANATION
    rep.assumptions += ["numpy / scipy kernels are deterministic", "the caller's Problem is itself stateless or caches safely (C11 covers what the library does to it)"]
    mods = [m for m in prog.modules.values() if prog.in_scope(m)]
    # ---- rule 1: module-level state, class-level attributes, defaults -------------------------
    n_bind = static_state(prog, rep, mods)
    for fi in prog.iter_functions():
        if not prog.in_scope(fi):
            continue
        a = fi.node.args
        for d in list(a.defaults) + [x for x in a.kw_defaults if x is not None]:
            n_bind += 1
            ok = _is_constant_expr(prog, fi.module, d)
            why = ALLOWED_DEFAULT_CALLS.get((fi.qualname, U(d)))
            rep.check(ok or why is not None, "default-argument-state", fi.qualname, U(d),
                      f"default argument `{U(d)}` is a constant (a call here is evaluated once at import and shared by every later call)" + (f" (listed exception: {why})" if why else ""),
                      fi.loc(d))
    rep.pin("module-level bindings, class attributes and default values classified", n_bind, 120)
    # the inputs of a solve (problem, params, scaling, starting point) are state that outlives it: a solve that writes into them
    # changes what the next solve computes - the ownership analysis of C11 decides that
    from . import c11
    from .c01 import _SubReport
    c11.run(prog, _SubReport(rep, keep=("no-write-to-caller-owned",)), "quick")
    # the two warn-once closures: value reaches only logger.warning
    ev = prog.module("pygradflow.eval")
    wo = ev.functions.get("warn_once")
    if wo is None:
        raise AnalysisError("eval.warn_once has vanished")
    inner = list(wo.nested.values())
    ok = len(inner) == 1

    def only_logs(fn_) -> bool:
        calls_ = [n for n in own_nodes(fn_.node) if isinstance(n, ast.Call)]
        return all((dotted(c.func) or "").startswith("logger.") for c in calls_) and not [r for r in own_nodes(fn_.node) if isinstance(r, ast.Return) and r.value is not None]
    if ok:
        ok = only_logs(inner[0])
    elif not inner:
        # the same thing as a small callable object: `return _OnceWarning(args)` whose __call__ only logs and returns nothing
        from .common import returns_of as _rets
        rs_ = _rets(wo)
        cls_ = None
        if len(rs_) == 1 and isinstance(rs_[0].value, ast.Call):
            for t_ in prog.resolve_call_target(wo, rs_[0].value):
                if isinstance(t_, ClassInfo):
                    cls_ = t_
        if cls_ is not None and not cls_.bases and "__call__" in cls_.methods:
            ok = all(only_logs(m_) for nm_, m_ in cls_.methods.items() if nm_ != "__init__")
    rep.check(ok, "module-state", wo.qualname, "warn_once", "the warn-once closure only logs and returns nothing (its flag cannot reach numerics)", wo.loc())

    # ---- rule 2: Params never written ----------------------------------------------------------
    pc = prog.cls("pygradflow.params.Params")
    n_w = 0
    for fi in prog.iter_functions():
        if not prog.in_scope(fi):
            continue
        for n in own_nodes(fi.node):
            tgt = None
            if isinstance(n, ast.Attribute) and isinstance(n.ctx, (ast.Store, ast.Del)):
                tgt = n.value
            elif isinstance(n, ast.Call) and dotted(n.func) in ("setattr", "object.__setattr__", "delattr") and n.args:
                tgt = n.args[0]
            if tgt is None:
                continue
            ts = prog.infer_type(fi, tgt)
            if pc in ts or (U(tgt) in ("params", "self.params")):
                n_w += 1
                rep.check(fi.qualname == "pygradflow.params.Params.__post_init__", "params-never-written", fi.qualname, U(n)[:80],
                          "attributes of a Params object are written only by Params.__post_init__", fi.loc(n))
    rep.pin("writes to Params attributes seen", n_w, 1)

    # ---- rule 3: per-solve construction -----------------------------------------------------------
    per_solve(prog, rep)
    # ---- rule 4: immutable long-lived objects ------------------------------------------------------
    immutables(prog, rep)
    # ---- rule 6: nondeterministic sources ---------------------------------------------------------------
    sources(prog, rep)


def _init_only_helpers(prog: Program, ci: ClassInfo) -> Set[str]:
    """methods of ci that are called only from __init__ (transitively)."""
    callers: Dict[str, Set[str]] = {}
    for fi in prog.iter_functions():
        for n in own_nodes(fi.node):
            if isinstance(n, ast.Call) and isinstance(n.func, ast.Attribute) and n.func.attr in ci.methods:
                callers.setdefault(n.func.attr, set()).add(fi.qualname)
    out = {"__init__", "__post_init__"}
    changed = True
    while changed:
        changed = False
        for m, cs in callers.items():
            if m in out:
                continue
            if cs and all(any(c.endswith("." + o) and c.rsplit(".", 1)[0] in [x.qualname for x in prog.mro(ci) + prog.all_subclasses(ci)] for o in out) for c in cs):
                out.add(m)
                changed = True
    return out


def attr_stores(prog: Program, ci: ClassInfo) -> List[Tuple[FuncInfo, ast.AST, str]]:
    """(method, node, attr) for every store to self.<attr> (incl. item stores and in-place container calls) in ci."""
    out = []
    for m in ci.methods.values():
        for n in own_nodes(m.node):
            if isinstance(n, ast.Attribute) and isinstance(n.ctx, (ast.Store, ast.Del)) and is_self_attr(n):
                out.append((m, n, n.attr))
            if isinstance(n, ast.Subscript) and isinstance(n.ctx, (ast.Store, ast.Del)):
                b = n.value
                while isinstance(b, ast.Subscript):
                    b = b.value
                if is_self_attr(b):
                    out.append((m, n, b.attr))
            if isinstance(n, ast.Call) and isinstance(n.func, ast.Attribute) and n.func.attr in ("append", "extend", "insert", "remove", "pop", "clear", "update", "add", "setdefault", "sort"):
                b = n.func.value
                while isinstance(b, ast.Subscript):
                    b = b.value
                if is_self_attr(b):
                    out.append((m, n, b.attr))
            if isinstance(n, ast.AugAssign):
                b = n.target
                while isinstance(b, ast.Subscript):
                    b = b.value
                if is_self_attr(b) and not isinstance(n.target, ast.Attribute):
                    out.append((m, n, b.attr))
    return out


def class_is_immutable_after_init(prog: Program, ci: ClassInfo, allowed: Dict[str, str]):
    helpers = _init_only_helpers(prog, ci)
    bad = []
    for m, n, attr in attr_stores(prog, ci):
        if m.name in helpers or m.is_property and "cached_property" in " ".join(m.decorators):
            continue
        if attr in allowed:
            continue
        bad.append((m, n, attr))
    return bad


def immutables(prog: Program, rep) -> None:
    n = 0
    for q, allowed in IMMUTABLE_AFTER_INIT.items():
        ci = prog.cls(q)
        n += 1
        bad = class_is_immutable_after_init(prog, ci, allowed)
        if bad:
            for m, node, attr in bad[:3]:
                rep.fail("immutable-long-lived-object", m.qualname, U(node)[:80],
                         f"VIOLATED: {ci.name}.{attr} is written outside construction; {ci.name} objects outlive a solve, so this state is carried into the next one", m.loc(node))
        else:
            rep.ok("immutable-long-lived-object", ci.qualname, f"attribute stores only in __init__ / init-only helpers / cached properties (exceptions: {sorted(allowed) or 'none'})")
    # ... transitively: an object a long-lived object builds and keeps (a cache, a memo, a work buffer, a helper of a new class)
    # lives as long as its owner, so its class must not change after construction either
    seen = set(IMMUTABLE_AFTER_INIT)
    todo = [(prog.cls(q), prog.cls(q).name) for q in IMMUTABLE_AFTER_INIT]
    depth = {prog.cls(q).qualname: 0 for q in IMMUTABLE_AFTER_INIT}
    while todo:
        ci, chain = todo.pop()
        for m in ci.methods.values():
            for st in own_nodes(m.node):
                if not (isinstance(st, (ast.Assign, ast.AnnAssign)) and getattr(st, "value", None) is not None):
                    continue
                tgs = st.targets if isinstance(st, ast.Assign) else [st.target]
                if not any(is_self_attr(t) for t in tgs):
                    continue
                for c in ast.walk(st.value):
                    if not isinstance(c, ast.Call):
                        continue
                    for t in prog.resolve_call_target(m, c):
                        if isinstance(t, ClassInfo) and t.qualname not in seen and prog.in_scope(t) and depth[ci.qualname] < 3:
                            seen.add(t.qualname)
                            depth[t.qualname] = depth[ci.qualname] + 1
                            todo.append((t, f"{chain} -> {t.name}"))
                            n += 1
                            bad = class_is_immutable_after_init(prog, t, {})
                            for m2, node, attr in bad[:2]:
                                rep.fail("immutable-long-lived-object", m2.qualname, U(node)[:80],
                                         f"VIOLATED: {t.name}.{attr} is written outside construction, and a {t.name} is kept by a long-lived object ({chain} -> {t.name}): "
                                         f"this state is carried from one evaluation / solve into the next", m2.loc(node))
                            if not bad:
                                rep.ok("immutable-long-lived-object", t.qualname, f"kept by {chain}: attribute stores only in construction")
    rep.pin("long-lived classes checked for immutability", n, 10)
    # exceptions must stay observer-only: num_evals flows only into logging
    for fi in prog.iter_functions():
        if not prog.in_scope(fi):
            continue
        pm = None
        for node in own_nodes(fi.node):
            if isinstance(node, ast.Attribute) and node.attr == "num_evals" and isinstance(node.ctx, ast.Load):
                cls = prog.enclosing_class(fi)
                if cls is not None and any(c.qualname == "pygradflow.eval.Evaluator" for c in prog.mro(cls)):
                    continue
                ok = fi.name == "print_result"
                rep.check(ok, "immutable-long-lived-object", fi.qualname, U(node), "Evaluator.num_evals is read only by the final report", fi.loc(node))


def accumulating_state(prog: Program, rep) -> None:
    """an attribute of a solver object that is updated relative to its own previous value (augmented assignment, `.append`,
    or `self.a = f(self.a)`) anywhere outside __init__ accumulates history; it must be given a fresh value by a plain store
    in solve() on the straight-line part before the first loop, i.e. at the start of every solve."""
    for q in ("pygradflow.solver.Solver", "pygradflow.integration.integration_solver.IntegrationSolver"):
        c = prog.cls(q)
        sv = c.methods.get("solve")
        if sv is None:
            raise AnalysisError(f"{q}.solve has vanished")
        ff = facts_for(sv)
        first_loop = min([s.index for s in ff.order if isinstance(s.stmt, (ast.While, ast.For)) and not s.loops], default=10 ** 9)
        loop_facts = next((set(s.facts) for s in ff.order if s.index == first_loop), set())
        fresh = {}
        for s in ff.order:
            # the store must be on every path into the loop: a store under a condition the loop is not under (`if self.t is None:
            # .. self.a = ..` - a set-up-once block) leaves the old value in place on the other paths
            if isinstance(s.stmt, ast.Assign) and not s.loops and s.index < first_loop and set(s.facts) <= loop_facts:
                for t in s.stmt.targets:
                    if is_self_attr(t) and not any(is_self_attr(n, t.attr) and isinstance(n.ctx, ast.Load) for n in ast.walk(s.stmt.value)):
                        fresh.setdefault(t.attr, s)
        accum = {}
        for m in c.methods.values():
            if m.name in ("__init__",):
                continue
            for n in own_nodes(m.node):
                if isinstance(n, ast.AugAssign) and is_self_attr(n.target):
                    accum.setdefault(n.target.attr, (m, n))
                elif isinstance(n, ast.Assign):
                    for t in n.targets:
                        if not is_self_attr(t):
                            continue
                        val = n.value
                        if not any(is_self_attr(k, t.attr) for k in ast.walk(val)) and any(isinstance(k, ast.Name) for k in ast.walk(val)):
                            try:
                                val = facts_for(m).resolved(n, n.value)     # `nxt = 10 * self.a; self.a = nxt`
                            except Exception:
                                val = n.value
                        import re as _re
                        if any(is_self_attr(k, t.attr) and isinstance(k.ctx, ast.Load) for k in ast.walk(val)) or \
                                (val is not n.value and _re.search(r"\bself\." + _re.escape(t.attr) + r"\b", U(val))):      # also inside a loop-carried marker
                            accum.setdefault(t.attr, (m, n))
                elif isinstance(n, ast.Call) and isinstance(n.func, ast.Attribute) and n.func.attr in ("append", "extend", "add", "update", "insert") and is_self_attr(n.func.value):
                    accum.setdefault(n.func.value.attr, (m, n))
        for a, (m, n) in sorted(accum.items()):
            rep.check(a in fresh, "accumulating-state-reinitialised", m.qualname, short(n) if isinstance(n, ast.stmt) else U(n),
                      f"{c.name}.{a} is updated relative to its previous value; solve() gives it a fresh value before its first loop" +
                      ("" if a in fresh else " (no such store found: the value survives from one solve to the next)"), m.loc(n))
        rep.note(f"{c.name}: accumulating attributes {sorted(accum)}; freshly stored at the start of solve: {sorted(fresh)}")


def per_solve(prog: Program, rep) -> None:
    accumulating_state(prog, rep)
    scls = prog.cls("pygradflow.solver.Solver")
    sv = scls.methods["solve"]
    ff = facts_for(sv)
    # the four per-solve objects are constructed in solve()
    for fac in PER_SOLVE_FACTORIES:
        calls = [n for n in own_nodes(sv.node) if isinstance(n, ast.Call) and dotted(n.func) == fac]
        sis = [ff.stmt_of(c) for c in calls]
        ok = len(calls) >= 1 and all(not s.loops for s in sis)
        rep.check(ok, "per-solve-construction", sv.qualname, f"{fac}(...)", f"`{fac}(...)` is constructed inside solve(), once, before the main loop", sv.loc(calls[0]) if calls else sv.loc())
        others = []
        for m in scls.methods.values():
            if m.name in ("solve", "perform_iteration"):
                continue
            others += [(m, n) for n in own_nodes(m.node) if isinstance(n, ast.Call) and dotted(n.func) == fac]
        rep.check(not others, "per-solve-construction", others[0][0].qualname if others else scls.qualname, f"{fac}(...)",
                  f"no other Solver method (in particular __init__) constructs a `{fac}` that could be shared between solves", others[0][0].loc(others[0][1]) if others else "")
    # Solver attributes: written in __init__ => type must be a construction-time immutable class (or plain data)
    init = scls.methods["__init__"]
    init_attrs: Dict[str, ast.AST] = {}
    for n in own_nodes(init.node):
        if isinstance(n, ast.Assign):
            for t in n.targets:
                if is_self_attr(t):
                    init_attrs[t.attr] = n.value
    stateful = []
    for a, v in init_attrs.items():
        for t in prog.infer_type(init, v):
            fam = [c.qualname for c in prog.mro(t)]
            if any(q in IMMUTABLE_AFTER_INIT for q in fam):
                continue
            stores = [(m, nn, at) for c in prog.mro(t) + prog.all_subclasses(t, include_self=False) for (m, nn, at) in attr_stores(prog, c)
                      if m.name not in ("__init__", "__post_init__")]
            if stores:
                stateful.append((a, t, stores[0]))
    rep.check(not stateful, "solver-holds-no-state", init.qualname, f"self.{stateful[0][0]} = ..." if stateful else "__init__",
              "objects stored on the Solver at construction are immutable afterwards" +
              (f" (self.{stateful[0][0]} is a {stateful[0][1].name}, which mutates itself in {stateful[0][2][0].short})" if stateful else ""),
              init.loc())
    # attributes written in solve(): written before read on the solve path
    solve_writes: Dict[str, int] = {}
    for s in ff.order:
        st = s.stmt
        if isinstance(st, ast.Assign) and not s.loops:
            for t in st.targets:
                if is_self_attr(t) and t.attr not in solve_writes:
                    solve_writes[t.attr] = s.index
    reads_ok = True
    first_bad = None
    methods = [m for m in scls.methods.values() if m.name not in ("__init__", "perform_iteration")]
    for m in methods:
        for n in own_nodes(m.node):
            if is_self_attr(n) and isinstance(n.ctx, ast.Load) and n.attr not in init_attrs and n.attr not in scls.methods:
                if n.attr not in solve_writes:
                    reads_ok, first_bad = False, (m, n, "never written in solve() before the loop")
                elif m is sv:
                    s = ff.stmt_of(n)
                    if s is not None and s.index < solve_writes[n.attr]:
                        reads_ok, first_bad = False, (m, n, "read before it is written in this solve")
    rep.check(reads_ok, "solver-holds-no-state", first_bad[0].qualname if first_bad else sv.qualname, U(first_bad[1]) if first_bad else "self.*",
              "every Solver attribute read during a solve is set at construction or written earlier in the same solve" +
              (f" (self.{first_bad[1].attr}: {first_bad[2]})" if first_bad else f" (per-solve attributes: {sorted(solve_writes)})"),
              first_bad[0].loc(first_bad[1]) if first_bad else sv.loc())
    # methods of Solver reading per-solve attributes are only called from solve()
    # stateful per-solve objects must not be reachable from long-lived ones: Transformation holds no controller/penalty objects
    tr = prog.cls("pygradflow.transform.Transformation")
    held = []
    for m in tr.methods.values():
        for n in own_nodes(m.node):
            if isinstance(n, ast.Assign):
                for t in n.targets:
                    if is_self_attr(t):
                        for ty in prog.infer_type(m, n.value):
                            if any(c.qualname in ("pygradflow.step.step_control.StepController", "pygradflow.penalty.PenaltyStrategy", "pygradflow.iterate.Iterate") for c in prog.mro(ty)):
                                held.append((m, n))
    rep.check(not held, "per-solve-construction", held[0][0].qualname if held else tr.qualname, short(held[0][1]) if held else "",
              "the Transformation (created once per Solver) holds no controller, penalty policy or iterate", held[0][0].loc(held[0][1]) if held else "")


def sources(prog: Program, rep) -> None:
    n = 0
    for fi in prog.iter_functions():
        if not prog.in_scope(fi) or "FixedActiveSetNewtonMethod" in fi.qualname:
            continue
        for node in own_nodes(fi.node):
            if isinstance(node, ast.Call):
                d = dotted(node.func) or ""
                if d.startswith(("np.random.", "numpy.random.", "random.")):
                    n += 1
                    seed = next((k.value for k in node.keywords if k.arg == "seed"), node.args[0] if node.args else None)
                    ok = d.endswith("default_rng") and seed is not None and (isinstance(seed, ast.Constant) or (isinstance(seed, ast.Name) and _module_const(fi.module, seed.id)))
                    rep.check(ok, "no-nondeterministic-source", fi.qualname, U(node), "randomness comes only from a private generator with a fixed module-constant seed", fi.loc(node))
                if d in ("time.time", "time.perf_counter", "time.monotonic", "time.process_time", "datetime.now", "datetime.datetime.now"):
                    n += 1
                    rep.check(fi.module.name == "pygradflow.timer", "no-nondeterministic-source", fi.qualname, U(node), "the clock is read only inside timer.py", fi.loc(node))
                if d in ("id", "hash", "os.urandom", "uuid.uuid4", "os.getpid"):
                    n += 1
                    rep.fail("no-nondeterministic-source", fi.qualname, U(node), f"VIOLATED: `{d}` depends on the process / object identity", fi.loc(node))
            if isinstance(node, (ast.For, ast.comprehension)):
                itx = node.iter
                if isinstance(itx, ast.Set) or (isinstance(itx, ast.Call) and dotted(itx.func) in ("set", "frozenset")):
                    rep.fail("no-nondeterministic-source", fi.qualname, U(itx)[:60], "VIOLATED: iteration over a set (order depends on hashing)", fi.loc(itx))
    rep.pin("clock / RNG call sites classified", n, 3)
    # process-wide numeric settings: a solve must leave numpy's floating-point error mode (and similar global switches) as it found
    # them on EVERY exit, or the next solve in the process computes under different rules (warnings become exceptions, ...)
    GLOBAL_SETTERS = ("np.seterr", "numpy.seterr", "np.seterrcall", "numpy.seterrcall", "np.setbufsize", "np.set_printoptions", "warnings.simplefilter",
                      "warnings.filterwarnings", "sys.setrecursionlimit", "np.random.seed", "numpy.random.seed", "random.seed")
    n_set = 0
    for fi in prog.iter_functions():
        if not prog.in_scope(fi):
            continue
        pm = None
        for node in own_nodes(fi.node):
            if not (isinstance(node, ast.Call) and (dotted(node.func) or "") in GLOBAL_SETTERS):
                continue
            n_set += 1
            d = dotted(node.func)
            pm = pm or parent_map(fi.node)
            # accepted: the restoring call inside a `finally:`; a setting call whose statement is immediately followed (same block) by a
            # try statement whose finally restores with the same setter
            cur, in_finally = node, False
            while id(cur) in pm:
                par = pm[id(cur)]
                if isinstance(par, ast.Try) and any(cur is x for x in par.finalbody):
                    in_finally = True
                cur = par
            ok = in_finally
            if not ok:
                st = node
                while id(st) in pm and not isinstance(st, ast.stmt):
                    st = pm[id(st)]
                blk_owner = pm.get(id(st))
                for fld in ("body", "orelse", "finalbody"):
                    blk = getattr(blk_owner, fld, None)
                    if isinstance(blk, list) and any(x is st for x in blk):
                        k = [i for i, x in enumerate(blk) if x is st][0]
                        nxt = blk[k + 1] if k + 1 < len(blk) else None
                        if isinstance(nxt, ast.Try) and any(isinstance(c, ast.Call) and dotted(c.func) == d for fb in nxt.finalbody for c in ast.walk(fb)):
                            ok = True
            rep.check(ok, "process-global-settings", fi.qualname, U(node)[:70],
                      f"`{d}` changes a process-wide setting; it is restored in a `finally:` on every exit (use `with np.errstate(..)`)", fi.loc(node))
    if n_set == 0:
        rep.ok("process-global-settings", "all in-scope functions", "no call changes a process-wide numeric / warning setting")


def _module_const(mod: Module, name: str) -> bool:
    for st in mod.tree.body:
        if isinstance(st, ast.Assign) and any(isinstance(t, ast.Name) and t.id == name for t in st.targets):
            return isinstance(st.value, ast.Constant)
    return False
