"""C05 - user functions are only evaluated inside the variable bounds (site rules)."""
from __future__ import annotations

import ast
from typing import Dict, List, Optional, Set

from ..model import AnalysisError, ClassInfo, FuncInfo, Program, dotted, own_nodes, unparse
from ..symex import facts_for, phi_alternatives
from .common import U, bind_args, const_value, is_self_attr, kwarg, np_call, parent_map, returns_of, short
from . import c15

CBS = ("obj", "obj_grad", "cons", "cons_jac", "lag_hess")
IT = "pygradflow.iterate.Iterate"

EXPLANATION = (
    "(1) who-may-call: every call of a Problem / Evaluator callback in the in-scope package is one of: an Iterate cached "
    "property or Iterate.lag_hess evaluating at self.x; an Evaluator method forwarding its own argument; a wrapper problem "
    "(ScaledProblem via _orig_x, ConstrainedProblem via orig_vals) forwarding its own argument; ConstrainedProblem.transform_sol "
    "at the user's x0; or the two exempt places (derivative check, create_scaling).  (2) every Iterate(...) built on the homotopy "
    "path gets a box-safe x: the clamped StepResult.xn (two-sided clamp against the same problem's bounds), np.clip against the "
    "bounds of the same problem, the x of an existing iterate, the transformed start (scaling is ldexp with the exponent of the "
    "bounds; slacks are clipped), or it is immediately replaced by .clipped().  (3) the iterates given to callbacks and the "
    "returned x are fields of such iterates (C12).  The flow-integration solver evaluates at ODE integrator states and is outside "
    "this property's anchors; the cyipopt controllers are out of scope."
)

OUT_OF_PROPERTY = ("pygradflow.integration",)


def _is_cb_receiver(prog: Program, fi: FuncInfo, recv: ast.AST) -> Optional[str]:
    ts = prog.infer_type(fi, recv)
    for t in ts:
        names = [c.qualname for c in prog.mro(t)]
        if "pygradflow.problem.Problem" in names:
            return "problem"
        if "pygradflow.eval.Evaluator" in names:
            return "evaluator"
    return None


def run(prog: Program, rep, tier: str) -> None:
    rep.explanation = EXPLANATION
    from . import c11 as _c11
    _c11.problem_bounds_copied(prog, rep)     # the box is the declared one for the lifetime of the problem
    rep.assumptions += ["the starting point satisfies the variable bounds (premise of the property)",
                        "ldexp by the same integer exponent is monotone and exact for x and for its bounds (C04.1)"]
    it = prog.cls(IT)
    n_sites = 0
    for fi in prog.iter_functions():
        if not prog.in_scope(fi) or fi.module.name.startswith(OUT_OF_PROPERTY) or "FixedActiveSetNewtonMethod" in fi.qualname:
            continue
        ff = None
        for n in list(own_nodes(fi.node)) + [m for lam in own_nodes(fi.node) if isinstance(lam, ast.Lambda) for m in ast.walk(lam.body)]:
            if not (isinstance(n, ast.Call) and isinstance(n.func, ast.Attribute) and n.func.attr in CBS):
                continue
            kind = _is_cb_receiver(prog, fi, n.func.value)
            if kind is None:
                continue
            n_sites += 1
            ff = ff or facts_for(fi)
            cls = prog.enclosing_class(fi)
            cq = cls.qualname if cls else ""
            arg0 = n.args[0] if n.args else None
            si = ff.stmt_of(n)
            a0 = U(ff.resolved(si.stmt, arg0)) if (arg0 is not None and si is not None) else (U(arg0) if arg0 is not None else "")
            recv = U(ff.resolved(si.stmt, n.func.value)) if si is not None else U(n.func.value)
            ok, why = False, ""
            if cq == IT:
                ok = a0 == "self.x" and recv == "self.eval"
                why = "Iterate evaluates at its own x through its evaluator"
            elif cls is not None and any(c.qualname == "pygradflow.eval.Evaluator" for c in prog.mro(cls)):
                ok = a0 in fi.params and recv in ("self.problem", "self")
                why = "Evaluator forwards its own argument"
            elif cq == "pygradflow.scale.ScaledProblem":
                p0 = [p for p in fi.params if p != 'self'][0]
                # the unscaled point: through the private helper, written out, or through Scaling.unscale_primal (all ldexp(x, -v):
                # exponent forms are C04's rule; bounds are scaled by the same exact powers of two)
                ok = a0 in (f"self._orig_x({p0})", f"np.ldexp({p0}, -self.scaling.var_weights)", f"self.scaling.unscale_primal({p0})") and recv == "self.problem"
                why = "ScaledProblem forwards the unscaled own argument"
            elif cq == "pygradflow.cons_problem.ConstrainedProblem":
                p0 = [p for p in fi.params if p != "self"][0]
                ok = recv == "self.problem" and (a0 in (f"self.orig_vals({p0})", f"{p0}[:self.problem.num_vars]") or (fi.name == "transform_sol" and a0 == p0))
                why = "ConstrainedProblem forwards orig_vals(own argument) (transform_sol: the given start)"
            elif _top(fi).qualname in ("pygradflow.solver.Solver._deriv_check", "pygradflow.scale.create_scaling") or fi.qualname.startswith("pygradflow.deriv_check.") \
                    or _only_called_from(prog, fi, ("pygradflow.solver.Solver._deriv_check", "pygradflow.scale.create_scaling")):
                ok, why = True, "exempt by the statement (derivative check / scaling point)"
            rep.check(ok, "evaluation-who-may-call", fi.qualname, short(si.stmt) if si is not None else U(n),
                      f"callback call `{U(n)[:70]}` is a sanctioned evaluation site ({why or 'not one of the sanctioned forms'})", fi.loc(n))
    rep.pin("callback call sites", n_sites, 25)

    # ---- rule 2: box-safe Iterate constructions ---------------------------------------------
    n_cons = 0
    for fi in prog.iter_functions():
        if not prog.in_scope(fi) or fi.module.name.startswith(OUT_OF_PROPERTY) or "FixedActiveSetNewtonMethod" in fi.qualname:
            continue
        ff = None
        pm = None
        for n in own_nodes(fi.node):
            if not (isinstance(n, ast.Call) and prog.resolve_symbol(fi.module, dotted(n.func) or "") is it):
                continue
            n_cons += 1
            ff = ff or facts_for(fi)
            pm = pm or parent_map(fi.node)
            init = prog.func(IT + ".__init__")
            b = bind_args(init, n)
            if b is None:
                raise AnalysisError(f"cannot bind Iterate(...) in {fi.short}")
            si = ff.stmt_of(n)
            x = ff.resolved(si.stmt, b["x"])
            prob = U(ff.resolved(si.stmt, b["problem"]))
            safe, why = box_safe(prog, fi, ff, si, x, prob, b["x"])
            par = pm.get(id(n))
            if not safe and isinstance(par, ast.Attribute) and par.attr == "clipped" and isinstance(pm.get(id(par)), ast.Call):
                safe, why = True, "the unclipped object is only the receiver of .clipped() (never evaluated itself)"
            if not safe and isinstance(par, ast.Assign) and len(par.targets) == 1 and isinstance(par.targets[0], ast.Name) and par.value is n:
                # bound to a temporary whose only use is as the receiver of .clipped()
                nm = par.targets[0].id
                uses = [m for m in own_nodes(fi.node) if isinstance(m, ast.Name) and m.id == nm and isinstance(m.ctx, ast.Load)]
                if uses and all(isinstance(pm.get(id(m)), ast.Attribute) and pm.get(id(m)).attr == "clipped" and isinstance(pm.get(id(pm.get(id(m)))), ast.Call) for m in uses):
                    safe, why = True, "the unclipped object is only the receiver of .clipped() (never evaluated itself)"
            rep.check(safe, "box-safe-iterate", fi.qualname, short(si.stmt),
                      f"Iterate(...) receives a box-safe x ({why}); x = {U(x)[:100]}", fi.loc(n))
    rep.pin("Iterate construction sites on the homotopy path", n_cons, 5)
    clipped_rule(prog, rep)
    c15.clamp(prog, rep)
    start_is_safe(prog, rep)
    # slack k starts inside the bounds of slack k: same row index in c(x0), lower and upper bound, and in the bounds of the internal problem
    from . import c04
    from .c01 import _SubReport
    c04.slack_embedding(prog, _SubReport(rep, keep=("slack-start", "slack-bounds", "slack-layout")))


def box_safe(prog: Program, fi: FuncInfo, ff, si, x: ast.AST, prob: str, raw: ast.AST):
    alts = phi_alternatives(x)
    reasons = []
    for a in alts:
        ok, why = _box_safe_one(prog, fi, ff, si, a, prob, raw)
        if not ok:
            return False, why
        reasons.append(why)
    return True, "; ".join(sorted(set(reasons)))


def _top(fi):
    while getattr(fi, "parent", None) is not None:
        fi = fi.parent
    return fi


def _only_called_from(prog, fi, roots) -> bool:
    """fi is a NEW function (or a closure inside one) every call site of which lies in one of the exempt functions (or in
    another such new function): a helper of the derivative check / of the scaling-point evaluation."""
    from ..inline import known_functions
    known = known_functions()
    top = fi
    while getattr(top, "parent", None) is not None:
        top = top.parent
    if top.qualname in known:
        return False
    seen = set()
    todo = [top]
    while todo:
        f = todo.pop()
        if f.qualname in seen:
            continue
        seen.add(f.qualname)
        callers = []
        for g in prog.functions.values():
            for c in own_nodes(g.node):
                if isinstance(c, ast.Call) and (isinstance(c.func, ast.Name) and c.func.id == f.name or isinstance(c.func, ast.Attribute) and c.func.attr == f.name):
                    if any(t is f for t in prog.resolve_call_target(g, c)) or (isinstance(c.func, ast.Name) and c.func.id == f.name and g.module is f.module):
                        gt = g
                        while getattr(gt, "parent", None) is not None:
                            gt = gt.parent
                        callers.append(gt)
        if not callers:
            return False
        for g in callers:
            if g.qualname in roots:
                continue
            if g.qualname in known:
                return False
            todo.append(g)
    return True


def _box_safe_one(prog, fi, ff, si, a: ast.AST, prob: str, raw: ast.AST):
    t = U(a)
    # (c) x of an existing iterate, or a copy of it
    inner = a.args[0] if np_call(a, "copy") and a.args else a
    if isinstance(inner, ast.Attribute) and inner.attr == "x" and any(c.qualname == IT for c in prog.infer_type(fi, inner.value)):
        return True, "x of an existing iterate"
    if U(inner) == "self.x" and prog.enclosing_class(fi) is not None and prog.enclosing_class(fi).qualname == IT:
        return True, "x of an existing iterate"
    # (a) the clamped step result
    base = a.func.value if isinstance(a, ast.Call) and isinstance(a.func, ast.Attribute) and a.func.attr == "astype" else a
    if U(base) == "self.xn" and prog.enclosing_class(fi) is not None and prog.enclosing_class(fi).name == "StepResult":
        return True, "clamped StepResult.xn"
    # (b) np.clip(E, P.var_lb, P.var_ub) with the bounds of the same problem
    o_ = kwarg(a, "out") if isinstance(a, ast.Call) else None
    fresh_out = o_ is None or (np_call(o_, "empty_like", "empty", "zeros_like", "zeros") )   # np.clip returns `out`: a fresh array is fine
    if np_call(a, "clip") and len(a.args) >= 3 and fresh_out:
        lb, ub = U(a.args[1]), U(a.args[2])
        if lb == f"{prob}.var_lb" and ub == f"{prob}.var_ub":
            return True, "np.clip against the bounds of the same problem"
    # (b') out= variant: `np.clip(x, lb, ub, out=<name>)` executed just before, <name> = np.empty_like(..)
    if isinstance(raw, ast.Name):
        for s in ff.order:
            if s.index < si.index and isinstance(s.stmt, ast.Expr) and np_call(s.stmt.value, "clip"):
                c = s.stmt.value
                o = kwarg(c, "out")
                if isinstance(o, ast.Name) and o.id == raw.id and len(c.args) >= 3:
                    lb, ub = U(ff.resolved(s.stmt, c.args[1])), U(ff.resolved(s.stmt, c.args[2]))
                    if lb == f"{prob}.var_lb" and ub == f"{prob}.var_ub" and s.facts == si.facts:
                        return True, "np.clip(.., out=) against the bounds of the same problem"
    # (d) transformed start
    if fi.qualname == "pygradflow.transform.Transformation.create_transformed_iterate":
        b_ = base
        first = None
        if isinstance(b_, ast.Call) and isinstance(b_.func, ast.Name) and b_.func.id == "__item__" and len(b_.args) == 2 and isinstance(b_.args[1], ast.Constant) and b_.args[1].value == 0:
            first = b_.args[0]
        elif isinstance(b_, ast.Subscript) and isinstance(b_.slice, ast.Constant) and b_.slice.value == 0:
            first = b_.value
        if first is not None and isinstance(first, ast.Call) and U(first.func) == "self.transform_sol" and prob == "self.trans_problem":
            return True, "transformed starting point"
    return False, f"`{t[:80]}` is none of: clamped step result, np.clip against the same problem's bounds, x of an iterate, transformed start"


def clipped_rule(prog: Program, rep) -> None:
    m = prog.func(IT + ".clipped")
    ff = facts_for(m)
    for r in returns_of(m):
        v = ff.resolved(r, r.value)
        si = ff.at(r)
        if U(v) == "self":
            want = {("truthy", "np.all(self.problem.var_lb <= self.x)", None), ("truthy", "np.all(self.x <= self.problem.var_ub)", None)}
            alt = want
            facts = set(si.facts)
            rep.check(want <= facts or alt <= facts, "clipped-returns-in-box", m.qualname, short(r),
                      "clipped() returns the iterate itself only when every component is within both bounds", m.loc(r))
        else:
            ok = isinstance(v, ast.Call) and dotted(v.func) == "Iterate"
            rep.check(ok, "clipped-returns-in-box", m.qualname, short(r), "otherwise clipped() builds a new Iterate (box-safety checked by box-safe-iterate)", m.loc(r))


def start_is_safe(prog: Program, rep) -> None:
    ct = prog.func("pygradflow.transform.Transformation.create_transformed_iterate")
    ff = facts_for(ct)
    calls = [n for n in own_nodes(ct.node) if isinstance(n, ast.Call) and isinstance(n.func, ast.Attribute) and n.func.attr == "transform_sol"]
    if len(calls) != 1:
        raise AnalysisError("create_transformed_iterate: transform_sol not called exactly once")
    si = ff.stmt_of(calls[0])
    x = ff.resolved(si.stmt, calls[0].args[0])
    p0 = [p for p in ct.params if p != "self"][0]
    ok = True
    kinds = []
    for a in phi_alternatives(x):
        if np_call(a, "clip") and len(a.args) == 3 and U(a.args[1]) == "self.orig_problem.var_lb" and U(a.args[2]) == "self.orig_problem.var_ub":
            kinds.append("default start clipped into the box")
        elif np_call(a, "broadcast_to") and a.args and U(a.args[0]) == p0:
            kinds.append("the caller's x0 (premise: in bounds)")
        else:
            ok = False
            kinds.append("?" + U(a)[:60])
    rep.check(ok, "start-is-box-safe", ct.qualname, short(si.stmt), f"the point handed to transform_sol is {kinds}", ct.loc(si.stmt))
    # Transformation.transform_sol: scale_primal then embed
    ts = prog.func("pygradflow.transform.Transformation.transform_sol")
    ft = facts_for(ts)
    rs = returns_of(ts)
    xs = [p for p in ts.params if p != "self"][0]
    ok = False
    alts = set()
    shape_ok = bool(rs)
    for r_ in rs:
        v = ft.resolved(r_, r_.value)
        if isinstance(v, ast.Call) and U(v.func) == "self.trans_problem.transform_sol" and v.args:
            alts |= {U(a) for a in phi_alternatives(v.args[0])}
        else:
            shape_ok = False
    ok = shape_ok and alts == {xs, f"self.scaling.scale_primal({xs})"}
    rep.check(ok, "start-is-box-safe", ts.qualname, short(rs[0]) if rs else "", "transform_sol maps x through scale_primal (or not at all) and then through the slack embedding", ts.loc())
