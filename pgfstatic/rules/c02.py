"""C02 - non-optimal terminal statuses are justified (guard dominance + iteration accounting)."""
from __future__ import annotations

import ast
from typing import Dict, List, Optional

from ..loopflow import count_in_path, first_index
from ..model import AnalysisError, FuncInfo, Program, dotted, own_nodes, unparse
from ..symex import atoms_of, facts_for
from .common import value_sites, U, bind_args, const_value, enum_member, enum_members, is_self_attr, kwarg, np_call, returns_of, short
from .solveloop import is_aug, is_method_call, loop_name, solve_loop

STATUS = "pygradflow.status.SolverStatus"

EXPLANATION = (
    "Guard dominance: every `return SolverStatus.X` in Solver._check_terminate is dominated by the test the statement demands "
    "(IterationLimit: limit is not None and iteration >= limit, and it is the FIRST test; TimeLimit: timer.reached_time_limit(); "
    "LocallyInfeasible: iterate.locally_infeasible(opt_tol, local_infeas_tol); Unbounded: obj <= obj_lower_limit and "
    "is_feasible(opt_tol)); the callees are unfolded (violation > tol and projected J'c <= local_infeas_tol with the sign table; "
    "both violation measures <= tol; time_limit - (time.time() - start) <= 0).  Iteration accounting by path enumeration of the "
    "main loop: the termination test is the first action of every loop iteration and leaves before any step computation, every "
    "path to the back edge has exactly one _compute_step and one `iteration += 1`, iteration starts at literal 0, the loop is "
    "left only by that break or by the lamb_max abort; by induction #steps == iteration <= limit and IterationLimit is returned "
    "with iteration == limit.  The numeric truth of the stationarity claim is not decided."
)


def status_of(prog: Program, fi: FuncInfo, e: Optional[ast.AST]) -> Optional[str]:
    if e is None:
        return "None"
    if isinstance(e, ast.Constant) and e.value is None:
        return "None"
    return enum_member(prog, fi, e, STATUS)


def run(prog: Program, rep, tier: str) -> None:
    rep.explanation = EXPLANATION
    rep.assumptions += ["time.time() is monotone"]
    # every quantity this property speaks about is computed from the user's callback values: the wrapper problems (scaling,
    # slacks) must hand them on without writing into the objects the callbacks returned (C04 / C11's rule on those constructs)
    from . import c04 as _c04
    _c04.callback_results_kept(prog, rep)
    ct = prog.func("pygradflow.solver.Solver._check_terminate")
    ff = facts_for(ct)
    itp, itn, tmr = [p for p in ct.params if p != "self"][:3]
    want = {
        "IterationLimit": [("isnot", "self.params.iteration_limit", "None"), ("<=", "self.params.iteration_limit", itn)],
        "TimeLimit": [("truthy", f"{tmr}.reached_time_limit()", None)],
        "LocallyInfeasible": [("truthy", f"{itp}.locally_infeasible(self.params.opt_tol, self.params.local_infeas_tol)", None)],
        "Unbounded": [("<=", f"{itp}.obj", "self.params.obj_lower_limit"), ("truthy", f"{itp}.is_feasible(self.params.opt_tol)", None)],
        "Optimal": [("<=", f"{itp}.total_res", "self.params.opt_tol")],
    }
    seen: Dict[str, int] = {}
    for r, rv in value_sites(ct, ff):
        st = status_of(prog, ct, ff.resolved(r, rv) if not (isinstance(rv, ast.Constant) and rv.value is None) else None)
        if st is None:
            rep.fail("status-exhaustive", ct.qualname, short(r), "VIOLATED: _check_terminate returns something that is neither a SolverStatus member nor None", ct.loc(r))
            continue
        if st == "None":
            continue
        seen[st] = seen.get(st, 0) + 1
        if st == "Optimal":
            continue  # C01
        facts = ff.at(r).facts
        missing = [a for a in want.get(st, [("?", "?", "?")]) if a not in facts]
        rep.check(not missing, f"status-gate-{st}", ct.qualname, short(r),
                  f"`return {st}` is dominated by {want.get(st)} (missing: {missing})", ct.loc(r))
        if st == "IterationLimit":
            extra = [a for a in facts if a not in want[st]]
            rep.check(not extra, "status-gate-order", ct.qualname, short(r),
                      f"the iteration-limit test is the first test of _check_terminate (no earlier test can pre-empt it; extra facts: {extra})", ct.loc(r))
    for st in ("IterationLimit", "TimeLimit", "LocallyInfeasible", "Unbounded"):
        rep.check(seen.get(st, 0) >= 1, "status-exhaustive", ct.qualname, st, f"_check_terminate can return {st}", ct.loc())
    rep.pin("status returns in _check_terminate", sum(seen.values()), 5)

    callees(prog, rep)
    accounting(prog, rep)
    integration_accounting(prog, rep)


def callees(prog: Program, rep) -> None:
    it = prog.cls("pygradflow.iterate.Iterate")
    li = it.methods["locally_infeasible"]
    fl = facts_for(li)
    feas, loc = [p for p in li.params if p != "self"][:2]
    for r in returns_of(li):
        v = fl.resolved(r, r.value)
        facts = fl.at(r).facts
        if isinstance(v, ast.Constant) and v.value is False:
            rep.ok("locally-infeasible", li.short, "early return False")
            continue
        dominated = ("<", feas, "self.cons_violation") in facts
        inner = v.args[0] if isinstance(v, ast.Call) and dotted(v.func) == "bool" and v.args else v
        at = atoms_of(inner, True)
        ok_val = len(at) == 1 and at[0][0] == "<=" and at[0][2] == loc and at[0][1].startswith("np.linalg.norm(") and ("np.inf" in at[0][1])
        rep.check(dominated, "locally-infeasible", li.qualname, short(r),
                  "a truthy result of locally_infeasible is returned only where cons_violation > feas_tol", li.loc(r))
        rep.check(ok_val, "locally-infeasible", li.qualname, short(r),
                  f"the result is ||projected J'c||_inf <= local_infeas_tol (found {U(inner)[:120]})", li.loc(r))
    # (projection sign table: rule infeasibility-projection-signs, shared with C13)
    from .c13 import sign_table
    sign_table(prog, rep, li, "self.cons_jac.T.dot(self.cons)", {"at_lower": "minimum", "at_upper": "maximum"}, "infeasibility-projection-signs", init_zero=False)
    from .c13 import active_set_masks
    active_set_masks(prog, rep)
    from .c13 import is_feasible_rule
    is_feasible_rule(prog, rep, "is-feasible")
    # timer
    tm = prog.cls("pygradflow.timer.Timer")
    rt = prog.lookup_method(tm, "reached_time_limit")
    rem = prog.lookup_method(tm, "remaining")
    el = prog.lookup_method(tm, "elapsed")
    def single(m):
        rs = returns_of(m)
        return facts_for(m).resolved(rs[0], rs[0].value) if len(rs) == 1 else None
    v = single(rt)
    ok = v is not None and atoms_of(v, True) in ([("<=", "self.remaining()", "0.0")], [("<=", "self.remaining()", "0")])
    rep.check(ok, "timer", rt.qualname, U(v) if v is not None else "", "reached_time_limit() is remaining() <= 0", rt.loc())
    v = single(rem)
    rep.check(v is not None and U(v) == "self.time_limit - self.elapsed()", "timer", rem.qualname, U(v) if v is not None else "", "remaining() is time_limit - elapsed()", rem.loc())
    v = single(el)
    rep.check(v is not None and U(v) == "time.time() - self.start", "timer", el.qualname, U(v) if v is not None else "", "elapsed() is time.time() - start", el.loc())
    init = prog.lookup_method(tm, "__init__")
    fin = facts_for(init)
    tl = [U(fin.resolved(s.stmt, s.stmt.value)) for s in fin.order if isinstance(s.stmt, ast.Assign) and any(is_self_attr(t, "time_limit") for t in s.stmt.targets)]
    rep.check(tl == [[p for p in init.params if p != "self"][0]], "timer", init.qualname, "self.time_limit", "Timer stores the time limit it is given", init.loc())
    sinit = prog.func("pygradflow.timer.SimpleTimer.__init__")
    fsi = facts_for(sinit)
    st = [U(fsi.resolved(s.stmt, s.stmt.value)) for s in fsi.order if isinstance(s.stmt, (ast.Assign, ast.AnnAssign)) and s.stmt.value is not None
          and any(is_self_attr(t, "start") for t in (s.stmt.targets if isinstance(s.stmt, ast.Assign) else [s.stmt.target]))]
    rep.check(st == ["time.time()"], "timer", sinit.qualname, "self.start", "the timer starts at time.time() of its construction", sinit.loc())
    writers = [(f, n) for f in prog.iter_functions() if prog.in_scope(f) for n in own_nodes(f.node)
               if isinstance(n, ast.Attribute) and isinstance(n.ctx, ast.Store) and n.attr in ("start", "time_limit") and f.cls is not None
               and f.cls.module.name == "pygradflow.timer" and f.name not in ("__init__", "reset")]
    rep.check(not writers, "timer", "pygradflow.timer", "start/time_limit", "timer state is written only by __init__ / reset", "")


def accounting(prog: Program, rep) -> None:
    L = solve_loop(prog)
    sv, ff = L.fi, L.ff
    N = L.names()
    kind, tcall, status_name, holder = L.head()
    # (a) the termination test is the first action of every loop iteration and a non-None status leaves before anything else
    if kind == "while-true":
        first = L.body[0]
        ok_first = first is holder and status_name is not None
        rep.check(ok_first, "check-before-change", sv.qualname, short(first), "the first statement of every loop iteration is the termination test", sv.loc(first))
        if not ok_first:
            return
        second = L.body[1] if len(L.body) > 1 else None
        ok_second = isinstance(second, ast.If) and atoms_of(second.test, True) == [("isnot", status_name, "None")] and not second.orelse \
            and isinstance(second.body[-1], ast.Break) and all(isinstance(s, (ast.Expr, ast.Break)) for s in second.body)
        rep.check(ok_second, "check-before-change", sv.qualname, short(second) if second is not None else "",
                  "a non-None status leaves the loop immediately (before any step computation or state change)", sv.loc(second) if second is not None else sv.loc())
        status_block = second
    elif kind == "walrus":
        rep.ok("check-before-change", sv.short, "the loop condition itself is `(status := _check_terminate(..)) is None`: the test runs before every iteration and a non-None status ends the loop")
        status_block = None
    elif kind == "pre-tail":
        rep.ok("check-before-change", sv.short, "the termination test runs immediately before the loop and again as the last statement of every iteration; the loop runs while its result is None")
        status_block = None
    else:
        raise AnalysisError("Solver.solve: the main loop's termination test is in neither of the recognised forms (while True + break / while (s := check()) is None)")
    itp, itn, tmr = [p for p in L.check_terminate.params if p != "self"][:3]
    args = L.term_args()
    rep.check(N["iterate"] is not None and U(args[itp]).startswith(f"__loop__('{N['iterate']}'") and N["iteration"] is not None and U(args[tmr]).startswith("Timer(self.params.time_limit")
              and loop_name(U(args[itp])) == loop_name(U(L.step_args()[[p for p in L.compute_step.params if p != "self"][1]])),
              "check-before-change", sv.qualname, short(holder) if isinstance(holder, ast.stmt) and not isinstance(holder, ast.While) else U(tcall),
              "the termination test sees the current iterate (the one the next step starts from), the iteration counter and the Timer built from params.time_limit", sv.loc(tcall))
    # (b) exactly one step and one increment per completed iteration
    cnt = N["iteration"]
    is_step = lambda n: is_method_call(n, "_compute_step")
    is_inc = lambda n: cnt is not None and is_aug(n, cnt) and isinstance(n.op, ast.Add) and const_value(n.value) == 1
    n_back = 0
    for p in L.paths:
        ns, ni = count_in_path(p, is_step), count_in_path(p, is_inc)
        if p.end in ("fall", "continue"):
            n_back += 1
            if ns != 1 or ni != 1:
                rep.fail("iteration-accounting", sv.qualname, f"path with {ns} step computations and {ni} increments",
                         f"VIOLATED: a path through the loop body reaches the back edge with {ns} _compute_step call(s) and {ni} increment(s) of the iteration counter "
                         f"(decisions: {[('T' if it[2] else 'F') + ':' + U(it[1])[:40] for it in p.items if it[0] == 'test']})", sv.loc(L.loop))
                break
        elif p.end == "break":
            if ns != 0:
                rep.fail("iteration-accounting", sv.qualname, "break after a step computation", "VIOLATED: the loop can be left by break after a step was computed", sv.loc(L.loop))
                break
        elif p.end == "return":
            rep.fail("status-exhaustive", sv.qualname, "return inside the main loop", "VIOLATED: Solver.solve returns from inside the main loop", sv.loc(L.loop))
            break
    else:
        rep.ok("iteration-accounting", sv.short, f"all {n_back} back-edge paths have exactly one _compute_step and one increment of the iteration counter; break paths have none")
    writes = L.stores_in_loop(cnt)
    # every write to the counter inside the loop is a `+= 1` (the path rule above already shows that each back-edge path passes
    # exactly one of them, so an increment per exit of the body - before a `continue`, at the end - is the same accounting)
    bad_w = [w for w in writes if not is_inc(w.stmt)]
    rep.check(bool(writes) and not bad_w, "iteration-accounting", sv.qualname, short((bad_w or writes)[0].stmt) if writes else "",
              "the only writes to the iteration counter inside the loop are `+= 1` increments", sv.loc((bad_w or writes)[0].stmt) if writes else sv.loc())
    # (c) start at literal 0
    d0 = L.last_def_before_loop(cnt)
    rep.check(d0 is not None and const_value(d0.stmt.value) == 0, "iteration-accounting", sv.qualname, short(d0.stmt) if d0 else "",
              "the iteration counter is the literal 0 when the loop is entered", sv.loc(d0.stmt) if d0 else sv.loc())
    # exits
    breaks = [n for n in ast.walk(L.loop) if isinstance(n, ast.Break)]
    inside = {id(n) for n in ast.walk(status_block)} if status_block is not None else set()
    rep.check(all(id(b_) in inside for b_ in breaks) and not L.loop.orelse,
              "status-exhaustive", sv.qualname, "loop exits", "the loop is left only through the termination test (or an abort raise)", sv.loc(L.loop))
    raises = [s for s in ff.order if L.in_loop(s) and isinstance(s.stmt, ast.Raise)]
    for s in raises:
        ok = any(f[0] == "<=" and f[1] == "self.params.lamb_max" for f in s.facts)
        rep.check(ok, "status-exhaustive", sv.qualname, short(s.stmt), "the only raise inside the loop is the lamb_max abort", sv.loc(s.stmt))
    # result carries the counter
    res = [n for n in own_nodes(sv.node) if isinstance(n, ast.Call) and dotted(n.func) == "SolverResult"]
    if len(res) != 1:
        raise AnalysisError("Solver.solve builds not exactly one SolverResult")
    si = ff.stmt_of(res[0])
    itv = kwarg(res[0], "iterations")
    rep.check(itv is not None and cnt is not None and U(ff.resolved(si.stmt, itv)).startswith(f"__loop__('{cnt}'"), "iteration-accounting", sv.qualname, short(si.stmt),
              "SolverResult.iterations is the loop counter", sv.loc(res[0]))
    stv = arg_status(prog, ff, si, res[0], status_name)
    rep.check(stv, "status-exhaustive", sv.qualname, short(si.stmt), "SolverResult.status is the status that ended the loop", sv.loc(res[0]))
    rep.pin("paths through the main loop body", len(L.paths), 8)


def arg_status(prog, ff, si, call, status_name=None) -> bool:
    r = prog.func("pygradflow.result.SolverResult.__init__")
    b = bind_args(r, call)
    if not b or "status" not in b:
        return False
    t = U(ff.resolved(si.stmt, b["status"]))
    return (status_name is not None and t.startswith(f"__loop__('{status_name}'")) or "_check_terminate(" in t


def integration_accounting(prog: Program, rep) -> None:
    """IntegrationSolver.solve: every completed round increments the counter exactly once and then passes the iteration-limit test."""
    from ..loopflow import block_paths
    f = prog.func("pygradflow.integration.integration_solver.IntegrationSolver.solve")
    ff = facts_for(f)
    loops = [s for s in ff.order if isinstance(s.stmt, ast.While) and not s.loops and any(is_method_call(n, "perform_integration") for n in ast.walk(s.stmt))]
    if len(loops) != 1:
        raise AnalysisError("IntegrationSolver.solve: cannot identify the main loop")
    lp = loops[0].stmt
    # the counter: what SolverResult receives as iterations
    res = [n for n in own_nodes(f.node) if isinstance(n, ast.Call) and dotted(n.func) == "SolverResult"]
    cnt = None
    if len(res) == 1:
        v = kwarg(res[0], "iterations")
        if v is not None:
            cnt = loop_name(U(ff.resolved(ff.stmt_of(res[0]).stmt, v)))
    if cnt is None:
        raise AnalysisError("IntegrationSolver.solve: cannot identify the iteration counter")
    is_inc = lambda n: is_aug(n, cnt) and isinstance(n.op, ast.Add) and const_value(n.value) == 1
    is_int = lambda n: is_method_call(n, "perform_integration")

    def is_limit_test(item):
        if item[0] != "test":
            return False
        t = U(item[1])
        return "iteration_limit" in t and cnt in t
    bad = None
    nb = 0
    for p in block_paths(lp.body):
        if p.end not in ("fall", "continue"):
            continue
        nb += 1
        ni, nn = count_in_path(p, is_inc), count_in_path(p, is_int)
        idx_inc = first_index(p, is_inc)
        lim = [i for i, it in enumerate(p.items) if is_limit_test(it) and i > idx_inc]
        if ni != 1 or nn != 1 or not lim:
            bad = f"{nn} integration(s), {ni} increment(s), limit test after the increment: {bool(lim)}"
            break
    rep.check(bad is None, "integration-iteration-accounting", f.qualname, "while True", f"every completed round of the flow-integration solver performs one integration, one increment and then the iteration-limit test" + (f" (a path has {bad})" if bad else f" ({nb} back-edge paths)"), f.loc(lp))
