"""C02 - non-optimal terminal statuses are justified (guard dominance + iteration accounting)."""
from __future__ import annotations

import ast
from typing import Dict, List, Optional

from ..loopflow import count_in_path, first_index
from ..model import AnalysisError, FuncInfo, Program, dotted, own_nodes, unparse
from ..symex import atoms_of, facts_for
from .common import U, bind_args, const_value, enum_member, enum_members, is_self_attr, kwarg, np_call, returns_of, short
from .solveloop import is_aug, is_method_call, solve_loop

STATUS = "pygradflow.status.SolverStatus"

EXPLANATION = (
    "Guard dominance: every `return SolverStatus.X` in Solver._check_terminate is dominated by the test the statement demands "
    "(IterationLimit: limit is not None and iteration >= limit, and it is the FIRST test; TimeLimit: timer.reached_time_limit(); "
    "LocallyInfeasible: iterate.locally_infeasible(opt_tol, local_infeas_tol); Unbounded: obj <= obj_lower_limit and "
    "is_feasible(opt_tol)); the callees are unfolded (violation > tol and projected J'c <= local_infeas_tol with the sign table; "
    "both violation measures <= tol; time_limit - (time.time() - start) <= 0).  Iteration accounting by path enumeration of the "
    "main loop: the termination test is the first action of every loop iteration and leaves before any step computation, every "
    "path to the back edge has exactly one _compute_step and one `iteration += 1`, iteration starts at literal 0, the loop is "
    "left only by that break or by the lamb_max abort; by induction #steps == iteration <= limit and IterationLimit is returned "
    "with iteration == limit.  The numeric truth of the stationarity claim is not decided."
)


def status_of(prog: Program, fi: FuncInfo, e: Optional[ast.AST]) -> Optional[str]:
    if e is None:
        return "None"
    if isinstance(e, ast.Constant) and e.value is None:
        return "None"
    return enum_member(prog, fi, e, STATUS)


def run(prog: Program, rep, tier: str) -> None:
    rep.explanation = EXPLANATION
    rep.assumptions += ["time.time() is monotone"]
    ct = prog.func("pygradflow.solver.Solver._check_terminate")
    ff = facts_for(ct)
    itp, itn, tmr = [p for p in ct.params if p != "self"][:3]
    want = {
        "IterationLimit": [("isnot", "self.params.iteration_limit", "None"), ("<=", "self.params.iteration_limit", itn)],
        "TimeLimit": [("truthy", f"{tmr}.reached_time_limit()", None)],
        "LocallyInfeasible": [("truthy", f"{itp}.locally_infeasible(self.params.opt_tol, self.params.local_infeas_tol)", None)],
        "Unbounded": [("<=", f"{itp}.obj", "self.params.obj_lower_limit"), ("truthy", f"{itp}.is_feasible(self.params.opt_tol)", None)],
        "Optimal": [("<=", f"{itp}.total_res", "self.params.opt_tol")],
    }
    seen: Dict[str, int] = {}
    for r in returns_of(ct):
        st = status_of(prog, ct, ff.resolved(r, r.value) if r.value is not None else None)
        if st is None:
            rep.fail("status-exhaustive", ct.qualname, short(r), "VIOLATED: _check_terminate returns something that is neither a SolverStatus member nor None", ct.loc(r))
            continue
        if st == "None":
            continue
        seen[st] = seen.get(st, 0) + 1
        if st == "Optimal":
            continue  # C01
        facts = ff.at(r).facts
        missing = [a for a in want.get(st, [("?", "?", "?")]) if a not in facts]
        rep.check(not missing, f"status-gate-{st}", ct.qualname, short(r),
                  f"`return {st}` is dominated by {want.get(st)} (missing: {missing})", ct.loc(r))
        if st == "IterationLimit":
            extra = [a for a in facts if a not in want[st]]
            rep.check(not extra, "status-gate-order", ct.qualname, short(r),
                      f"the iteration-limit test is the first test of _check_terminate (no earlier test can pre-empt it; extra facts: {extra})", ct.loc(r))
    for st in ("IterationLimit", "TimeLimit", "LocallyInfeasible", "Unbounded"):
        rep.check(seen.get(st, 0) >= 1, "status-exhaustive", ct.qualname, st, f"_check_terminate can return {st}", ct.loc())
    rep.pin("status returns in _check_terminate", sum(seen.values()), 5)

    callees(prog, rep)
    accounting(prog, rep)


def callees(prog: Program, rep) -> None:
    it = prog.cls("pygradflow.iterate.Iterate")
    li = it.methods["locally_infeasible"]
    fl = facts_for(li)
    feas, loc = [p for p in li.params if p != "self"][:2]
    for r in returns_of(li):
        v = fl.resolved(r, r.value)
        facts = fl.at(r).facts
        if isinstance(v, ast.Constant) and v.value is False:
            rep.ok("locally-infeasible", li.short, "early return False")
            continue
        dominated = ("<", feas, "self.cons_violation") in facts
        inner = v.args[0] if isinstance(v, ast.Call) and dotted(v.func) == "bool" and v.args else v
        at = atoms_of(inner, True)
        ok_val = len(at) == 1 and at[0][0] == "<=" and at[0][2] == loc and at[0][1].startswith("np.linalg.norm(") and ("np.inf" in at[0][1])
        rep.check(dominated, "locally-infeasible", li.qualname, short(r),
                  "a truthy result of locally_infeasible is returned only where cons_violation > feas_tol", li.loc(r))
        rep.check(ok_val, "locally-infeasible", li.qualname, short(r),
                  f"the result is ||projected J'c||_inf <= local_infeas_tol (found {U(inner)[:120]})", li.loc(r))
    # (projection sign table: rule infeasibility-projection-signs, shared with C13)
    from .c13 import sign_table
    sign_table(prog, rep, li, "self.cons_jac.T.dot(self.cons)", {"at_lower": "minimum", "at_upper": "maximum"}, "infeasibility-projection-signs", init_zero=False)
    from .c13 import active_set_masks
    active_set_masks(prog, rep)
    isf = it.methods["is_feasible"]
    tol = [p for p in isf.params if p != "self"][0]
    rs = returns_of(isf)
    ok = len(rs) == 1 and set(atoms_of(facts_for(isf).resolved(rs[0], rs[0].value), True)) == {("<=", "self.cons_violation", tol), ("<=", "self.bound_violation", tol)}
    rep.check(ok, "is-feasible", isf.qualname, short(rs[0]) if rs else "", "is_feasible(tol) is cons_violation <= tol and bound_violation <= tol", isf.loc())
    # timer
    tm = prog.cls("pygradflow.timer.Timer")
    rt = prog.lookup_method(tm, "reached_time_limit")
    rem = prog.lookup_method(tm, "remaining")
    el = prog.lookup_method(tm, "elapsed")
    def single(m):
        rs = returns_of(m)
        return facts_for(m).resolved(rs[0], rs[0].value) if len(rs) == 1 else None
    v = single(rt)
    ok = v is not None and atoms_of(v, True) in ([("<=", "self.remaining()", "0.0")], [("<=", "self.remaining()", "0")])
    rep.check(ok, "timer", rt.qualname, U(v) if v is not None else "", "reached_time_limit() is remaining() <= 0", rt.loc())
    v = single(rem)
    rep.check(v is not None and U(v) == "self.time_limit - self.elapsed()", "timer", rem.qualname, U(v) if v is not None else "", "remaining() is time_limit - elapsed()", rem.loc())
    v = single(el)
    rep.check(v is not None and U(v) == "time.time() - self.start", "timer", el.qualname, U(v) if v is not None else "", "elapsed() is time.time() - start", el.loc())
    init = prog.lookup_method(tm, "__init__")
    tl = [U(n.value) for n in own_nodes(init.node) if isinstance(n, ast.Assign) and any(is_self_attr(t, "time_limit") for t in n.targets)]
    rep.check(tl == [[p for p in init.params if p != "self"][0]], "timer", init.qualname, "self.time_limit", "Timer stores the time limit it is given", init.loc())
    sinit = prog.func("pygradflow.timer.SimpleTimer.__init__")
    st = [U(n.value) for n in own_nodes(sinit.node) if isinstance(n, ast.Assign) and any(is_self_attr(t, "start") for t in n.targets)]
    rep.check(st == ["time.time()"], "timer", sinit.qualname, "self.start", "the timer starts at time.time() of its construction", sinit.loc())
    writers = [(f, n) for f in prog.iter_functions() if prog.in_scope(f) for n in own_nodes(f.node)
               if isinstance(n, ast.Attribute) and isinstance(n.ctx, ast.Store) and n.attr in ("start", "time_limit") and f.cls is not None
               and f.cls.module.name == "pygradflow.timer" and f.name not in ("__init__", "reset")]
    rep.check(not writers, "timer", "pygradflow.timer", "start/time_limit", "timer state is written only by __init__ / reset", "")


def accounting(prog: Program, rep) -> None:
    L = solve_loop(prog)
    sv, ff = L.fi, L.ff
    # (a) first action: status = self._check_terminate(iterate, iteration, timer); if status is not None: break
    first = L.body[0]
    ok_first = isinstance(first, ast.Assign) and is_method_call(first.value, "_check_terminate") and U(first.value.func.value) == "self"
    rep.check(ok_first, "check-before-change", sv.qualname, short(first), "the first statement of every loop iteration is the termination test", sv.loc(first))
    if not ok_first:
        return
    b = bind_args(L.check_terminate, first.value)
    itp, itn, tmr = [p for p in L.check_terminate.params if p != "self"][:3]
    args = {k: ff.resolved(first, v) for k, v in b.items()} if b else {}
    rep.check(bool(b) and U(args[itp]).startswith("__loop__('iterate'") and U(args[itn]).startswith("__loop__('iteration'") and U(args[tmr]).startswith("Timer(self.params.time_limit"),
              "check-before-change", sv.qualname, short(first),
              "the termination test sees the current iterate, the iteration counter and the Timer built from params.time_limit", sv.loc(first))
    status_name = U(first.targets[0])
    second = L.body[1] if len(L.body) > 1 else None
    ok_second = isinstance(second, ast.If) and atoms_of(second.test, True) == [("isnot", status_name, "None")] and not second.orelse \
        and isinstance(second.body[-1], ast.Break) and all(isinstance(s, (ast.Expr, ast.Break)) for s in second.body)
    rep.check(ok_second, "check-before-change", sv.qualname, short(second) if second is not None else "",
              "a non-None status leaves the loop immediately (before any step computation or state change)", sv.loc(second) if second is not None else sv.loc())
    # (b) exactly one step and one increment per completed iteration
    is_step = lambda n: is_method_call(n, "_compute_step")
    is_inc = lambda n: is_aug(n, "iteration") and isinstance(n.op, ast.Add) and const_value(n.value) == 1
    n_back = 0
    for p in L.paths:
        ns, ni = count_in_path(p, is_step), count_in_path(p, is_inc)
        if p.end in ("fall", "continue"):
            n_back += 1
            if ns != 1 or ni != 1:
                rep.fail("iteration-accounting", sv.qualname, f"path with {ns} step computations and {ni} increments",
                         f"VIOLATED: a path through the loop body reaches the back edge with {ns} _compute_step call(s) and {ni} `iteration += 1` "
                         f"(decisions: {[('T' if it[2] else 'F') + ':' + U(it[1])[:40] for it in p.items if it[0] == 'test']})", sv.loc(L.loop))
                break
        elif p.end == "break":
            if ns != 0:
                rep.fail("iteration-accounting", sv.qualname, "break after a step computation", "VIOLATED: the loop can be left by break after a step was computed", sv.loc(L.loop))
                break
        elif p.end == "return":
            rep.fail("status-exhaustive", sv.qualname, "return inside the main loop", "VIOLATED: Solver.solve returns from inside the main loop", sv.loc(L.loop))
            break
    else:
        rep.ok("iteration-accounting", sv.short, f"all {n_back} back-edge paths have exactly one _compute_step and one `iteration += 1`; break paths have none")
    writes = L.stores_in_loop("iteration")
    rep.check(len(writes) == 1 and is_inc(writes[0].stmt), "iteration-accounting", sv.qualname, short(writes[0].stmt) if writes else "",
              "the only write to `iteration` inside the loop is the single `iteration += 1`", sv.loc(writes[0].stmt) if writes else sv.loc())
    # (c) start at literal 0
    d0 = L.last_def_before_loop("iteration")
    rep.check(d0 is not None and const_value(d0.stmt.value) == 0, "iteration-accounting", sv.qualname, short(d0.stmt) if d0 else "",
              "`iteration` is the literal 0 when the loop is entered", sv.loc(d0.stmt) if d0 else sv.loc())
    # breaks only in the status block; loop is `while True`
    breaks = [n for n in ast.walk(L.loop) if isinstance(n, ast.Break)]
    inside = {id(n) for n in ast.walk(second)} if second is not None else set()
    rep.check(all(id(b_) in inside for b_ in breaks) and isinstance(L.loop.test, ast.Constant) and L.loop.test.value is True and not L.loop.orelse,
              "status-exhaustive", sv.qualname, "while True", "the loop is `while True` and is left only through the status break (or an abort raise)", sv.loc(L.loop))
    raises = [s for s in ff.order if L.in_loop(s) and isinstance(s.stmt, ast.Raise)]
    for s in raises:
        ok = any(f[0] == "<=" and f[1] == "self.params.lamb_max" for f in s.facts)
        rep.check(ok, "status-exhaustive", sv.qualname, short(s.stmt), "the only raise inside the loop is the lamb_max abort", sv.loc(s.stmt))
    # result carries the counter
    res = [n for n in own_nodes(sv.node) if isinstance(n, ast.Call) and dotted(n.func) == "SolverResult"]
    if len(res) != 1:
        raise AnalysisError("Solver.solve builds not exactly one SolverResult")
    si = ff.stmt_of(res[0])
    itv = kwarg(res[0], "iterations")
    rep.check(itv is not None and U(ff.resolved(si.stmt, itv)).startswith("__loop__('iteration'"), "iteration-accounting", sv.qualname, short(si.stmt),
              "SolverResult.iterations is the loop counter", sv.loc(res[0]))
    stv = arg_status(prog, ff, si, res[0])
    rep.check(stv, "status-exhaustive", sv.qualname, short(si.stmt), "SolverResult.status is the status that ended the loop", sv.loc(res[0]))
    rep.pin("paths through the main loop body", len(L.paths), 8)


def arg_status(prog, ff, si, call) -> bool:
    r = prog.func("pygradflow.result.SolverResult.__init__")
    b = bind_args(r, call)
    if not b or "status" not in b:
        return False
    t = U(ff.resolved(si.stmt, b["status"]))
    return t.startswith("__loop__('status'") or "_check_terminate(" in t
