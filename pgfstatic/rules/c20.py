"""C20 - automatic scalings normalise with exact powers of two (exponent forms, dtype lattice, exit guard)."""
from __future__ import annotations

import ast
import os
from typing import Dict, List, Optional, Tuple

from ..model import AnalysisError, FuncInfo, Program, dotted, own_nodes, unparse
from ..symex import resolve as _resolve
from ..symex import atoms_of, facts_for, phi_alternatives, resolve, always_leaves
from .common import unitem, const_value, is_self_attr, kwarg, np_call, returns_of, short
from .common import U as _U


def U(e) -> str:
    """text of an expression with numpy's two spellings of the absolute value unified (np.absolute is np.abs)"""
    return _U(e).replace("np.absolute(", "np.abs(").replace("numpy.absolute(", "np.abs(")

SC = "pygradflow.scale.Scaling"

EXPLANATION = (
    "(1) normalising exponents: weights_from_nominal_values(v) is 1 - frexp(v).exponent (so |v|*2^w lies in [1,2) by the definition "
    "of frexp), optionally guarded for zeros by a test `!= 0`; from_grad_jac: var_weights = -(1 - e(|g|)), Jacobian entries are "
    "pre-scaled by -var_weights[col] before the row maximum, cons_weights = 1 - e(row maximum); from_equilibrated_kkt: KKT = "
    "[[H, J'],[J, 0]], var_weights = -D[:n], cons_weights = D[n:]; scale_symmetric: Rsca = 1 - e(sqrt(column sum)), entries are "
    "rescaled by Rsca[row] + Rsca[col] and D += Rsca in the same iteration.  (2) dtype lattice: every array that receives "
    "magnitudes (abs / ldexp / sqrt / sums of those) is certainly float-kinded; the arrays given to Scaling(...) are int-kinded "
    "(frexp exponents, their sums and negations).  (3) exit guard: scale_symmetric returns only through the break taken when "
    "(Rsca == 0).all(), otherwise it raises; only exactly-zero columns are treated as empty.  (4) the row maximum is "
    "max(old, prescaled[i]) over all stored entries.  Overflow at extreme magnitudes is not decided."
)

FLOAT_DT = {"float", "np.float64", "np.float32", "numpy.float64", "np.double", "'float64'", "'float'", "np.float_", "'d'"}
INT_DT = {"int", "np.int64", "np.int32", "np.int16", "np.int8", "numpy.int64", "'int'", "'int64'", "np.intp"}


def dtype_of(fi: FuncInfo, ff, stmt, e: ast.AST, depth: int = 0) -> str:
    """'int' | 'float' | 'unknown' for the (resolved) array expression e."""
    if depth > 10:
        return "unknown"
    if depth == 0:
        e = unitem(e)
    D = lambda x: dtype_of(fi, ff, stmt, x, depth + 1)
    if isinstance(e, ast.Constant):
        if isinstance(e.value, bool):
            return "unknown"
        if isinstance(e.value, int):
            return "int"
        if isinstance(e.value, float):
            return "float"
    if isinstance(e, ast.Call):
        d = dotted(e.func) or ""
        if d in ("np.zeros", "np.ones", "np.empty", "np.full", "numpy.zeros", "numpy.ones", "numpy.empty", "numpy.full"):
            dt = kwarg(e, "dtype")
            if dt is None:
                if d.endswith("full"):
                    fv = kwarg(e, "fill_value") or (e.args[1] if len(e.args) > 1 else None)
                    return D(fv) if fv is not None else "unknown"
                return "float"
            t = U(dt)
            return "float" if t in FLOAT_DT else ("int" if t in INT_DT else "unknown")
        if d in ("np.abs", "np.absolute", "np.copy", "np.negative") and e.args:
            return D(e.args[0])
        if d in ("np.ldexp", "np.sqrt", "np.exp", "np.log", "np.linalg.norm", "np.divide", "np.true_divide", "np.power", "np.mean"):
            return "float"
        if d in ("np.frexp",):
            return "tuple"
        if d in ("np.maximum", "np.minimum", "max", "min", "np.add", "np.subtract") and len(e.args) >= 2:
            ks = {D(a) for a in e.args}
            return "float" if "float" in ks else ("int" if ks == {"int"} else "unknown")
        if d == "__phi__":
            ks = {D(a) for a in e.args}
            return ks.pop() if len(ks) == 1 else ("float" if ks == {"float"} else "unknown")
        if d in ("__loop__",):
            # loop-carried: join of all definitions of that name in the function
            name = e.args[0].value
            ks = set()
            for si in ff.order:
                st = si.stmt
                if isinstance(st, ast.Assign) and any(isinstance(t, ast.Name) and t.id == name for t in st.targets):
                    ks.add(dtype_of(fi, ff, st, resolve(st.value, {k: v for k, v in si.env.items() if k != name}), depth + 1))
            ks.discard("self")
            return ks.pop() if len(ks) == 1 else "unknown"
        if isinstance(e.func, ast.Attribute) and e.func.attr in ("astype",) and e.args:
            t = U(e.args[0])
            return "float" if t in FLOAT_DT else ("int" if t in INT_DT else "unknown")
        if d.endswith("weights_from_nominal_values"):
            return "int"
        if d == "scale_symmetric":
            return "int"
    if isinstance(e, ast.Subscript):
        b = D(e.value)
        if b == "tuple" and const_value(e.slice) == 1:
            return "int"  # frexp(..)[1] : the exponents
        if b == "tuple" and const_value(e.slice) == 0:
            return "float"
        return b
    if isinstance(e, ast.UnaryOp):
        return D(e.operand)
    if isinstance(e, ast.BinOp):
        if isinstance(e.op, ast.Div):
            return "float"
        a, b = D(e.left), D(e.right)
        if "float" in (a, b):
            return "float"
        if a == b == "int":
            return "int"
        return "unknown"
    if isinstance(e, ast.Attribute) and e.attr == "data":
        return "unknown"  # dtype of the user's matrix
    return "unknown"


def is_frexp_weight(e: ast.AST, arg_text: Optional[str] = None) -> Optional[str]:
    """if e is `1 - np.frexp(X)[1]` return the text of X."""
    e = unitem(e)
    if isinstance(e, ast.BinOp) and isinstance(e.op, ast.Sub) and const_value(e.left) == 1 and isinstance(e.right, ast.Subscript) \
            and const_value(e.right.slice) == 1 and np_call(e.right.value, "frexp") and len(e.right.value.args) == 1:
        return U(e.right.value.args[0])
    return None


class _WNorm(ast.NodeTransformer):
    def visit_BinOp(self, n):
        self.generic_visit(n)
        x = is_frexp_weight(n)
        if x is not None:
            return ast.copy_location(ast.Call(func=ast.parse("Scaling.weights_from_nominal_values", mode="eval").body, args=[n.right.value.args[0]], keywords=[]), n)
        return n


_PLAIN_W = [False]


def wnorm(e: ast.AST) -> ast.AST:
    """spell the expanded weight `1 - np.frexp(X)[1]` as the call Scaling.weights_from_nominal_values(X) it is equal to (only once
    that method has been found to BE this expression), so that a caller may use either."""
    if not _PLAIN_W[0] or e is None:
        return e
    import copy as _copy
    return ast.fix_missing_locations(_WNorm().visit(unitem(_copy.deepcopy(e))))


class _WFacts:
    """facts of a function with every resolved expression spelled through wnorm"""

    def __init__(self, ff):
        self._ff = ff

    def __getattr__(self, k):
        return getattr(self._ff, k)

    def resolved(self, stmt, e):
        return wnorm(self._ff.resolved(stmt, e))


def _rc(idx: ast.AST) -> Optional[str]:
    """'row' / 'col' if idx is <coo>.row[k] / <coo>.col[k]."""
    if isinstance(idx, ast.Subscript) and isinstance(idx.value, ast.Attribute) and idx.value.attr in ("row", "col"):
        return idx.value.attr
    return None


def run(prog: Program, rep, tier: str) -> None:
    rep.explanation = EXPLANATION
    sc = prog.cls(SC)
    # every quantity this property speaks about is computed from the user's callback values: the wrapper problems (scaling,
    # slacks) must hand them on without writing into the objects the callbacks returned (C04 / C11's rule on those constructs)
    from . import c04 as _c04
    _c04.callback_results_kept(prog, rep)
    # ---- weights_from_nominal_values ---------------------------------------------------------------
    w = sc.methods["weights_from_nominal_values"]
    ff = facts_for(w)
    p0 = w.params[0]
    rs = returns_of(w)
    if len(rs) != 1:
        raise AnalysisError("weights_from_nominal_values: expected a single return")
    v = ff.resolved(rs[0], rs[0].value)
    x = is_frexp_weight(v)
    _PLAIN_W[0] = x is not None and x == p0
    if x is not None:
        rep.check(x == p0, "nominal-weights", w.qualname, short(rs[0]), "weight = 1 - frexp(value).exponent", w.loc(rs[0]))
    elif np_call(v, "where") and len(v.args) == 3:
        cond, a, b = v.args
        # accepted: a zero guard `!= 0` on the values or on their mantissas
        ats = atoms_of(cond, True)
        guard_ok = len(ats) == 1 and ats[0][0] == "!=" and ats[0][2] in ("0", "0.0") and (ats[0][1] == p0 or ats[0][1] == f"np.frexp({p0})[0]")
        wa = U(a)
        form_ok = wa in (f"1 - np.frexp({p0})[1]",)
        rep.check(guard_ok and form_ok, "nominal-weights", w.qualname, short(rs[0]),
                  f"weight = 1 - frexp(value).exponent for every NON-ZERO value (guard must be `!= 0`; found guard `{U(cond)}`)", w.loc(rs[0]))
    else:
        raise AnalysisError(f"weights_from_nominal_values is not in a recognised form: `{U(v)[:80]}`")
    fn = sc.methods["from_nominal_values"]
    ffn = facts_for(fn)
    r = returns_of(fn)
    ok = False
    if len(r) == 1:
        vv = wnorm(ffn.resolved(r[0], r[0].value))
        ps = fn.params
        if isinstance(vv, ast.Call) and dotted(vv.func) == "Scaling":
            from .common import bind_args
            b_ = bind_args(sc.methods["__init__"], vv)
            ip = [p_ for p_ in sc.methods["__init__"].params if p_ != "self"]
            ok = b_ is not None and [U(b_[k]) if isinstance(b_.get(k), ast.AST) else None for k in ip[:3]] == [f"Scaling.weights_from_nominal_values({q})" for q in ps[:3]]
    rep.check(ok, "nominal-weights", fn.qualname, short(r[0]) if r else "", "from_nominal_values normalises variable, constraint and objective values each with their own weight", fn.loc())

    # an automatic scaling is a function of the values at the given scaling point: no module-level / class-level cache in scale.py
    # may hand back the weights computed for another point or multiplier
    from . import c10 as _c10
    _c10.static_state(prog, rep, [prog.modules[SC.rsplit(".", 1)[0]]])
    scaling_stores_weights(prog, rep, sc)
    grad_jac(prog, rep, sc)
    kkt(prog, rep, sc)
    scaling_inputs(prog, rep)


WIDE_INT = ("int", "np.int64", "np.int_", "np.intp", "numpy.int64", "np.longlong", "np.int32", "numpy.int32")
NARROW_INT = ("np.int8", "np.int16", "np.uint8", "np.uint16", "np.uint32", "np.uint64", "numpy.int8", "numpy.int16", "np.byte", "np.short")


def scaling_stores_weights(prog: Program, rep, sc) -> None:
    """Scaling keeps the weight vectors it is given, in an integer type wide enough for the arithmetic done on them later
    (`c[i] - v[j]`, `o - v[i] - v[j]`, negation): a conversion to a narrower type makes those sums wrap for large exponents and
    the scaled entries leave [1, 2) by hundreds of binary orders of magnitude."""
    init = sc.methods["__init__"]
    ff = facts_for(init)
    ps = [p for p in init.params if p != "self"]

    def narrow_in(node: ast.AST, where: str):
        """-> description of a narrowing conversion found under node, 'unknown' for a conversion whose type is computed, None if none"""
        found = None
        for k in ast.walk(node):
            if isinstance(k, ast.Call) and isinstance(k.func, ast.Attribute) and k.func.attr == "astype" and k.args:
                t = U(k.args[0])
                if t in WIDE_INT:
                    continue
                if t in NARROW_INT:
                    return f"`{U(k)[:50]}` in {where}"
                # a computed type: narrow if any narrow type is mentioned where it is chosen from
                mod_src = " ".join(U(x) for x in ast.walk(node) if isinstance(x, (ast.List, ast.Tuple)))
                names = {n_.id for n_ in ast.walk(k.args[0]) if isinstance(n_, ast.Name)}
                cand = mod_src
                fmod = prog.modules.get(SC.rsplit(".", 1)[0])
                if fmod is not None:
                    for st in fmod.tree.body:
                        if isinstance(st, (ast.Assign, ast.AnnAssign)) and getattr(st, "value", None) is not None:
                            cand += " " + U(st.value)
                if any(nt in cand for nt in NARROW_INT):
                    return f"`{U(k)[:50]}` in {where}, with the type chosen from a list that contains 8 / 16 bit integers"
                found = "unknown"
        return found
    for attr in ("var_weights", "cons_weights"):
        sts = [q for q in ff.order if isinstance(q.stmt, ast.Assign) and any(is_self_attr(t, attr) for t in q.stmt.targets)]
        if not sts:
            raise AnalysisError(f"Scaling.__init__ does not store self.{attr}")
        for q in sts:
            v = ff.resolved(q.stmt, q.stmt.value)
            where = "Scaling.__init__"
            verdict = narrow_in(v, where)
            # a helper that was not expanded (it has a loop with a return inside): look into it
            for k in ast.walk(v):
                if isinstance(k, ast.Call) and verdict is None:
                    for t in prog.resolve_call_target(init, k):
                        if isinstance(t, FuncInfo) and t.module.name.startswith("pygradflow"):
                            verdict = narrow_in(t.node, t.short) or verdict
            if verdict == "unknown":
                raise AnalysisError(f"Scaling.__init__ converts {attr} to an integer type the rule cannot determine")
            rep.check(verdict is None, "weights-keep-width", init.qualname, short(q.stmt),
                      f"Scaling.{attr} is kept in the (wide) integer type it arrives in" + (f"; narrowed by {verdict}" if verdict else ""), init.loc(q.stmt))


def grad_jac(prog: Program, rep, sc) -> None:
    """from_grad_jac, by role.  var_weights = -W(|g|);  with a Jacobian: cons_weights = W(M) where M[row] is the maximum over the
    stored entries of that row of ldexp(|data|, -var_weights[col]) - accumulated in a loop over all entries, either as
    M[row] = max(M[row], e) or as `if e > M[row]: M[row] = e`; without one: an empty integer weight vector."""
    m = sc.methods["from_grad_jac"]
    ff = _WFacts(facts_for(m))
    g, j = m.params[:2]
    W = "Scaling.weights_from_nominal_values"
    Wg = f"{W}(np.abs({g}))"
    jt = f"{j}.tocoo()"
    sites = []
    for r in returns_of(m):
        v = wnorm(ff.resolved(r, r.value))
        if not (isinstance(v, ast.Call) and dotted(v.func) == "Scaling" and len(v.args) == 2 and not v.keywords):
            raise AnalysisError("from_grad_jac does not return Scaling(var_weights, cons_weights)")
        sites.append((r, v))
    if not sites:
        raise AnalysisError("from_grad_jac: no return")
    gen_cw = None
    for r, v in sites:
        vw, cw = v.args
        rep.check(U(vw) == f"-{Wg}", "gradjac-var-weights", m.qualname, "var_weights", f"var_weights = -(1 - e(|grad|)), so that the scaled gradient g*2^(-v) is normalised (found {U(vw)[:80]})", m.loc(r))
        for alt in phi_alternatives(cw):
            if isinstance(alt, ast.Call) and dotted(alt.func) == W and len(alt.args) == 1:
                gen_cw = (r, alt)
            else:
                ok_e = np_call(alt, "zeros") and dtype_of(m, ff, r, alt) == "int"
                rep.check(ok_e, "weights-are-integral", m.qualname, short(r), f"without constraints the constraint weights are an empty integer vector (found {U(alt)[:60]})", m.loc(r))
        rep.check(dtype_of(m, ff, r, vw) == "int", "weights-are-integral", m.qualname, "var_weights", "the variable weights handed to Scaling are integer exponents", m.loc(r))
    rep.check(gen_cw is not None, "gradjac-cons-weights", m.qualname, "cons_weights", "cons_weights = 1 - e(row maximum of the column-prescaled Jacobian)", m.loc())
    if gen_cw is None:
        return
    # the accumulator: the array whose entries are stored to inside a loop and that reaches weights_from_nominal_values
    stores = [s for s in ff.order if s.loops and isinstance(s.stmt, ast.Assign) and len(s.stmt.targets) == 1 and isinstance(s.stmt.targets[0], ast.Subscript)
              and isinstance(s.stmt.targets[0].value, ast.Name)]
    if len(stores) != 1:
        raise AnalysisError(f"from_grad_jac: expected one store into the row-maximum accumulator inside a loop, found {len(stores)}")
    s0 = stores[0]
    st = s0.stmt
    acc_name = st.targets[0].value.id
    lp = s0.loops[-1]
    env = ff.at(st).env
    idx_txt = U(ff.resolved(st, st.targets[0].slice))
    # row index of the entry and the entry value, by what the loop variables are bound to
    row_txts, ent_txts = set(), set()
    if isinstance(lp, ast.For):
        it = ff.resolved(lp, lp.iter)
        tgt = lp.target
        kname = None
        z = it
        if isinstance(z, ast.Call) and dotted(z.func) == "enumerate" and z.args and isinstance(tgt, ast.Tuple) and len(tgt.elts) == 2:
            kname, tgt, z = U(tgt.elts[0]), tgt.elts[1], z.args[0]
        seqs = []
        if isinstance(z, ast.Call) and dotted(z.func) == "zip":
            seqs = list(zip(tgt.elts if isinstance(tgt, ast.Tuple) else [tgt], z.args))
        elif isinstance(z, ast.Call) and dotted(z.func) == "range" and isinstance(lp.target, ast.Name):
            kname = lp.target.id
        else:
            seqs = [(tgt, z)]
        for el, src in seqs:
            if isinstance(el, ast.Name):
                txt = U(wnorm(env.get(el.id, el)))
                if U(src) == f"{jt}.row":
                    row_txts.add(txt)
                if np_call(src, "ldexp"):
                    ent_txts.add((txt, U(src)))
        if kname is not None:
            ktxt = U(wnorm(env.get(kname, ast.Name(id=kname))))
            row_txts.add(f"{jt}.row[{ktxt}]")
            # entries addressed as prescaled[k]
            for n_ in ast.walk(st):
                if isinstance(n_, ast.Subscript) and U(ff.resolved(st, n_.slice)) == ktxt:
                    b = ff.resolved(st, n_.value)
                    if np_call(b, "ldexp"):
                        ent_txts.add((U(ff.resolved(st, n_)), U(b)))
    acc_ok = idx_txt in row_txts
    # the stored value: max(acc[row], e) / np.maximum, or e under the condition acc[row] < e
    val = ff.resolved(st, st.value)
    old_txt = f"{U(ff.resolved(st, st.targets[0].value))}[{idx_txt}]"
    old_raw = f"{acc_name}[{U(st.targets[0].slice)}]"
    e_txt = None
    if isinstance(st.value, ast.Call) and dotted(st.value.func) in ("max", "np.maximum") and len(st.value.args) == 2:
        raws = [U(a) for a in st.value.args]
        if old_raw in raws:
            other = st.value.args[1 - raws.index(old_raw)]
            e_txt = U(ff.resolved(st, other))
    else:
        e_txt = U(val)
        def ntext(t):
            try:
                return U(wnorm(ast.parse(t, mode="eval").body)) if t else t
            except SyntaxError:
                return t
        guard = any(f[0] == "<" and ntext(f[2]) == e_txt and (ntext(f[1]).endswith(f"[{idx_txt}]")) for f in s0.facts)
        acc_ok = acc_ok and guard
    if os.environ.get("PGF_DEBUG"):
        print("DEBUG c20", dict(idx_txt=idx_txt, row_txts=row_txts, ent_txts=ent_txts, e_txt=e_txt, facts=s0.facts))
    pres = [p for t, p in ent_txts if t == e_txt]
    pres_ok = False
    if pres:
        pe = ast.parse(pres[0], mode="eval").body
        exps = (f"{Wg}[{jt}.col]", f"--{Wg}[{jt}.col]", f"-(-{Wg})[{jt}.col]", f"(-(-{Wg}))[{jt}.col]")
        pres_ok = np_call(pe, "ldexp") and len(pe.args) == 2 and U(pe.args[0]) == f"np.abs({jt}.data)" and U(pe.args[1]) in exps
        if np_call(pe, "ldexp") and len(pe.args) == 2 and isinstance(pe.args[1], ast.Subscript) and not pres_ok:
            # -(-W) is W, however it is parenthesised
            b_ = pe.args[1].value
            while isinstance(b_, ast.UnaryOp) and isinstance(b_.op, ast.USub) and isinstance(b_.operand, ast.UnaryOp) and isinstance(b_.operand.op, ast.USub):
                b_ = b_.operand.operand
            pres_ok = U(pe.args[0]) == f"np.abs({jt}.data)" and U(b_) == Wg and U(pe.args[1].slice) == f"{jt}.col"
        rep.extra["gradjac_prescale"] = pres[0][:160]
    acc_ok = acc_ok and bool(pres)
    # the loop visits every stored entry
    dom_ok = isinstance(lp, ast.For) and jt in U(ff.resolved(lp, lp.iter))
    rep.check(acc_ok and dom_ok, "gradjac-row-maximum", m.qualname, short(st), "the row maximum is accumulated as max(old, prescaled entry) over all stored entries, indexed by the entry's row", m.loc(st))
    rep.check(pres_ok, "gradjac-prescale", m.qualname, "prescaled_data", f"entries are pre-scaled by ldexp(|data|, -var_weights[col]) (found {rep.extra.get('gradjac_prescale')})", m.loc())
    # the accumulated array is what the weights are computed from, and it starts as float zeros
    arg = gen_cw[1].args[0]
    inits = [s for s in ff.order if not s.loops and isinstance(s.stmt, ast.Assign) and len(s.stmt.targets) == 1 and U(s.stmt.targets[0]) == acc_name]
    feeds = len(inits) == 1 and U(arg) == U(ff.resolved(inits[0].stmt, inits[0].stmt.value))
    dt = dtype_of(m, ff, inits[0].stmt, ff.resolved(inits[0].stmt, inits[0].stmt.value)) if inits else "unknown"
    rep.check(feeds, "gradjac-cons-weights", m.qualname, f"{W}({acc_name})", "the constraint weights are computed from the accumulated row maxima", m.loc(gen_cw[0]))
    rep.check(dt == "float" and bool(inits) and np_call(inits[0].stmt.value, "zeros", "zeros_like"), "magnitudes-are-float", m.qualname, short(inits[0].stmt) if inits else acc_name,
              f"the row-maximum accumulator starts from zeros and is certainly float-kinded (found dtype kind: {dt}); an integer accumulator truncates every magnitude below one", m.loc())
    rep.check(dtype_of(m, ff, gen_cw[0], gen_cw[1]) == "int", "weights-are-integral", m.qualname, "cons_weights", "the constraint weights handed to Scaling are integer exponents", m.loc(gen_cw[0]))


def kkt(prog: Program, rep, sc) -> None:
    m = sc.methods["from_equilibrated_kkt"]
    ff = facts_for(m)
    h, j = m.params[:2]
    r = returns_of(m)
    if len(r) != 1:
        raise AnalysisError("from_equilibrated_kkt: expected one return")
    v = ff.resolved(r[0], r[0].value)

    class _Canon(ast.NodeTransformer):
        # np.negative(x) is -x; bmat(.., format=None, dtype=None) is bmat(..) (the defaults spelled out)
        def visit_Call(self, n):
            self.generic_visit(n)
            if np_call(n, "negative") and len(n.args) == 1 and not n.keywords:
                return ast.copy_location(ast.UnaryOp(op=ast.USub(), operand=n.args[0]), n)
            if (dotted(n.func) or "").endswith("bmat"):
                n.keywords = [k for k in n.keywords if not (k.arg in ("format", "dtype") and isinstance(k.value, ast.Constant) and k.value.value is None)]
            return n
    import copy as _copy
    v = ast.fix_missing_locations(_Canon().visit(_copy.deepcopy(v)))
    kk = f"scale_symmetric(sp.sparse.bmat([[{h}, {j}.T], [{j}, None]]))"
    n_txt = f"__item__({j}.shape, 1)"
    from .common import bind_args
    b_ = bind_args(sc.methods["__init__"], v) if isinstance(v, ast.Call) and dotted(v.func) == "Scaling" and "__init__" in sc.methods else None
    ip = [p_ for p_ in sc.methods["__init__"].params if p_ != "self"] if "__init__" in sc.methods else []
    ok = b_ is not None and len(ip) >= 2 and U(b_[ip[0]]) == f"-{kk}[:{n_txt}]" and U(b_[ip[1]]) == f"{kk}[{n_txt}:]" and \
        (len(v.args) + len(v.keywords) == 2 or all(U(b_[q]) in ("0", "0.0") for q in ip[2:] if q in b_))
    rep.check(ok, "kkt-weights", m.qualname, short(r[0]), f"var_weights = -D[:n], cons_weights = D[n:] for D = scale_symmetric([[H, J'],[J, 0]]) (found {U(v)[:120]})", m.loc(r[0]))

    scale_symmetric_rule(prog, rep)


def scale_symmetric_rule(prog: Program, rep) -> None:
    """scale_symmetric, by role.  One outer sweep loop; in a sweep: S = column sums of the working magnitudes (accumulated by an
    entry loop `S[col[k]] += data[k]` or np.add.at(S, col, data)), exactly-zero sums replaced by one, W = 1 - frexp(sqrt(S))[1],
    the function hands out its accumulated weights D only when W is all zero (break + return after the loop, or return inside it),
    otherwise every magnitude k is rescaled by ldexp(., W[row_k] + W[col_k]) and D += W; exhausting the sweeps raises.  Locals are
    followed through plain copies, so temporaries and extracted helpers (expanded by the inliner) do not matter."""
    s = prog.func("pygradflow.scale.scale_symmetric")
    fs = facts_for(s)
    outer = [q for q in fs.order if isinstance(q.stmt, ast.For) and not q.loops]
    if len(outer) != 1:
        raise AnalysisError("scale_symmetric: expected one outer sweep loop")
    lp = outer[0].stmt
    inloop = [q for q in fs.order if lp in q.loops]

    # ---- alias classes of locals (plain copies a = b inside or before the loop) -----------------------------------------
    parent: Dict[str, str] = {}

    def find(a):
        while parent.get(a, a) != a:
            a = parent[a]
        return a
    for q in fs.order:
        st = q.stmt
        if isinstance(st, ast.Assign) and len(st.targets) == 1 and isinstance(st.targets[0], ast.Name) and isinstance(st.value, ast.Name):
            parent[find(st.targets[0].id)] = find(st.value.id)

    def same(a, b):
        return find(a) == find(b)

    def base_name(e):
        return e.id if isinstance(e, ast.Name) else None

    # ---- the working arrays ---------------------------------------------------------------------------------------------
    coo = rows = cols = data = None
    for q in fs.order:
        st = q.stmt
        if q.loops or not (isinstance(st, ast.Assign) and len(st.targets) == 1):
            continue
        tg = st.targets[0]
        vals = list(zip(tg.elts, st.value.elts)) if isinstance(tg, ast.Tuple) and isinstance(st.value, ast.Tuple) and len(tg.elts) == len(st.value.elts) else [(tg, st.value)]
        for t, v in vals:
            if not isinstance(t, ast.Name):
                continue
            rv = U(fs.resolved(st, v))
            if rv.endswith(".tocoo().row"):
                rows = t.id
            elif rv.endswith(".tocoo().col"):
                cols = t.id
            elif rv.startswith("np.abs(") and rv.endswith(".tocoo().data)"):
                data = t.id
    if not (rows and cols and data):
        raise AnalysisError("scale_symmetric: row / column / |data| arrays of the COO form not identified")

    # ---- W = 1 - frexp(sqrt(S))[1] -------------------------------------------------------------------------------------
    W = Wq = Sname = None
    for q in inloop:
        st = q.stmt
        if isinstance(st, ast.Assign) and len(st.targets) == 1 and isinstance(st.targets[0], ast.Name):
            val = unitem(fs.resolved(st, st.value))
            x = is_frexp_weight(val)
            if x is not None:
                W, Wq = st.targets[0].id, q
                arg = ast.parse(x, mode="eval").body
                ok_sqrt = np_call(arg, "sqrt") and len(arg.args) == 1
                rep.check(ok_sqrt, "equilibration-column-sums", s.qualname, short(st), "the sweep weights come from the square root of the column sums", s.loc(st))
    if W is None:
        raise AnalysisError("scale_symmetric: no `W = 1 - frexp(..)[1]` found")
    # S: the array that is accumulated into inside the sweep and feeds the sqrt
    acc = []
    for q in inloop:
        st = q.stmt
        if isinstance(st, ast.AugAssign) and isinstance(st.op, ast.Add) and isinstance(st.target, ast.Subscript) and base_name(st.target.value) and q.index < Wq.index:
            acc.append(("loop", q, base_name(st.target.value)))
        if isinstance(st, ast.Expr) and isinstance(st.value, ast.Call) and dotted(st.value.func) in ("np.add.at", "numpy.add.at") and len(st.value.args) == 3 and base_name(st.value.args[0]):
            acc.append(("add.at", q, base_name(st.value.args[0])))
    ok_acc = False
    if len(acc) == 1:
        kind, q, Sname = acc[0]
        st = q.stmt
        if kind == "loop" and isinstance(q.loops[-1], ast.For) and isinstance(q.loops[-1].iter, ast.Call) and dotted(q.loops[-1].iter.func) == "zip" \
                and isinstance(q.loops[-1].target, ast.Tuple) and len(q.loops[-1].target.elts) == len(q.loops[-1].iter.args):
            # for col, val in zip(cols, data): S[col] += val
            inner = q.loops[-1]
            bind = {U(t_): s_ for t_, s_ in zip(inner.target.elts, inner.iter.args)}
            ci, vi = bind.get(U(st.target.slice)), bind.get(U(st.value))
            ok_acc = base_name(ci) is not None and same(ci.id, cols) and base_name(vi) is not None and same(vi.id, data)
        elif kind == "loop":
            inner = q.loops[-1]
            k = U(inner.target) if isinstance(inner, ast.For) and isinstance(inner.target, ast.Name) else None
            dom = U(fs.resolved(inner, inner.iter)) if isinstance(inner, ast.For) else ""
            idx = st.target.slice
            ok_acc = k is not None and isinstance(idx, ast.Subscript) and base_name(idx.value) and same(idx.value.id, cols) and U(idx.slice) == k \
                and isinstance(st.value, ast.Subscript) and base_name(st.value.value) and same(st.value.value.id, data) and U(st.value.slice) == k \
                and dom.startswith("range(") and ("len(" in dom or ".nnz" in dom or ".size" in dom or "shape" in dom)
        else:
            a0, a1, a2 = st.value.args
            ok_acc = base_name(a1) is not None and same(a1.id, cols) and base_name(a2) is not None and same(a2.id, data)
    rep.check(ok_acc, "equilibration-column-sums", s.qualname, short(acc[0][1].stmt) if acc else "column sums", "S[col] accumulates the magnitudes of column col over all stored entries", s.loc())
    if Sname is None:
        raise AnalysisError("scale_symmetric: the column-sum accumulation was not identified")
    # initial value of S in the sweep and its dtype
    inits = [q for q in inloop if isinstance(q.stmt, ast.Assign) and len(q.stmt.targets) == 1 and isinstance(q.stmt.targets[0], ast.Name) and same(q.stmt.targets[0].id, Sname)
             and not isinstance(q.stmt.value, ast.Name) and not np_call(q.stmt.value, "sqrt") and q.index < acc[0][1].index]
    dt = dtype_of(s, fs, inits[0].stmt, inits[0].stmt.value) if inits else "unknown"
    zero_init = bool(inits) and np_call(inits[0].stmt.value, "zeros", "zeros_like")
    rep.check(dt == "float" and zero_init, "magnitudes-are-float", s.qualname, short(inits[0].stmt) if inits else Sname,
              f"the column-sum accumulator starts from zeros in every sweep and is certainly float-kinded (found {dt})", s.loc(inits[0].stmt) if inits else s.loc())
    # zero guard: only exactly-zero sums are replaced (by one)
    for q in inloop:
        st = q.stmt
        if isinstance(st, ast.Assign) and isinstance(st.targets[0], ast.Subscript) and base_name(st.targets[0].value) and same(st.targets[0].value.id, Sname) \
                and isinstance(st.targets[0].slice, ast.Compare):
            at = atoms_of(st.targets[0].slice, True)
            exact = len(at) == 1 and at[0][0] in ("==", "<=") and at[0][2] in ("0", "0.0") and same(at[0][1], Sname)
            rep.check(exact and const_value(st.value) == 1, "equilibration-zero-columns", s.qualname, short(st),
                      "only exactly-zero columns are treated as empty (a positive threshold would leave small non-zero columns unscaled)", s.loc(st))

    # ---- exit discipline ------------------------------------------------------------------------------------------------
    def zero_fact(facts) -> bool:
        for f in facts:
            try:
                e = unitem(ast.parse(f[1], mode="eval").body)
            except SyntaxError:
                continue
            w_ = None
            if isinstance(e, ast.Call) and isinstance(e.func, ast.Attribute) and e.func.attr in ("all", "any") and not e.args:
                w_, red = e.func.value, e.func.attr
            elif np_call(e, "all", "any") and len(e.args) == 1:
                w_, red = e.args[0], e.func.attr
            if w_ is None:
                continue
            if f[0] == "truthy" and red == "all":
                at = atoms_of(w_, True)
                if len(at) == 1 and at[0][0] == "==" and at[0][2] in ("0", "0.0") and is_frexp_weight(unitem(ast.parse(at[0][1], mode="eval").body)) is not None:
                    return True
            if f[0] == "falsy" and red == "any":
                inner = w_
                at = atoms_of(inner, True)
                if is_frexp_weight(inner) is not None or (len(at) == 1 and at[0][0] == "!=" and at[0][2] in ("0", "0.0")):
                    return True
        return False
    rets = returns_of(s)
    breaks = [q for q in inloop if isinstance(q.stmt, ast.Break) and q.loops[-1] is lp]
    ok_exit = bool(rets)
    for r in rets:
        sr = fs.at(r)
        if lp in sr.loops or zero_fact(sr.facts):
            # inside the sweep, or after it under a flag that is only set where W is all zero
            ok_exit = ok_exit and zero_fact(sr.facts)
        else:
            ok_exit = ok_exit and bool(breaks) and all(zero_fact(b.facts) for b in breaks) and bool(lp.orelse) and always_leaves(lp.orelse) and isinstance(lp.orelse[-1], ast.Raise)
    if rets and all(lp in fs.at(r).loops for r in rets):
        # nothing is returned after the loop: falling out of it (sweeps exhausted) must raise
        after = [q for q in fs.order if q.index > outer[0].index and not q.loops and lp not in q.loops]
        tail_raises = (bool(lp.orelse) and always_leaves(lp.orelse) and isinstance(lp.orelse[-1], ast.Raise)) or any(isinstance(q.stmt, ast.Raise) for q in after)
        ok_exit = ok_exit and tail_raises and not breaks
    rep.check(ok_exit, "equilibration-exit-guard", s.qualname, "return D", "scale_symmetric hands out its weights only in a sweep whose weights W are all zero; exhausting the sweeps raises", s.loc(lp))

    # ---- rescaling and accumulation ------------------------------------------------------------------------------------------
    upd = [q for q in inloop if isinstance(q.stmt, ast.Assign) and np_call(q.stmt.value, "ldexp")]
    ok_upd = False
    if len(upd) == 1:
        q = upd[0]
        st = q.stmt
        tg = st.targets[0]

        def whole(t):
            return isinstance(t, ast.Name) or (isinstance(t, ast.Subscript) and ((isinstance(t.slice, ast.Slice) and t.slice.lower is None and t.slice.upper is None and t.slice.step is None)
                                                                                  or (isinstance(t.slice, ast.Constant) and t.slice.value is Ellipsis)))
        tb = tg.id if isinstance(tg, ast.Name) else base_name(tg.value) if isinstance(tg, ast.Subscript) else None
        e = st.value.args[1]
        for _ in range(3):
            if isinstance(e, ast.Name) and not same(e.id, W):
                defs = [d for d in inloop if isinstance(d.stmt, ast.Assign) and len(d.stmt.targets) == 1 and U(d.stmt.targets[0]) == e.id and d.index < q.index]
                if len(defs) == 1:
                    e = defs[0].stmt.value
                    continue
            break
        def deref(x):
            for _ in range(3):
                if isinstance(x, ast.Name) and not same(x.id, W):
                    ds = [d for d in inloop if isinstance(d.stmt, ast.Assign) and len(d.stmt.targets) == 1 and U(d.stmt.targets[0]) == x.id and d.index < q.index]
                    if len(ds) == 1:
                        x = ds[0].stmt.value
                        continue
                break
            return x
        if isinstance(e, ast.BinOp) and isinstance(e.op, ast.Add):
            # the two shifts may be held in temporaries
            e = ast.copy_location(ast.BinOp(left=deref(e.left), op=e.op, right=deref(e.right)), e)
        if tb is not None and same(tb, data) and isinstance(e, ast.BinOp) and isinstance(e.op, ast.Add) and isinstance(e.left, ast.Subscript) and isinstance(e.right, ast.Subscript) \
                and base_name(e.left.value) and base_name(e.right.value) and same(e.left.value.id, W) and same(e.right.value.id, W):
            if whole(tg):
                first = st.value.args[0]
                idxs = {find(e.left.slice.id) if isinstance(e.left.slice, ast.Name) else None, find(e.right.slice.id) if isinstance(e.right.slice, ast.Name) else None}
                ok_upd = base_name(first) is not None and same(first.id, data) and idxs == {find(rows), find(cols)}
            else:
                k = U(tg.slice)
                first = st.value.args[0]

                # loop variables that stand for rows[k] / cols[k]: `for k, (r, c) in enumerate(zip(rows, cols))`, `for r, c in zip(..)`
                zipped: Dict[str, str] = {}
                lp_in = q.loops[-1] if q.loops else None
                if isinstance(lp_in, ast.For):
                    it_, tg_ = lp_in.iter, lp_in.target
                    if isinstance(it_, ast.Call) and dotted(it_.func) == "enumerate" and len(it_.args) == 1 and isinstance(tg_, ast.Tuple) and len(tg_.elts) == 2 \
                            and U(tg_.elts[0]) == k:
                        it_, tg_ = it_.args[0], tg_.elts[1]
                        if isinstance(it_, ast.Call) and dotted(it_.func) == "zip" and isinstance(tg_, ast.Tuple) and len(tg_.elts) == len(it_.args):
                            for t_, s_ in zip(tg_.elts, it_.args):
                                if isinstance(t_, ast.Name) and isinstance(s_, ast.Name):
                                    zipped[t_.id] = s_.id

                def role(ix):
                    if isinstance(ix, ast.Name) and ix.id in zipped:
                        return "row" if same(zipped[ix.id], rows) else ("col" if same(zipped[ix.id], cols) else None)
                    while isinstance(ix, ast.Name) and not (same(ix.id, rows) or same(ix.id, cols)):
                        defs = [d for d in inloop if isinstance(d.stmt, ast.Assign) and len(d.stmt.targets) == 1 and U(d.stmt.targets[0]) == ix.id and d.index < q.index]
                        if len(defs) != 1:
                            return None
                        ix = defs[0].stmt.value
                    if isinstance(ix, ast.Subscript) and base_name(ix.value) and U(ix.slice) == k:
                        return "row" if same(ix.value.id, rows) else ("col" if same(ix.value.id, cols) else None)
                    return None
                ok_upd = isinstance(first, ast.Subscript) and base_name(first.value) and same(first.value.id, data) and U(first.slice) == k \
                    and {role(e.left.slice), role(e.right.slice)} == {"row", "col"}
    rep.check(ok_upd, "equilibration-rescale", s.qualname, short(upd[0].stmt) if upd else "", "magnitude k is rescaled by ldexp(., W[row_k] + W[col_k])", s.loc())
    dacc = [q for q in inloop if isinstance(q.stmt, ast.AugAssign) and isinstance(q.stmt.target, ast.Name) and isinstance(q.stmt.op, ast.Add) and base_name(q.stmt.value) and same(q.stmt.value.id, W)]
    ret_names = {U(r.value) for r in rets}
    ok_d = len(dacc) == 1 and len(ret_names) == 1 and same(list(ret_names)[0], U(dacc[0].stmt.target))
    same_iter = bool(dacc) and bool(upd) and [f for f in dacc[0].facts if f not in outer[0].facts] == [f for f in upd[0].facts if f not in outer[0].facts]
    rep.check(ok_d and same_iter, "equilibration-accumulator", s.qualname, short(dacc[0].stmt) if dacc else "D += W",
              "the returned weights accumulate exactly the W applied to the magnitudes, in the same sweep", s.loc())
    dinit = [q for q in fs.order if isinstance(q.stmt, ast.Assign) and dacc and not q.loops and len(q.stmt.targets) == 1 and isinstance(q.stmt.targets[0], ast.Name)
             and same(q.stmt.targets[0].id, U(dacc[0].stmt.target)) and not isinstance(q.stmt.value, ast.Name)]
    dk = dtype_of(s, fs, dinit[0].stmt, dinit[0].stmt.value) if dinit else "unknown"
    rep.check(dk == "int", "weights-are-integral", s.qualname, short(dinit[0].stmt) if dinit else "D", f"the accumulated weights are integer exponents (found {dk})", s.loc())
    rep.pin("scale_symmetric constructs (guard, sums, rescale, accumulate)", sum([ok_exit, ok_acc, ok_upd, ok_d]), 4)


def scaling_inputs(prog: Program, rep) -> None:
    """the automatic scalings are computed from the user's scaling point and callback values as given (no cast / rounding on the way)."""
    ti = prog.func("pygradflow.transform.Transformation.__init__")
    ff = facts_for(ti)
    calls = [n for n in own_nodes(ti.node) if isinstance(n, ast.Call) and dotted(n.func) == "create_scaling"]
    if len(calls) != 1:
        raise AnalysisError("Transformation.__init__ does not call create_scaling exactly once")
    si = ff.stmt_of(calls[0])
    pr, pa = [p for p in ti.params if p != "self"][:2]
    from .common import bind_args as _bind
    b_ = _bind(prog.func("pygradflow.scale.create_scaling"), calls[0])
    if b_ is None:
        raise AnalysisError("Transformation.__init__: cannot bind the arguments of create_scaling")
    cps = prog.func("pygradflow.scale.create_scaling").params
    a = [U(ff.resolved(si.stmt, b_[k])) if isinstance(b_.get(k), ast.AST) else None for k in cps[:4]]
    rep.check(a == [pr, pa, f"{pa}.scaling_primal", f"{pa}.scaling_dual"], "scaling-inputs-unmodified", ti.qualname, short(si.stmt),
              f"create_scaling receives (problem, params, params.scaling_primal, params.scaling_dual) unmodified (found {a})", ti.loc(calls[0]))
    cs = prog.func("pygradflow.scale.create_scaling")
    fc = facts_for(cs)
    pb, pp, sp_, sd_ = cs.params[:4]
    want = {
        "Scaling.from_nominal_values": [{sp_}, {f"{pb}.cons({sp_})", f"np.array([], dtype={sp_}.dtype)"}],
        "Scaling.from_grad_jac": [{f"{pb}.obj_grad({sp_})"}, {f"{pb}.cons_jac({sp_})", f"sparse_zero(shape=(0, {pb}.num_vars))"}],
        "Scaling.from_equilibrated_kkt": [{f"{pb}.lag_hess({sp_}, {sd_})"}, {f"{pb}.cons_jac({sp_})", f"sparse_zero(shape=(0, {pb}.num_vars))"}],
    }
    # per constructor, over all of its return sites (one return with a merged argument, or one return per case)
    seen_: Dict[str, List] = {}
    first_: Dict[str, ast.AST] = {}
    for r in returns_of(cs):
        v = r.value
        if isinstance(v, ast.Call) and (dotted(v.func) or "") in want:
            d_ = dotted(v.func)
            got = [{U(a) for a in phi_alternatives(fc.resolved(r, z))} for z in v.args]
            if d_ not in seen_:
                seen_[d_], first_[d_] = got, r
            elif len(seen_[d_]) == len(got):
                seen_[d_] = [a_ | b_ for a_, b_ in zip(seen_[d_], got)]
            else:
                seen_[d_] = got + [set(["?"])]
    for d_, got in seen_.items():
        rep.check(got == want[d_], "scaling-inputs-unmodified", cs.qualname, short(first_[d_]),
                  f"{d_} is fed the scaling point / the problem's callback values exactly as given (found {[sorted(x)[:2] for x in got]})", cs.loc(first_[d_]))
    rep.pin("automatic scaling constructions in create_scaling", len(seen_), 3)
