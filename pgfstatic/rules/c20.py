"""C20 - automatic scalings normalise with exact powers of two (exponent forms, dtype lattice, exit guard)."""
from __future__ import annotations

import ast
from typing import Dict, List, Optional, Tuple

from ..model import AnalysisError, FuncInfo, Program, dotted, own_nodes, unparse
from ..symex import resolve as _resolve
from ..symex import atoms_of, facts_for, phi_alternatives, resolve, always_leaves
from .common import unitem, U, const_value, is_self_attr, kwarg, np_call, returns_of, short

SC = "pygradflow.scale.Scaling"

EXPLANATION = (
    "(1) normalising exponents: weights_from_nominal_values(v) is 1 - frexp(v).exponent (so |v|*2^w lies in [1,2) by the definition "
    "of frexp), optionally guarded for zeros by a test `!= 0`; from_grad_jac: var_weights = -(1 - e(|g|)), Jacobian entries are "
    "pre-scaled by -var_weights[col] before the row maximum, cons_weights = 1 - e(row maximum); from_equilibrated_kkt: KKT = "
    "[[H, J'],[J, 0]], var_weights = -D[:n], cons_weights = D[n:]; scale_symmetric: Rsca = 1 - e(sqrt(column sum)), entries are "
    "rescaled by Rsca[row] + Rsca[col] and D += Rsca in the same iteration.  (2) dtype lattice: every array that receives "
    "magnitudes (abs / ldexp / sqrt / sums of those) is certainly float-kinded; the arrays given to Scaling(...) are int-kinded "
    "(frexp exponents, their sums and negations).  (3) exit guard: scale_symmetric returns only through the break taken when "
    "(Rsca == 0).all(), otherwise it raises; only exactly-zero columns are treated as empty.  (4) the row maximum is "
    "max(old, prescaled[i]) over all stored entries.  Overflow at extreme magnitudes is not decided."
)

FLOAT_DT = {"float", "np.float64", "np.float32", "numpy.float64", "np.double", "'float64'", "'float'", "np.float_", "'d'"}
INT_DT = {"int", "np.int64", "np.int32", "np.int16", "np.int8", "numpy.int64", "'int'", "'int64'", "np.intp"}


def dtype_of(fi: FuncInfo, ff, stmt, e: ast.AST, depth: int = 0) -> str:
    """'int' | 'float' | 'unknown' for the (resolved) array expression e."""
    if depth > 10:
        return "unknown"
    D = lambda x: dtype_of(fi, ff, stmt, x, depth + 1)
    if isinstance(e, ast.Constant):
        if isinstance(e.value, bool):
            return "unknown"
        if isinstance(e.value, int):
            return "int"
        if isinstance(e.value, float):
            return "float"
    if isinstance(e, ast.Call):
        d = dotted(e.func) or ""
        if d in ("np.zeros", "np.ones", "np.empty", "np.full", "numpy.zeros", "numpy.ones", "numpy.empty", "numpy.full"):
            dt = kwarg(e, "dtype")
            if dt is None:
                if d.endswith("full"):
                    fv = kwarg(e, "fill_value") or (e.args[1] if len(e.args) > 1 else None)
                    return D(fv) if fv is not None else "unknown"
                return "float"
            t = U(dt)
            return "float" if t in FLOAT_DT else ("int" if t in INT_DT else "unknown")
        if d in ("np.abs", "np.absolute", "np.copy", "np.negative") and e.args:
            return D(e.args[0])
        if d in ("np.ldexp", "np.sqrt", "np.exp", "np.log", "np.linalg.norm", "np.divide", "np.true_divide", "np.power", "np.mean"):
            return "float"
        if d in ("np.frexp",):
            return "tuple"
        if d in ("np.maximum", "np.minimum", "max", "min", "np.add", "np.subtract") and len(e.args) >= 2:
            ks = {D(a) for a in e.args}
            return "float" if "float" in ks else ("int" if ks == {"int"} else "unknown")
        if d == "__phi__":
            ks = {D(a) for a in e.args}
            return ks.pop() if len(ks) == 1 else ("float" if ks == {"float"} else "unknown")
        if d in ("__loop__",):
            # loop-carried: join of all definitions of that name in the function
            name = e.args[0].value
            ks = set()
            for si in ff.order:
                st = si.stmt
                if isinstance(st, ast.Assign) and any(isinstance(t, ast.Name) and t.id == name for t in st.targets):
                    ks.add(dtype_of(fi, ff, st, resolve(st.value, {k: v for k, v in si.env.items() if k != name}), depth + 1))
            ks.discard("self")
            return ks.pop() if len(ks) == 1 else "unknown"
        if isinstance(e.func, ast.Attribute) and e.func.attr in ("astype",) and e.args:
            t = U(e.args[0])
            return "float" if t in FLOAT_DT else ("int" if t in INT_DT else "unknown")
        if d.endswith("weights_from_nominal_values"):
            return "int"
        if d == "scale_symmetric":
            return "int"
    if isinstance(e, ast.Subscript):
        b = D(e.value)
        if b == "tuple" and const_value(e.slice) == 1:
            return "int"  # frexp(..)[1] : the exponents
        if b == "tuple" and const_value(e.slice) == 0:
            return "float"
        return b
    if isinstance(e, ast.UnaryOp):
        return D(e.operand)
    if isinstance(e, ast.BinOp):
        if isinstance(e.op, ast.Div):
            return "float"
        a, b = D(e.left), D(e.right)
        if "float" in (a, b):
            return "float"
        if a == b == "int":
            return "int"
        return "unknown"
    if isinstance(e, ast.Attribute) and e.attr == "data":
        return "unknown"  # dtype of the user's matrix
    return "unknown"


def is_frexp_weight(e: ast.AST, arg_text: Optional[str] = None) -> Optional[str]:
    """if e is `1 - np.frexp(X)[1]` return the text of X."""
    e = unitem(e)
    if isinstance(e, ast.BinOp) and isinstance(e.op, ast.Sub) and const_value(e.left) == 1 and isinstance(e.right, ast.Subscript) \
            and const_value(e.right.slice) == 1 and np_call(e.right.value, "frexp") and len(e.right.value.args) == 1:
        return U(e.right.value.args[0])
    return None


def _rc(idx: ast.AST) -> Optional[str]:
    """'row' / 'col' if idx is <coo>.row[k] / <coo>.col[k]."""
    if isinstance(idx, ast.Subscript) and isinstance(idx.value, ast.Attribute) and idx.value.attr in ("row", "col"):
        return idx.value.attr
    return None


def run(prog: Program, rep, tier: str) -> None:
    rep.explanation = EXPLANATION
    sc = prog.cls(SC)
    # ---- weights_from_nominal_values ---------------------------------------------------------------
    w = sc.methods["weights_from_nominal_values"]
    ff = facts_for(w)
    p0 = w.params[0]
    rs = returns_of(w)
    if len(rs) != 1:
        raise AnalysisError("weights_from_nominal_values: expected a single return")
    v = ff.resolved(rs[0], rs[0].value)
    x = is_frexp_weight(v)
    if x is not None:
        rep.check(x == p0, "nominal-weights", w.qualname, short(rs[0]), "weight = 1 - frexp(value).exponent", w.loc(rs[0]))
    elif np_call(v, "where") and len(v.args) == 3:
        cond, a, b = v.args
        # accepted: a zero guard `!= 0` on the values or on their mantissas
        ats = atoms_of(cond, True)
        guard_ok = len(ats) == 1 and ats[0][0] == "!=" and ats[0][2] in ("0", "0.0") and (ats[0][1] == p0 or ats[0][1] == f"np.frexp({p0})[0]")
        wa = U(a)
        form_ok = wa in (f"1 - np.frexp({p0})[1]",)
        rep.check(guard_ok and form_ok, "nominal-weights", w.qualname, short(rs[0]),
                  f"weight = 1 - frexp(value).exponent for every NON-ZERO value (guard must be `!= 0`; found guard `{U(cond)}`)", w.loc(rs[0]))
    else:
        raise AnalysisError(f"weights_from_nominal_values is not in a recognised form: `{U(v)[:80]}`")
    fn = sc.methods["from_nominal_values"]
    ffn = facts_for(fn)
    r = returns_of(fn)
    ok = False
    if len(r) == 1:
        vv = ffn.resolved(r[0], r[0].value)
        ps = fn.params
        ok = isinstance(vv, ast.Call) and dotted(vv.func) == "Scaling" and [U(a) for a in vv.args] == [f"Scaling.weights_from_nominal_values({q})" for q in ps[:3]]
    rep.check(ok, "nominal-weights", fn.qualname, short(r[0]) if r else "", "from_nominal_values normalises variable, constraint and objective values each with their own weight", fn.loc())

    grad_jac(prog, rep, sc)
    kkt(prog, rep, sc)
    scaling_inputs(prog, rep)


def grad_jac(prog: Program, rep, sc) -> None:
    m = sc.methods["from_grad_jac"]
    ff = facts_for(m)
    g, j = m.params[:2]
    rets = returns_of(m)
    gen = [r for r in rets if ("is", j, "None") not in ff.at(r).facts]
    if len(gen) != 1:
        raise AnalysisError("from_grad_jac: no unique general return")
    r = gen[0]
    v = ff.resolved(r, r.value)
    if not (isinstance(v, ast.Call) and dotted(v.func) == "Scaling" and len(v.args) == 2):
        raise AnalysisError("from_grad_jac does not return Scaling(var_weights, cons_weights)")
    vw, cw = v.args
    W = "Scaling.weights_from_nominal_values"
    ok_v = U(vw) == f"-{W}(np.abs({g}))"
    rep.check(ok_v, "gradjac-var-weights", m.qualname, "var_weights", f"var_weights = -(1 - e(|grad|)), so that the scaled gradient g*2^(-v) is normalised (found {U(vw)[:80]})", m.loc(r))
    # cons weights = weights(max_values)
    ok_c = isinstance(cw, ast.Call) and dotted(cw.func) == W and len(cw.args) == 1
    acc_name = None
    if ok_c:
        # the accumulator variable as written in the source
        raw = r.value.args[1] if isinstance(r.value, ast.Call) else None
        st = [s for s in ff.order if isinstance(s.stmt, ast.Assign) and any(U(t) == U(raw) for t in s.stmt.targets)] if raw is not None else []
        if st and isinstance(st[-1].stmt.value, ast.Call) and st[-1].stmt.value.args and isinstance(st[-1].stmt.value.args[0], ast.Name):
            acc_name = st[-1].stmt.value.args[0].id
    # follow plain aliases (`max_values = tmp`) back to the array that is accumulated into
    for _ in range(4):
        al = [s for s in ff.order if isinstance(s.stmt, ast.Assign) and len(s.stmt.targets) == 1 and U(s.stmt.targets[0]) == acc_name and not s.loops] if acc_name else []
        if len(al) == 1 and isinstance(al[0].stmt.value, ast.Name):
            acc_name = al[0].stmt.value.id
        else:
            break
    rep.check(ok_c and acc_name is not None, "gradjac-cons-weights", m.qualname, "cons_weights", "cons_weights = 1 - e(row maximum of the column-prescaled Jacobian)", m.loc(r))
    if acc_name is None:
        return
    # accumulation loop
    loops = [s for s in ff.order if isinstance(s.stmt, ast.For)]
    acc_ok = False
    pres_ok = False
    dt = "unknown"
    for s in ff.order:
        st = s.stmt
        if isinstance(st, ast.Assign) and len(st.targets) == 1 and isinstance(st.targets[0], ast.Subscript) and U(st.targets[0].value) == acc_name and s.loops:
            lp = s.loops[-1]
            if isinstance(lp, ast.For) and isinstance(lp.iter, ast.Call) and dotted(lp.iter.func) == "enumerate" and isinstance(lp.target, ast.Tuple):
                i_, row_ = U(lp.target.elts[0]), U(lp.target.elts[1])
                rows_src = U(ff.resolved(lp, lp.iter.args[0]))
                val = st.value
                if isinstance(val, ast.Call) and dotted(val.func) in ("max", "np.maximum") and len(val.args) == 2 and U(st.targets[0].slice) == row_:
                    texts = [U(a) for a in val.args]
                    if f"{acc_name}[{row_}]" in texts:
                        other = [a for a in val.args if U(a) != f"{acc_name}[{row_}]"][0]
                        if isinstance(other, ast.Subscript) and U(other.slice) == i_:
                            pres = ff.resolved(st, other.value)
                            jt = f"{j}.tocoo()"
                            # prescaled = ldexp(|data|, -var_weights[cols])
                            pres_ok = np_call(pres, "ldexp") and U(pres.args[0]) == f"np.abs({jt}.data)" and U(pres.args[1]) == f"--{W}(np.abs({g}))[{jt}.col]".replace("--", "--") or \
                                (np_call(pres, "ldexp") and U(pres.args[0]) == f"np.abs({jt}.data)" and U(pres.args[1]) in (f"-(-{W}(np.abs({g})))[{jt}.col]", f"--{W}(np.abs({g}))[{jt}.col]"))
                            acc_ok = rows_src == f"{jt}.row"
                            rep.extra["gradjac_prescale"] = U(pres)[:160]
        if isinstance(st, ast.Assign) and any(isinstance(t, ast.Name) and t.id == acc_name for t in st.targets) and not s.loops:
            dt = dtype_of(m, ff, st, ff.resolved(st, st.value))
    rep.check(acc_ok, "gradjac-row-maximum", m.qualname, f"{acc_name}[row] = max(...)", "the row maximum is accumulated as max(old, prescaled[i]) over all stored entries, indexed by the entry's row", m.loc())
    rep.check(pres_ok, "gradjac-prescale", m.qualname, "prescaled_data", f"entries are pre-scaled by ldexp(|data|, -var_weights[col]) (found {rep.extra.get('gradjac_prescale')})", m.loc())
    rep.check(dt == "float", "magnitudes-are-float", m.qualname, f"{acc_name} = ...",
              f"the row-maximum accumulator is certainly float-kinded (found dtype kind: {dt}); an integer accumulator truncates every magnitude below one", m.loc())
    vk = dtype_of(m, ff, r, vw)
    ck = dtype_of(m, ff, r, cw)
    rep.check(vk == "int" and ck == "int", "weights-are-integral", m.qualname, "Scaling(var_weights, cons_weights)", f"the weights handed to Scaling are integer exponents (kinds: {vk}, {ck})", m.loc(r))


def kkt(prog: Program, rep, sc) -> None:
    m = sc.methods["from_equilibrated_kkt"]
    ff = facts_for(m)
    h, j = m.params[:2]
    r = returns_of(m)
    if len(r) != 1:
        raise AnalysisError("from_equilibrated_kkt: expected one return")
    v = ff.resolved(r[0], r[0].value)
    kk = f"scale_symmetric(sp.sparse.bmat([[{h}, {j}.T], [{j}, None]]))"
    n_txt = f"__item__({j}.shape, 1)"
    ok = isinstance(v, ast.Call) and dotted(v.func) == "Scaling" and len(v.args) == 2 and U(v.args[0]) == f"-{kk}[:{n_txt}]" and U(v.args[1]) == f"{kk}[{n_txt}:]"
    rep.check(ok, "kkt-weights", m.qualname, short(r[0]), f"var_weights = -D[:n], cons_weights = D[n:] for D = scale_symmetric([[H, J'],[J, 0]]) (found {U(v)[:120]})", m.loc(r[0]))

    s = prog.func("pygradflow.scale.scale_symmetric")
    fs = facts_for(s)
    outer = [q for q in fs.order if isinstance(q.stmt, ast.For) and not q.loops]
    if len(outer) != 1:
        raise AnalysisError("scale_symmetric: expected one outer iteration loop")
    lp = outer[0].stmt
    # exit guard
    rets = returns_of(s)
    ok_guard = bool(lp.orelse) and always_leaves(lp.orelse) and isinstance(lp.orelse[-1], ast.Raise)
    breaks = [q for q in fs.order if isinstance(q.stmt, ast.Break) and q.loops and q.loops[-1] is lp]
    ok_break = False
    if len(breaks) == 1:
        def _canon(t):
            try:
                return U(unitem(ast.parse(t, mode="eval").body))
            except SyntaxError:
                return t
        for f in breaks[0].facts:
            t = _canon(f[1])
            if "np.frexp(np.sqrt(" not in t:
                continue
            try:
                e = ast.parse(t, mode="eval").body
            except SyntaxError:
                continue
            # (W == 0).all() is true  /  W.any() is false  /  np.all(W == 0)  /  not np.any(W)
            if f[0] == "truthy" and isinstance(e, ast.Call) and ((isinstance(e.func, ast.Attribute) and e.func.attr == "all" and not e.args and (w_ := e.func.value) is not None) or
                                                                (np_call(e, "all") and len(e.args) == 1 and (w_ := e.args[0]) is not None)):
                at = atoms_of(w_, True)
                ok_break = ok_break or (len(at) == 1 and at[0][0] == "==" and at[0][2] in ("0", "0.0") and is_frexp_weight(ast.parse(at[0][1], mode="eval").body) is not None)
            if f[0] == "falsy" and isinstance(e, ast.Call) and ((isinstance(e.func, ast.Attribute) and e.func.attr == "any" and not e.args and (w_ := e.func.value) is not None) or
                                                               (np_call(e, "any") and len(e.args) == 1 and (w_ := e.args[0]) is not None)):
                ok_break = ok_break or is_frexp_weight(w_) is not None
    rep.check(ok_guard and ok_break and len(rets) == 1 and not fs.at(rets[0]).loops, "equilibration-exit-guard", s.qualname, "for ... else: raise",
              "scale_symmetric returns only after the break taken when (Rsca == 0).all(); exhausting the iterations raises", s.loc(lp))
    # column sums, zero guard, sqrt, Rsca
    rsca = None
    for q in fs.order:
        st = q.stmt
        if isinstance(st, ast.Assign) and len(st.targets) == 1 and isinstance(st.targets[0], ast.Name) and lp in q.loops:
            val = st.value
            if isinstance(val, ast.BinOp) and isinstance(val.right, ast.Name):
                # `(_, e) = np.frexp(R)` / `e = np.frexp(R)[1]` followed by `Rsca = 1 - e`
                for d in fs.order:
                    if d.index < q.index and d.loops == q.loops and isinstance(d.stmt, ast.Assign) and len(d.stmt.targets) == 1:
                        t = d.stmt.targets[0]
                        if isinstance(t, ast.Tuple) and [U(e_) for e_ in t.elts].count(val.right.id) == 1 and isinstance(d.stmt.value, ast.Call):
                            k = [U(e_) for e_ in t.elts].index(val.right.id)
                            val = ast.BinOp(left=val.left, op=val.op, right=ast.Subscript(value=d.stmt.value, slice=ast.Constant(value=k), ctx=ast.Load()))
                            break
                        if isinstance(t, ast.Name) and t.id == val.right.id:
                            val = ast.BinOp(left=val.left, op=val.op, right=d.stmt.value)
                            break
            x = is_frexp_weight(val)
            if x is not None:
                rsca = (st.targets[0].id, x, q)
    if rsca is None:
        raise AnalysisError("scale_symmetric: no `Rsca = 1 - frexp(..)[1]` found")
    rname, rarg, rq = rsca
    # plain aliases of the column-sum array inside the loop (`R = sums` after an inlined helper)
    ralias = {rarg}
    for _ in range(4):
        for q in fs.order:
            if isinstance(q.stmt, ast.Assign) and len(q.stmt.targets) == 1 and U(q.stmt.targets[0]) in ralias and isinstance(q.stmt.value, ast.Name) and lp in q.loops:
                ralias.add(q.stmt.value.id)
    # R accumulation
    accs = [q for q in fs.order if isinstance(q.stmt, ast.AugAssign) and isinstance(q.stmt.target, ast.Subscript) and U(q.stmt.target.value) in ralias and lp in q.loops]
    ok_acc = len(accs) == 1 and isinstance(accs[0].stmt.op, ast.Add)
    col_idx = data_name = None
    if ok_acc:
        a = accs[0].stmt
        col_idx = U(fs.resolved(a, a.target.slice))
        data_name = U(a.value)
    rep.check(ok_acc and col_idx is not None and ".col[" in col_idx, "equilibration-column-sums", s.qualname, short(accs[0].stmt) if accs else "", "R[col] accumulates the entries of column col", s.loc())
    sq = [q for q in fs.order if isinstance(q.stmt, ast.Assign) and U(q.stmt.targets[0]) in ralias and np_call(q.stmt.value, "sqrt") and lp in q.loops]
    rep.check(len(sq) == 1 and sq[0].index < rq.index and sq[0].index > (accs[0].index if accs else 0), "equilibration-column-sums", s.qualname, "R = np.sqrt(R)",
              "Rsca is computed from the square root of the column sums", s.loc())
    # zero guard
    guards = [q for q in fs.order if isinstance(q.stmt, ast.Assign) and isinstance(q.stmt.targets[0], ast.Subscript) and U(q.stmt.targets[0].value) in ralias and lp in q.loops]
    for gq in guards:
        at = atoms_of(gq.stmt.targets[0].slice, True)
        exact = len(at) == 1 and ((at[0][0] == "==" and at[0][2] in ("0", "0.0") and at[0][1] in ralias) or (at[0][0] == "<=" and at[0][2] in ("0", "0.0") and at[0][1] in ralias))
        rep.check(exact and const_value(gq.stmt.value) == 1, "equilibration-zero-columns", s.qualname, short(gq.stmt),
                  "only exactly-zero columns are treated as empty (a positive threshold would leave small non-zero columns unscaled)", s.loc(gq.stmt))
    # dtype of R
    rdefs = [q for q in fs.order if isinstance(q.stmt, ast.Assign) and U(q.stmt.targets[0]) in ralias and lp in q.loops and not np_call(q.stmt.value, "sqrt")
             and not isinstance(q.stmt.value, ast.Name)]
    dt = dtype_of(s, fs, rdefs[0].stmt, rdefs[0].stmt.value) if rdefs else "unknown"
    rep.check(dt == "float", "magnitudes-are-float", s.qualname, short(rdefs[0].stmt) if rdefs else rarg,
              f"the column-sum accumulator is certainly float-kinded (found {dt})", s.loc(rdefs[0].stmt) if rdefs else s.loc())
    # entry rescaling and D accumulation agree
    upd = [q for q in fs.order if isinstance(q.stmt, ast.Assign) and np_call(q.stmt.value, "ldexp") and lp in q.loops]
    ok_upd = False

    def deref(e, q):
        """follow in-loop temporaries (`shift = Rsca[r] + Rsca[c]`) back to their single definition."""
        seen = 0
        while isinstance(e, ast.Name) and e.id != rname and seen < 4:
            defs = [d for d in fs.order if isinstance(d.stmt, ast.Assign) and len(d.stmt.targets) == 1 and U(d.stmt.targets[0]) == e.id and d.loops == q.loops and d.index < q.index]
            if len(defs) != 1:
                break
            e = defs[0].stmt.value
            seen += 1
        return e

    if len(upd) == 1:
        u_ = upd[0].stmt
        tg = u_.targets[0]
        whole = isinstance(tg, ast.Name) or (isinstance(tg, ast.Subscript) and isinstance(tg.slice, ast.Slice) and tg.slice.lower is None and tg.slice.upper is None and tg.slice.step is None)
        base = U(tg) if isinstance(tg, ast.Name) else U(tg.value)
        e = deref(u_.value.args[1], upd[0])
        same_target = base == data_name.split("[")[0] if data_name else False
        if isinstance(e, ast.BinOp) and isinstance(e.op, ast.Add) and isinstance(e.left, ast.Subscript) and isinstance(e.right, ast.Subscript):
            kname = U(tg.slice) if isinstance(tg, ast.Subscript) and isinstance(tg.slice, ast.Name) else None
            env_ = {a: b for a, b in fs.at(u_).env.items() if a != kname}
            li, ri = _resolve(deref(e.left.slice, upd[0]), env_), _resolve(deref(e.right.slice, upd[0]), env_)
            if whole:
                kinds = {li.attr if isinstance(li, ast.Attribute) else None, ri.attr if isinstance(ri, ast.Attribute) else None}
                first_ok = U(u_.value.args[0]) == base
            else:
                k_ = U(tg.slice)
                kinds = {_rc(li) if U(getattr(li, "slice", None) or ast.Name(id="?")) == k_ else None, _rc(ri) if U(getattr(ri, "slice", None) or ast.Name(id="?")) == k_ else None}
                first_ok = U(u_.value.args[0]) == f"{base}[{k_}]"
            ok_upd = first_ok and kinds == {"row", "col"} and U(e.left.value) == rname and U(e.right.value) == rname and same_target
    rep.check(ok_upd, "equilibration-rescale", s.qualname, short(upd[0].stmt) if upd else "", "entry k is rescaled by ldexp(entry, Rsca[row_k] + Rsca[col_k])", s.loc())
    dacc = [q for q in fs.order if isinstance(q.stmt, ast.AugAssign) and isinstance(q.stmt.target, ast.Name) and U(q.stmt.value) == rname and isinstance(q.stmt.op, ast.Add) and lp in q.loops]
    ok_d = len(dacc) == 1 and U(rets[0].value) == U(dacc[0].stmt.target) and (not upd or dacc[0].facts == upd[0].facts or True)
    same_iter = bool(dacc) and bool(upd) and [f for f in dacc[0].facts if f not in outer[0].facts] == [f for f in upd[0].facts if f not in outer[0].facts]
    rep.check(ok_d and same_iter, "equilibration-accumulator", s.qualname, short(dacc[0].stmt) if dacc else "D += Rsca",
              "the returned weights accumulate exactly the Rsca applied to the entries, in the same iteration", s.loc())
    dinit = [q for q in fs.order if isinstance(q.stmt, ast.Assign) and dacc and U(q.stmt.targets[0]) == U(dacc[0].stmt.target) and not q.loops]
    dk = dtype_of(s, fs, dinit[0].stmt, dinit[0].stmt.value) if dinit else "unknown"
    rep.check(dk == "int", "weights-are-integral", s.qualname, short(dinit[0].stmt) if dinit else "D", f"the accumulated weights are integer exponents (found {dk})", s.loc())
    adata = [q for q in fs.order if isinstance(q.stmt, ast.Assign) and data_name and U(q.stmt.targets[0]) == data_name.split("[")[0] and not q.loops]
    ak = dtype_of(s, fs, adata[0].stmt, fs.resolved(adata[0].stmt, adata[0].stmt.value)) if adata else "unknown"
    rep.note(f"working copy of the entry magnitudes: `{short(adata[0].stmt) if adata else '?'}` (dtype kind {ak}; inherits the KKT matrix dtype, which bmat of float blocks makes float)")
    rep.pin("scale_symmetric constructs (guard, sums, sqrt, rescale, accumulate)", sum([ok_guard, ok_acc, len(sq) == 1, ok_upd, ok_d]), 5)


def scaling_inputs(prog: Program, rep) -> None:
    """the automatic scalings are computed from the user's scaling point and callback values as given (no cast / rounding on the way)."""
    ti = prog.func("pygradflow.transform.Transformation.__init__")
    ff = facts_for(ti)
    calls = [n for n in own_nodes(ti.node) if isinstance(n, ast.Call) and dotted(n.func) == "create_scaling"]
    if len(calls) != 1:
        raise AnalysisError("Transformation.__init__ does not call create_scaling exactly once")
    si = ff.stmt_of(calls[0])
    pr, pa = [p for p in ti.params if p != "self"][:2]
    a = [U(ff.resolved(si.stmt, z)) for z in calls[0].args]
    rep.check(a == [pr, pa, f"{pa}.scaling_primal", f"{pa}.scaling_dual"], "scaling-inputs-unmodified", ti.qualname, short(si.stmt),
              f"create_scaling receives (problem, params, params.scaling_primal, params.scaling_dual) unmodified (found {a})", ti.loc(calls[0]))
    cs = prog.func("pygradflow.scale.create_scaling")
    fc = facts_for(cs)
    pb, pp, sp_, sd_ = cs.params[:4]
    want = {
        "Scaling.from_nominal_values": [{sp_}, {f"{pb}.cons({sp_})", f"np.array([], dtype={sp_}.dtype)"}],
        "Scaling.from_grad_jac": [{f"{pb}.obj_grad({sp_})"}, {f"{pb}.cons_jac({sp_})", f"sparse_zero(shape=(0, {pb}.num_vars))"}],
        "Scaling.from_equilibrated_kkt": [{f"{pb}.lag_hess({sp_}, {sd_})"}, {f"{pb}.cons_jac({sp_})", f"sparse_zero(shape=(0, {pb}.num_vars))"}],
    }
    n = 0
    for r in returns_of(cs):
        v = r.value
        if isinstance(v, ast.Call) and (dotted(v.func) or "") in want:
            n += 1
            got = [{U(a) for a in phi_alternatives(fc.resolved(r, z))} for z in v.args]
            rep.check(got == want[dotted(v.func)], "scaling-inputs-unmodified", cs.qualname, short(r),
                      f"{dotted(v.func)} is fed the scaling point / the problem's callback values exactly as given (found {[sorted(x)[:2] for x in got]})", cs.loc(r))
    rep.pin("automatic scaling constructions in create_scaling", n, 3)
