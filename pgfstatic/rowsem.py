"""Row semantics of `ConstrainedProblem.create_slacks(cons_lb, cons_ub)` - an abstract interpreter over per-row values.

The method classifies the constraint rows.  However it is written - one loop over the rows, a loop over a subset, list
comprehensions, boolean masks, or a mixture - its result is a function of ONE row's bounds:

    slack_positions = { i : S(lb_i, ub_i) }                    an index set described by an element-wise predicate
    cons_offsets    = None                   if not K
                      [ O(lb_i, ub_i) ]_i    if K               K: a formula over "some row satisfies M_j"

The interpreter executes the statements on abstract values (element-wise expressions in the symbols LB, UB; index sets;
existential flags) and hands back S, O and K.  The rule then checks them on the finitely many row types (truth assignments of
lb == ub, lb == 0, ub == 0) - a truth table, no numerics.  Any construct outside the small language raises Unsupported: the caller
falls back to its form-based rules or reports that it cannot decide, never a verdict from a guess."""
from __future__ import annotations

import ast
import copy
import itertools
from typing import Dict, List, Optional, Tuple

from .model import dotted, unparse

LB, UB = "LB", "UB"


class Unsupported(Exception):
    pass


def _np(e: ast.AST, *names: str) -> bool:
    return isinstance(e, ast.Call) and (dotted(e.func) or "") in {f"{p}.{n}" for p in ("np", "numpy") for n in names}


def _name(n: str) -> ast.Name:
    return ast.Name(id=n, ctx=ast.Load())


def _not(e: ast.AST) -> ast.AST:
    return ast.UnaryOp(op=ast.Not(), operand=e)


def _and(a: ast.AST, b: ast.AST) -> ast.AST:
    if isinstance(a, ast.Constant) and a.value is True:
        return b
    if isinstance(b, ast.Constant) and b.value is True:
        return a
    return ast.BoolOp(op=ast.And(), values=[a, b])


def _or(a: ast.AST, b: ast.AST) -> ast.AST:
    if isinstance(a, ast.Constant) and a.value is False:
        return b
    if isinstance(b, ast.Constant) and b.value is False:
        return a
    return ast.BoolOp(op=ast.Or(), values=[a, b])


TRUE, FALSE = ast.Constant(value=True), ast.Constant(value=False)

# abstract values: (kind, payload)
#   ("scalar", ast)        a row-independent value the interpreter does not look into (a literal, a size)
#   ("len",)               the number of rows
#   ("elem", ast)          an array with one entry per row; ast is the entry of the current row over LB / UB
#   ("idx", ast)           the increasing array / list of the row indices whose rows satisfy the predicate
#   ("flag", ast)          a row-independent boolean: formula over EX(<k>) atoms (k indexes self.masks: "some row satisfies mask k")
#   ("none",)              None
#   ("ite", flag_ast, a, b)


class RowEval:
    def __init__(self, fn: ast.FunctionDef):
        ps = [a.arg for a in fn.args.args if a.arg != "self"]
        if len(ps) < 2:
            raise Unsupported("create_slacks does not take (cons_lb, cons_ub)")
        self.lb, self.ub = ps[0], ps[1]
        self.env: Dict[str, tuple] = {self.lb: ("elem", _name(LB)), self.ub: ("elem", _name(UB))}
        self.masks: List[ast.AST] = []
        self.fn = fn

    # ---- flags ---------------------------------------------------------------------------------------------------------
    def exists(self, mask: ast.AST) -> ast.AST:
        self.masks.append(mask)
        return ast.Call(func=_name("EX"), args=[ast.Constant(value=len(self.masks) - 1)], keywords=[])

    # ---- expressions outside a row loop ------------------------------------------------------------------------------------
    def ev(self, e: ast.AST, row: Optional[Dict[str, ast.AST]] = None) -> tuple:
        """row: inside a loop over the rows, the element-wise meaning of the loop's scalar locals (index, lb, ub, temporaries)."""
        if isinstance(e, ast.Constant):
            if e.value is None:
                return ("none",)
            if isinstance(e.value, bool):
                return ("flag", e)
            return ("scalar", e)
        if isinstance(e, ast.Name):
            if row is not None and e.id in row:
                return ("rowval", row[e.id])
            if e.id in self.env:
                return self.env[e.id]
            raise Unsupported(f"name `{e.id}` has no abstract value")
        if isinstance(e, ast.Attribute):
            if isinstance(e.value, ast.Name) and e.value.id == "self" and ("self." + e.attr) in self.env:
                return self.env["self." + e.attr]
            if e.attr in ("shape", "size"):
                b = self.ev(e.value, row)
                if b[0] == "elem":
                    return ("len",) if e.attr == "size" else ("shape",)
            raise Unsupported(f"attribute `{unparse(e)}`")
        if isinstance(e, ast.Tuple) and len(e.elts) == 1:
            v = self.ev(e.elts[0], row)
            if v[0] == "len":
                return ("shape",)
            raise Unsupported("tuple")
        if isinstance(e, ast.UnaryOp) and isinstance(e.op, ast.USub):
            v = self.ev(e.operand, row)
            return self._map1(v, lambda x: ast.UnaryOp(op=ast.USub(), operand=x))
        if isinstance(e, ast.UnaryOp) and isinstance(e.op, (ast.Invert, ast.Not)):
            v = self.ev(e.operand, row)
            if isinstance(e.op, ast.Not) and v[0] == "flag":
                return ("flag", _not(v[1]))
            if isinstance(e.op, ast.Not) and v[0] == "rowval":
                return ("rowval", _not(v[1]))
            if isinstance(e.op, ast.Invert) and v[0] in ("elem", "gather"):
                return self._map1(v, _not)
            raise Unsupported(f"`{unparse(e)}`")
        if isinstance(e, ast.BoolOp):
            vs = [self.ev(x, row) for x in e.values]
            if all(v[0] == "flag" for v in vs) or all(v[0] == "rowval" for v in vs):
                out = vs[0][1]
                for v in vs[1:]:
                    out = _and(out, v[1]) if isinstance(e.op, ast.And) else _or(out, v[1])
                return (vs[0][0], out)
            raise Unsupported(f"`{unparse(e)}`")
        if isinstance(e, ast.BinOp) and isinstance(e.op, (ast.BitAnd, ast.BitOr)):
            a, b = self.ev(e.left, row), self.ev(e.right, row)
            if a[0] == b[0] == "elem":
                return ("elem", _and(a[1], b[1]) if isinstance(e.op, ast.BitAnd) else _or(a[1], b[1]))
            raise Unsupported(f"`{unparse(e)}`")
        if isinstance(e, ast.Compare) and len(e.ops) == 1:
            a, b = self.ev(e.left, row), self.ev(e.comparators[0], row)
            if isinstance(e.ops[0], (ast.Is, ast.IsNot)) and b[0] == "none":
                raise Unsupported("None test")
            kinds = {a[0], b[0]}
            if kinds <= {"elem", "scalar"} and "elem" in kinds:
                return ("elem", ast.Compare(left=a[1], ops=e.ops, comparators=[b[1]]))
            if kinds <= {"rowval", "scalar"} and "rowval" in kinds:
                return ("rowval", ast.Compare(left=a[1], ops=e.ops, comparators=[b[1]]))
            raise Unsupported(f"`{unparse(e)}`")
        if isinstance(e, ast.IfExp):
            t = self.ev(e.test, row)
            a, b = self.ev(e.body, row), self.ev(e.orelse, row)
            if t[0] == "flag":
                return ("ite", t[1], a, b)
            if t[0] == "rowval" and a[0] in ("rowval", "scalar") and b[0] in ("rowval", "scalar"):
                return ("rowval", ast.IfExp(test=t[1], body=a[1], orelse=b[1]))
            raise Unsupported(f"`{unparse(e)}`")
        if isinstance(e, ast.Subscript):
            base = self.ev(e.value, row)
            if base[0] == "shape" and isinstance(e.slice, ast.Constant) and e.slice.value == 0:
                return ("len",)
            # np.where(M)[0] / np.nonzero(M)[0]
            if isinstance(e.slice, ast.Constant) and e.slice.value == 0 and base[0] == "where":
                return ("idx", base[1])
            sl = self.ev(e.slice, row) if not isinstance(e.slice, ast.Slice) else ("slice",)
            if base[0] == "elem" and sl[0] == "elem":
                return ("gather", base[1], sl[1])          # X[M]: the entries of X on the rows where M holds
            if base[0] == "elem" and sl[0] == "rowval" and unparse(sl[1]) == "__i__":
                return ("rowval", base[1])                  # X[i] inside the row loop
            raise Unsupported(f"`{unparse(e)}`")
        if isinstance(e, ast.Call):
            d = dotted(e.func) or ""
            if _np(e, "logical_not", "invert") and len(e.args) == 1:
                return self._map1(self.ev(e.args[0], row), _not)
            if _np(e, "logical_and", "logical_or") and len(e.args) == 2:
                a, b = self.ev(e.args[0], row), self.ev(e.args[1], row)
                if a[0] == b[0] == "elem":
                    return ("elem", _and(a[1], b[1]) if d.endswith("and") else _or(a[1], b[1]))
                raise Unsupported(d)
            if _np(e, "flatnonzero") and len(e.args) == 1:
                v = self.ev(e.args[0], row)
                if v[0] == "elem":
                    return ("idx", v[1])
                raise Unsupported(d)
            if _np(e, "where", "nonzero") and len(e.args) == 1:
                v = self.ev(e.args[0], row)
                if v[0] == "elem":
                    return ("where", v[1])
                raise Unsupported(d)
            if _np(e, "zeros", "zeros_like") and e.args:
                v = self.ev(e.args[0], row)
                if v[0] in ("len", "shape", "elem"):
                    return ("elem", ast.Constant(value=0))
                raise Unsupported("zeros of an unknown size")
            if _np(e, "array", "asarray", "copy", "sort") and e.args:
                v = self.ev(e.args[0], row)
                if v[0] in ("idx", "elem"):
                    return v
                raise Unsupported(d)
            if _np(e, "any") and len(e.args) == 1:
                v = self.ev(e.args[0], row)
                if v[0] == "elem":
                    return ("flag", self.exists(v[1]))
                raise Unsupported(d)
            if d == "bool" and len(e.args) == 1:
                v = self.ev(e.args[0], row)
                if v[0] == "flag":
                    return v
                raise Unsupported(d)
            if d == "len" and len(e.args) == 1:
                v = self.ev(e.args[0], row)
                if v[0] == "elem":
                    return ("len",)
                if v[0] == "idx":
                    return ("count", v[1])
                raise Unsupported(d)
            if isinstance(e.func, ast.Attribute):
                recv = self.ev(e.func.value, row)
                if e.func.attr == "any" and not e.args and recv[0] == "elem":
                    return ("flag", self.exists(recv[1]))
                if e.func.attr in ("astype", "copy") and recv[0] in ("idx", "elem"):
                    return recv
            raise Unsupported(f"call `{unparse(e)[:60]}`")
        if isinstance(e, ast.List) and not e.elts:
            return ("idx", FALSE)
        if isinstance(e, ast.ListComp) and len(e.generators) == 1:
            g = e.generators[0]
            row2, cond = self._row_binding(g.target, g.iter)
            for c in g.ifs:
                v = self.ev(c, row2)
                if v[0] != "rowval":
                    raise Unsupported("comprehension filter")
                cond = _and(cond, v[1])
            el = self.ev(e.elt, row2)
            if el[0] == "rowval" and unparse(el[1]) == "__i__":
                return ("idx", cond)
            if el[0] == "rowval" and isinstance(cond, ast.Constant) and cond.value is True and "__i__" not in unparse(el[1]):
                return ("elem", el[1])            # one value per row, no filter: a per-row array (as a list)
            raise Unsupported("comprehension element")
        raise Unsupported(f"`{unparse(e)[:60]}`")

    @staticmethod
    def _map1(v: tuple, f) -> tuple:
        if v[0] in ("elem", "rowval"):
            return (v[0], f(v[1]))
        if v[0] == "gather":
            return ("gather", f(v[1]), v[2])
        if v[0] == "scalar":
            return ("scalar", f(v[1]))
        raise Unsupported("operand kind " + v[0])

    # ---- row loops ---------------------------------------------------------------------------------------------------------
    def _row_binding(self, target: ast.AST, it: ast.AST) -> Tuple[Dict[str, ast.AST], ast.AST]:
        """the element-wise meaning of the loop variables and the predicate selecting the rows the loop visits (in increasing order)."""
        I = _name("__i__")
        row: Dict[str, ast.AST] = {}
        cond: ast.AST = TRUE

        def seq_elem(x):
            v = self.ev(x)
            if v[0] != "elem":
                raise Unsupported("loop over something that is not a per-row array")
            return v[1]
        if isinstance(it, ast.Call) and dotted(it.func) == "enumerate" and len(it.args) == 1 and isinstance(target, ast.Tuple) and len(target.elts) == 2 \
                and isinstance(target.elts[0], ast.Name):
            row[target.elts[0].id] = I
            inner_t, inner_it = target.elts[1], it.args[0]
            if isinstance(inner_it, ast.Call) and dotted(inner_it.func) == "zip" and isinstance(inner_t, ast.Tuple) and len(inner_t.elts) == len(inner_it.args) \
                    and all(isinstance(t, ast.Name) for t in inner_t.elts):
                for t, s in zip(inner_t.elts, inner_it.args):
                    row[t.id] = seq_elem(s)
            elif isinstance(inner_t, ast.Name):
                row[inner_t.id] = seq_elem(inner_it)
            else:
                raise Unsupported("loop target")
            return row, cond
        if isinstance(it, ast.Call) and dotted(it.func) == "zip" and isinstance(target, ast.Tuple) and len(target.elts) == len(it.args) \
                and all(isinstance(t, ast.Name) for t in target.elts):
            for t, s in zip(target.elts, it.args):
                row[t.id] = seq_elem(s)
            return row, cond
        if isinstance(target, ast.Name):
            v0 = None
            try:
                v0 = self.ev(it)
            except Unsupported:
                v0 = None
            if v0 is not None and v0[0] == "elem":
                row[target.id] = v0[1]          # for e in <per-row array>
                return row, cond
            if isinstance(it, ast.Call) and dotted(it.func) == "range" and len(it.args) == 1:
                if self.ev(it.args[0])[0] != "len":
                    raise Unsupported("range over something that is not the number of rows")
                row[target.id] = I
                return row, cond
            v = self.ev(it)
            if v[0] == "idx":
                row[target.id] = I
                return row, v[1]
        raise Unsupported(f"loop `for {unparse(target)} in {unparse(it)[:50]}`")

    def run_loop(self, st: ast.For) -> None:
        if st.orelse:
            raise Unsupported("for-else")
        row, cond = self._row_binding(st.target, st.iter)
        self._block_row(st.body, row, cond)

    def _block_row(self, body: List[ast.stmt], row: Dict[str, ast.AST], pc: ast.AST) -> ast.AST:
        """execute the statements for the current row under the path condition pc; returns the condition under which control
        falls through to the statement after the block."""
        for st in body:
            if isinstance(pc, ast.Constant) and pc.value is False:
                break
            if isinstance(st, ast.Continue):
                return FALSE
            if isinstance(st, ast.Pass) or (isinstance(st, ast.Expr) and (isinstance(st.value, ast.Constant) or (dotted(getattr(st.value, "func", None)) or "").startswith("logger."))):
                continue
            if isinstance(st, ast.Assert):
                continue
            if isinstance(st, ast.If):
                t = self.ev(st.test, row)
                if t[0] != "rowval":
                    raise Unsupported(f"row-loop test `{unparse(st.test)[:50]}`")
                a = self._block_row(st.body, dict(row), _and(pc, t[1]))
                b = self._block_row(st.orelse, dict(row), _and(pc, _not(t[1])))
                pc = _or(a, b)
                continue
            if isinstance(st, ast.Expr) and isinstance(st.value, ast.Call) and isinstance(st.value.func, ast.Attribute) and st.value.func.attr == "append" \
                    and isinstance(st.value.func.value, ast.Name) and len(st.value.args) == 1:
                lst = st.value.func.value.id
                cur = self.env.get(lst)
                v = self.ev(st.value.args[0], row)
                if cur is None or cur[0] != "idx" or v[0] != "rowval" or unparse(v[1]) != "__i__":
                    raise Unsupported("append of something other than the row index to an index list")
                self.env[lst] = ("idx", _or(cur[1], pc))
                continue
            if isinstance(st, (ast.Assign, ast.AnnAssign)) and getattr(st, "value", None) is not None:
                tg = st.targets[0] if isinstance(st, ast.Assign) and len(st.targets) == 1 else getattr(st, "target", None)
                if isinstance(tg, ast.Name):
                    cur = self.env.get(tg.id)
                    if cur is not None and cur[0] == "flag":
                        # a latch: only ever set to True inside the loop
                        if isinstance(st.value, ast.Constant) and st.value.value is True:
                            self.env[tg.id] = ("flag", _or(cur[1], self.exists(pc)))
                            continue
                        v = self.ev(st.value, row)
                        if v[0] == "rowval":
                            # flag = flag or <cond>  /  flag = <cond> is not a latch unless it or-s the old value in
                            raise Unsupported("flag assigned a row-dependent value")
                        raise Unsupported("flag reset inside the loop")
                    if cur is not None and cur[0] != "flag" and tg.id not in row:
                        raise Unsupported(f"`{tg.id}` rebound inside the row loop")
                    v = self.ev(st.value, row)
                    if v[0] == "rowval":
                        row[tg.id] = v[1]
                        continue
                    if v[0] == "scalar":
                        row[tg.id] = v[1]
                        continue
                    raise Unsupported("row-loop local")
                if isinstance(tg, ast.Subscript) and isinstance(tg.value, ast.Name):
                    arr = self.env.get(tg.value.id)
                    ix = self.ev(tg.slice, row)
                    v = self.ev(st.value, row)
                    if arr is None or arr[0] != "elem" or ix[0] != "rowval" or unparse(ix[1]) != "__i__" or v[0] not in ("rowval", "scalar"):
                        raise Unsupported(f"store `{unparse(st)[:60]}` inside the row loop")
                    self.env[tg.value.id] = ("elem", ast.IfExp(test=pc, body=v[1], orelse=arr[1]))
                    continue
            if isinstance(st, ast.AugAssign) and isinstance(st.target, ast.Name) and isinstance(st.op, ast.BitOr):
                cur = self.env.get(st.target.id)
                v = self.ev(st.value, row)
                if cur is not None and cur[0] == "flag" and v[0] == "rowval":
                    self.env[st.target.id] = ("flag", _or(cur[1], self.exists(_and(pc, v[1]))))
                    continue
            raise Unsupported(f"statement `{unparse(st)[:60]}` inside the row loop")
        return pc

    # ---- top level -----------------------------------------------------------------------------------------------------
    def run(self) -> None:
        self._block(self.fn.body)

    def _store(self, tg: ast.AST, v: tuple) -> None:
        if isinstance(tg, ast.Name):
            self.env[tg.id] = v
        elif isinstance(tg, ast.Attribute) and isinstance(tg.value, ast.Name) and tg.value.id == "self":
            self.env["self." + tg.attr] = v
        elif isinstance(tg, (ast.Tuple, ast.List)) and len(tg.elts) == 1 and isinstance(tg.elts[0], ast.Name) and v[0] == "shape":
            self.env[tg.elts[0].id] = ("len",)
        elif isinstance(tg, (ast.Tuple, ast.List)) and len(tg.elts) == 2 and isinstance(tg.elts[1], ast.Starred) and isinstance(tg.elts[0], ast.Name) and v[0] == "where":
            self.env[tg.elts[0].id] = ("idx", v[1])
        else:
            raise Unsupported(f"store to `{unparse(tg)[:40]}`")

    def _block(self, body: List[ast.stmt]) -> None:
        for st in body:
            if isinstance(st, ast.Expr) and (isinstance(st.value, ast.Constant) or (dotted(getattr(st.value, "func", None)) or "").startswith("logger.")):
                continue
            if isinstance(st, (ast.Assert, ast.Pass)):
                continue
            if isinstance(st, ast.Return) and st.value is None and st is self.fn.body[-1]:
                continue
            if isinstance(st, ast.For):
                self.run_loop(st)
                continue
            if isinstance(st, ast.If):
                t = self.ev(st.test)
                if t[0] != "flag":
                    raise Unsupported(f"top-level test `{unparse(st.test)[:50]}`")
                before = dict(self.env)
                self._block(st.body)
                env_a = self.env
                self.env = dict(before)
                self._block(st.orelse)
                env_b = self.env
                merged = {}
                for k in set(env_a) | set(env_b):
                    a, b = env_a.get(k), env_b.get(k)
                    if a is None or b is None:
                        continue          # bound on one side only: not usable afterwards
                    merged[k] = a if a is b or _same(a, b) else ("ite", t[1], a, b)
                self.env = merged
                continue
            if isinstance(st, (ast.Assign, ast.AnnAssign)):
                if getattr(st, "value", None) is None:
                    continue
                tgs = st.targets if isinstance(st, ast.Assign) else [st.target]
                # masked store  A[M] = v
                if len(tgs) == 1 and isinstance(tgs[0], ast.Subscript) and isinstance(tgs[0].value, ast.Name):
                    arr = self.env.get(tgs[0].value.id)
                    m = self.ev(tgs[0].slice)
                    v = self.ev(st.value)
                    if arr is None or arr[0] != "elem" or m[0] != "elem":
                        raise Unsupported(f"store `{unparse(st)[:60]}`")
                    if v[0] == "gather":
                        if not _equiv_masks(v[2], m[1]):
                            raise Unsupported("values gathered with a different mask than the one stored through")
                        val = v[1]
                    elif v[0] == "scalar":
                        val = v[1]
                    else:
                        raise Unsupported("masked store of " + v[0])
                    self.env[tgs[0].value.id] = ("elem", ast.IfExp(test=m[1], body=val, orelse=arr[1]))
                    continue
                v = self.ev(st.value)
                for tg in tgs:
                    self._store(tg, v)
                continue
            raise Unsupported(f"statement `{unparse(st)[:60]}`")


def _same(a: tuple, b: tuple) -> bool:
    try:
        return a[0] == b[0] and all((unparse(x) if isinstance(x, ast.AST) else x) == (unparse(y) if isinstance(y, ast.AST) else y) for x, y in zip(a[1:], b[1:]))
    except Exception:
        return False


# ---- truth tables ---------------------------------------------------------------------------------------------------------
# row types: E (lb == ub), Z (lb == 0), W (ub == 0); E implies Z == W
ROW_TYPES = [dict(E=e, Z=z, W=w) for e, z, w in itertools.product((True, False), repeat=3) if not (e and z != w)]


def _is_zero(e: ast.AST) -> bool:
    return isinstance(e, ast.Constant) and not isinstance(e.value, bool) and e.value == 0


def eval_pred(e: ast.AST, rt: Dict[str, bool]) -> bool:
    """truth of an element-wise predicate on a row of type rt.  Only (in)equalities between LB, UB and zero are understood."""
    if isinstance(e, ast.Constant) and isinstance(e.value, bool):
        return e.value
    if isinstance(e, ast.UnaryOp) and isinstance(e.op, ast.Not):
        return not eval_pred(e.operand, rt)
    if isinstance(e, ast.BoolOp):
        vals = [eval_pred(v, rt) for v in e.values]
        return all(vals) if isinstance(e.op, ast.And) else any(vals)
    if isinstance(e, ast.IfExp):
        return eval_pred(e.body, rt) if eval_pred(e.test, rt) else eval_pred(e.orelse, rt)
    if isinstance(e, ast.Compare) and len(e.ops) == 1 and isinstance(e.ops[0], (ast.Eq, ast.NotEq)):
        l, r = e.left, e.comparators[0]
        names = {unparse(l), unparse(r)}
        v = None
        if names == {LB, UB}:
            v = rt["E"]
        elif (unparse(l) == LB and _is_zero(r)) or (unparse(r) == LB and _is_zero(l)):
            v = rt["Z"]
        elif (unparse(l) == UB and _is_zero(r)) or (unparse(r) == UB and _is_zero(l)):
            v = rt["W"]
        if v is not None:
            return v if isinstance(e.ops[0], ast.Eq) else not v
    raise Unsupported(f"row predicate `{unparse(e)[:60]}`")


def _equiv_masks(a: ast.AST, b: ast.AST) -> bool:
    try:
        return all(eval_pred(a, rt) == eval_pred(b, rt) for rt in ROW_TYPES)
    except Unsupported:
        return unparse(a) == unparse(b)


def eval_value(e: ast.AST, rt: Dict[str, bool]) -> str:
    """the entry of an element-wise array on a row of type rt: 'zero', '-lb', or the text of anything else."""
    if isinstance(e, ast.IfExp):
        return eval_value(e.body, rt) if eval_pred(e.test, rt) else eval_value(e.orelse, rt)
    if _is_zero(e):
        return "zero"
    if isinstance(e, ast.UnaryOp) and isinstance(e.op, ast.USub):
        inner = unparse(e.operand)
        if inner == LB or (inner == UB and rt["E"]):
            return "zero" if rt["Z"] else "-lb"
    return unparse(e)


def eval_flag(e: ast.AST, masks: List[ast.AST], world: List[Dict[str, bool]]) -> bool:
    """truth of a row-independent flag in a world = the set of row types that occur."""
    if isinstance(e, ast.Constant) and isinstance(e.value, bool):
        return e.value
    if isinstance(e, ast.UnaryOp) and isinstance(e.op, ast.Not):
        return not eval_flag(e.operand, masks, world)
    if isinstance(e, ast.BoolOp):
        vals = [eval_flag(v, masks, world) for v in e.values]
        return all(vals) if isinstance(e.op, ast.And) else any(vals)
    if isinstance(e, ast.Call) and isinstance(e.func, ast.Name) and e.func.id == "EX":
        m = masks[e.args[0].value]
        return any(eval_pred(m, rt) for rt in world)
    raise Unsupported(f"flag `{unparse(e)[:60]}`")


def worlds():
    for k in range(0, len(ROW_TYPES) + 1):
        for w in itertools.combinations(ROW_TYPES, k):
            yield list(w)


def analyse(fn: ast.FunctionDef):
    """-> (slack predicate, offsets value tree, masks) or raises Unsupported.  The offsets tree is a nested ("ite", flag, a, b) over
    ("none",) / ("elem", entry)."""
    ev = RowEval(copy.deepcopy(fn))
    ev.run()
    sp = ev.env.get("self.slack_positions")
    off = ev.env.get("self.cons_offsets")
    if sp is None or off is None:
        raise Unsupported("self.slack_positions / self.cons_offsets are not both assigned")
    if sp[0] != "idx":
        raise Unsupported(f"self.slack_positions is `{sp[0]}`, not an index set")
    return sp[1], off, ev.masks


def offsets_in_world(off: tuple, masks, world) -> Optional[ast.AST]:
    """the entry expression of cons_offsets in this world, or None when the attribute is None."""
    if off[0] == "ite":
        return offsets_in_world(off[2] if eval_flag(off[1], masks, world) else off[3], masks, world)
    if off[0] == "none":
        return None
    if off[0] == "elem":
        return off[1]
    raise Unsupported(f"cons_offsets is `{off[0]}`")
